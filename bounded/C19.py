"""Bounded stand-in for C19: Lp distance against its definition and the metric axioms on profile triples;
ballot graph node/edge sets against the definition for n = 2..5 (6 in thorough); from_profile weights."""
from __future__ import annotations
import itertools
import random
from fractions import Fraction as F
from . import gen, oracle, common

RULE = ("lp_dist on pairs/triples of profiles over 3 candidates drawn from all profiles of <=2 untied partial ballots x weights {1,2,1/2}, every fourth triple with profiles of 2 ballots holding tied positions "
        "(sampled triples, p in {1,2,3,'inf'}) incl. reordered / split / rescaled copies; BallotGraph(n) for n=2..5 (thorough 6) against the "
        "definitional node and edge sets (exhaustive); BallotGraph(profile) node weights; distinct = canonical profile pair/triple; non-trivial = "
        "profiles with different distributions")


def cases(tier, seed):
    rng = random.Random(seed)
    profs = []
    for nb, ws in ((1, (1, 2)), (2, (1, 2, F(1, 2)))):
        for cands, bl in gen.profiles_exhaustive(3, nb, [F(w) for w in ws]):
            profs.append(bl)
    # rankings with tied positions next to untied rankings of the same candidates ({A,B}>C vs A>B>C are different rows of the distribution)
    tied = []
    for cands, bl in gen.profiles_exhaustive(3, 2, [F(1), F(2)], ties=True):
        if any(len(s) > 1 for r, w in bl for s in r):
            tied.append(bl)
    cs = []
    n_lp = 1200 if tier == "quick" else 12000
    for k in range(n_lp):
        if k % 4 == 3:
            cs.append(("lp", rng.choice(tied), rng.choice(tied if k % 8 == 3 else profs), rng.choice(profs)))
        else:
            cs.append(("lp", rng.choice(profs), rng.choice(profs), rng.choice(profs)))
    for n in ((2, 3, 4, 5) if tier == "quick" else (2, 3, 4, 5, 6)):
        cs.append(("graph", n))
    for bl in profs[:: (7 if tier == "quick" else 2)]:
        cs.append(("load", bl))
    return cs


def dist_def(b1, b2, p):
    d1, d2 = oracle.W_of(b1), oracle.W_of(b2)
    t1, t2 = oracle.total(d1), oracle.total(d2)
    keys = set(d1) | set(d2)
    diffs = [abs(d1.get(k, 0) / t1 - d2.get(k, 0) / t2) for k in keys]
    if p == "inf":
        return float(max(diffs))
    return float(sum(float(x) ** p for x in diffs) ** (1.0 / p))


def check_case(case):
    from votekit.metrics import lp_dist
    from votekit.graphs import BallotGraph
    out = {"evals": 0, "key": repr(case), "nontrivial": True, "violations": []}

    def viol(key, what):
        out["violations"].append({"key": "C19:" + key, "what": what + f" on case {str(case)[:500]}", "input": repr(case)[:800]})
    cands = gen.NAMES[:3]
    if case[0] == "lp":
        _, a, b, c = case
        A, B, C = (gen.mk_profile(cands, x) for x in (a, b, c))
        out["nontrivial"] = oracle.W_of(a) != oracle.W_of(b)
        for p in (1, 2, 3, "inf"):
            out["evals"] += 1
            try:
                dab, dba, dac, dcb, daa = lp_dist(A, B, p), lp_dist(B, A, p), lp_dist(A, C, p), lp_dist(C, B, p), lp_dist(A, A, p)
            except Exception as ex:
                viol(f"lp_dist:{type(ex).__name__}", f"p={p}: {ex!r}")
                continue
            exp = dist_def(a, b, p)
            if abs(dab - exp) > 1e-9:
                viol("lp_dist:value", f"p={p}: {dab} != p-norm of the normalised difference {exp}")
            if abs(dab - dba) > 1e-12:
                viol("lp_dist:symmetry", f"p={p}: {dab} vs {dba}")
            if daa > 1e-12:
                viol("lp_dist:identity", f"p={p}: d(A,A)={daa}")
            same = {k: v / oracle.total(oracle.W_of(a)) for k, v in oracle.W_of(a).items()} == {k: v / oracle.total(oracle.W_of(b)) for k, v in oracle.W_of(b).items()}
            if (dab < 1e-12) != same:
                viol("lp_dist:zero-iff-same-distribution", f"p={p}: d={dab}, same distribution={same}")
            if dab > dac + dcb + 1e-9:
                viol("lp_dist:triangle", f"p={p}: d(A,B)={dab} > d(A,C)+d(C,B)={dac + dcb}")
        # invariance under reorder / split / rescale
        r0, w0 = a[0]
        variants = {"reordered": list(reversed(a)), "split": [(r0, w0 / 3)] + a[1:] + [(r0, 2 * w0 / 3)], "rescaled": [(r, w * F(7, 2)) for r, w in a]}
        for name, v in variants.items():
            out["evals"] += 1
            try:
                d = lp_dist(A, gen.mk_profile(cands, v), 2)
                d2 = lp_dist(gen.mk_profile(cands, v), B, "inf")
            except Exception as ex:
                viol(f"lp_dist:{name}:{type(ex).__name__}", repr(ex))
                continue
            if d > 1e-12:
                viol(f"lp_dist:not-invariant-under-{name}", f"d(A, {name} A) = {d}")
            if abs(d2 - dist_def(a, b, "inf")) > 1e-9:
                viol(f"lp_dist:not-invariant-under-{name}", f"d({name} A, B) = {d2} != {dist_def(a, b, 'inf')}")
        return out
    if case[0] == "graph":
        n = case[1]
        out["evals"] += 1
        g = BallotGraph(n).graph
        lengths = [L for L in range(1, n + 1) if L != n - 1] if n > 1 else [1]
        exp_nodes = set()
        for L in lengths:
            for t in itertools.permutations(range(1, n + 1), L):
                exp_nodes.add(t)
        got_nodes = set(x if isinstance(x, tuple) else (x,) for x in g.nodes)
        if got_nodes != exp_nodes:
            viol("graph:nodes", f"n={n}: {len(got_nodes)} nodes, expected {len(exp_nodes)}; missing {sorted(exp_nodes - got_nodes)[:5]} extra {sorted(got_nodes - exp_nodes)[:5]}")
            return out

        def adjacent(u, v):
            if len(u) == len(v):
                d = [i for i in range(len(u)) if u[i] != v[i]]
                return len(d) == 2 and d[1] == d[0] + 1 and u[d[0]] == v[d[1]] and u[d[1]] == v[d[0]]
            if len(u) > len(v):
                u, v = v, u
            if v[: len(u)] != u:
                return False
            return len(v) - len(u) == 1 or (len(u) == n - 2 and len(v) == n)
        exp_edges = set()
        nodes = sorted(exp_nodes)
        for i, u in enumerate(nodes):
            for v in nodes[i + 1:]:
                if adjacent(u, v):
                    exp_edges.add(frozenset([u, v]))
        got_edges = set(frozenset([(a if isinstance(a, tuple) else (a,)), (b if isinstance(b, tuple) else (b,))]) for a, b in g.edges)
        if got_edges != exp_edges:
            viol("graph:edges", f"n={n}: {len(got_edges)} edges, expected {len(exp_edges)}; missing {[sorted(e) for e in list(exp_edges - got_edges)[:4]]} extra {[sorted(e) for e in list(got_edges - exp_edges)[:4]]}")
        return out
    if case[0] == "load":
        bl = case[1]
        out["evals"] += 1
        P = gen.mk_profile(cands, bl)
        try:
            bgph = BallotGraph(P)
        except Exception as ex:
            viol(f"from_profile:{type(ex).__name__}", repr(ex))
            return out
        num = {c: i + 1 for i, c in enumerate(P.candidates)}
        exp = {}
        for r, w in bl:
            node = [num[next(iter(s))] for s in r]
            if len(node) == len(cands) - 1:
                node = node + [x for x in num.values() if x not in node]
            exp[tuple(node)] = exp.get(tuple(node), F(0)) + w
        got = {k: v for k, v in bgph.node_weights.items() if v != 0}
        if got != exp:
            viol("from_profile:node_weights", f"{got} != {exp}")
        if sum(bgph.node_weights.values()) != P.total_ballot_wt:
            viol("from_profile:total", f"{sum(bgph.node_weights.values())} != {P.total_ballot_wt}")
        gw = {k: d["weight"] for k, d in bgph.graph.nodes(data=True) if d.get("weight")}
        if gw != exp:
            viol("from_profile:graph-node-attributes", f"{gw} != {exp}")
        # a second graph in the same process must not inherit weights
        fresh = BallotGraph(len(cands))
        if any(d.get("weight") for _, d in fresh.graph.nodes(data=True)):
            viol("graph:fresh-graph-carries-weights", "BallotGraph(n) built after loading a profile has non-zero node weights")
        return out
    return out


def run(tier="quick", seed=0):
    r = common.run("bounded.C19", cases(tier, seed), bound="profile triples over 3 candidates (sampled); ballot graph n<=5 (quick) / 6 (thorough) exhaustive",
                   rule=RULE, budget_s=600 if tier == "quick" else 1500)
    r["assumptions"].append("lp_dist compared with the definition up to 1e-9 (machine floats, A-FLOAT)")
    return r

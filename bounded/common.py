"""Runner of the bounded stand-in: shards cases over processes, counts evaluations and distinct
non-trivial cases, collects violations (DESIGN 2.7 / 2.11 bookkeeping)."""
from __future__ import annotations
import multiprocessing as mp
import os
import time
import traceback

JOBS = int(os.environ.get("VERIF_JOBS", "14"))
_worker = None


def _init(modname):
    global _worker
    import importlib
    from pyvc import replay as R
    R.ensure_repo_on_path()
    _worker = importlib.import_module(modname).check_case
    import sys
    sys.stdout = open(os.devnull, "w")  # the library prints tiebreak notices


class CaseTimeout(BaseException):
    """BaseException so that neither the harness nor library code swallows it"""


def _alarm(signum, frame):
    raise CaseTimeout()


CASE_TIMEOUT = float(os.environ.get("VERIF_CASE_TIMEOUT", "4"))  # CPU seconds of the worker (robust against machine load)


def _run(chunk):
    import signal
    out = []
    signal.signal(signal.SIGVTALRM, _alarm)
    for case in chunk:
        try:
            signal.setitimer(signal.ITIMER_VIRTUAL, CASE_TIMEOUT)
            try:
                out.append(_worker(case))
            finally:
                signal.setitimer(signal.ITIMER_VIRTUAL, 0)
        except CaseTimeout:
            out.append({"evals": 1, "key": None, "nontrivial": False, "violations": [
                {"key": f"{next((x for x in case[:2] if isinstance(x, str) and x not in ('rank', 'score')), '')}:no-termination-within-{CASE_TIMEOUT}s-cpu",
                 "what": f"run did not terminate within {CASE_TIMEOUT} CPU seconds (bounded evidence of non-termination) on {case!r}"[:600],
                 "input": repr(case)[:600]}]})
        except Exception as e:
            tbk = traceback.extract_tb(e.__traceback__)
            inner = tbk[-1] if tbk else None
            in_repo = inner is not None and "/votekit/" in inner.filename and "/verif/" not in inner.filename
            lib_under_repo = any("/votekit/" in f.filename for f in tbk) and inner is not None and "/verif/" not in inner.filename
            if in_repo or lib_under_repo:
                # an exception escaping the code under check on an input the check considers valid
                site = f"{inner.filename.split('/')[-1]}:{inner.name}"
                out.append({"evals": 1, "key": None, "nontrivial": False, "violations": [
                    {"key": f"{next((x for x in case[:2] if isinstance(x, str)), '')}:unexpected-{type(e).__name__}@{site}",
                     "what": f"{type(e).__name__}: {e} escaped the code under check on {case!r}"[:700], "input": repr(case)[:600]}]})
            else:  # harness error, never a verdict
                out.append({"harness_error": f"{e!r}\n{traceback.format_exc(limit=5)}", "case": repr(case)[:400]})
    return out


def run(modname, cases, bound, rule, budget_s=None, chunk=12, assumptions=(), keep=()):
    """cases: iterable of picklable case descriptors. check_case(case) returns
    dict(evals=int, key=canonical key or None, nontrivial=bool, violations=[...], sample=optional)"""
    t0 = time.time()
    cases = list(cases)
    chunks = [cases[i:i + chunk] for i in range(0, len(cases), chunk)]
    evals = 0
    keys = set()
    viols = []
    samples = []
    errors = []
    truncated = False
    kept = {k: [] for k in keep}
    with mp.get_context("fork").Pool(JOBS, initializer=_init, initargs=(modname,)) as pool:
        for res in pool.imap_unordered(_run, chunks):
            for r in res:
                if "harness_error" in r:
                    errors.append(r)
                    continue
                evals += r.get("evals", 1)
                for k in keep:
                    if k in r:
                        kept[k].append((str(r.get("key")), r[k]))
                if r.get("nontrivial") and r.get("key") is not None:
                    keys.add(r["key"])
                for v in r.get("violations", []):
                    if len(viols) < 200:
                        viols.append(v)
                if r.get("sample") is not None and len(samples) < 5:
                    samples.append(r["sample"])
            if budget_s and time.time() - t0 > budget_s:
                truncated = True
                pool.terminate()
                break
    if errors:
        raise RuntimeError(f"bounded harness errors ({len(errors)}): {errors[0]}")
    if not samples and cases:
        samples.append({"case": repr(cases[0])[:400]})
    # one representative per violation key
    seen = {}
    for v in viols:
        seen.setdefault(v.get("key"), v)
    return {
        "evaluations": evals, "distinct_nontrivial": len(keys), "rule": rule, "bound": bound,
        "samples": samples, "violations": list(seen.values()), "cases": len(cases),
        "exhaustive": not truncated, "bounded_wall_s": round(time.time() - t0, 1), "kept": kept,
        "assumptions": list(assumptions) + ["bounded stand-in: evidence only up to the stated scope, never counted as proved"],
    }

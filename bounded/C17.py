"""Bounded stand-in for C17: the randomised rules' draws are audited at the RNG call sites and the induced law is
compared, exactly, with the closed form (B-LAW: the choice tree of random.choices / random.sample / numpy draws is
explored by re-running the real step once per leaf; leaf probabilities are the primitives' documented probabilities)."""
from __future__ import annotations
import itertools
import random
from fractions import Fraction as F
from . import gen, oracle, common

RULE = ("RandomDictator / BoostedRandomDictator first-seat law on exhaustive small profiles (3 candidates x <=2 ballots with tied "
        "first places, weights {1,2,1/2}); the real _run_step is re-executed once per leaf of its RNG choice tree (scripted "
        "random.choices / random.sample / random.uniform / numpy.random.choice) and the exact output law is compared with "
        "fpv share (RandomDictator) resp. the (1-1/(c-1)) fpv-share + 1/(c-1) squares mixture (Boosted); tiebreak_set('random') "
        "is checked to request a uniform permutation (random.sample(list(s), k=len(s))); distinct = canonical profile; non-trivial "
        "= >=2 candidates with first-place weight")


def cases(tier, seed):
    cs = []
    for nb, ws in ((1, (1,)), (2, (1, 2, F(1, 2)))):
        for cands, bl in gen.profiles_exhaustive(3, nb, [F(w) for w in ws], ties=True):
            cs.append(("RD", cands, bl))
            cs.append(("BRD", cands, bl))
            if nb == 2 and all(len(s) == 1 for r, _ in bl for s in r) and {c for r, _ in bl for s in r for c in s} == set(cands):
                cs.append(("RD2", cands, bl))
                cs.append(("BRD2", cands, bl))
                if all(len(r) == 3 for r, _ in bl):
                    cs.append(("RD3", cands, bl))  # every later seat is drawn from the profile the previous rounds left
    cs.append(("tiebreak", None, None))
    if tier == "thorough":
        rng = random.Random(seed)
        for cands, bl in gen.profiles_random(rng, 1500, ncands_range=(3, 4), nballots_range=(2, 4), ties=True):
            cs.append(("RD", cands, bl))
            cs.append(("BRD", cands, bl))
    return cs


class Leaf(Exception):
    pass


def explore(run):
    """enumerate the choice tree of `run(script)`; script = list of branch indices; primitives ask `choose(options)`
    where options = [(value, probability)]; returns {outcome: probability}"""
    law = {}
    stack = [[]]
    while stack:
        script = stack.pop()
        pos = [0]
        prob = [F(1)]
        pending = []

        def choose(options):
            options = [(v, p) for v, p in options if p > 0]
            i = pos[0]
            pos[0] += 1
            if i < len(script):
                v, p = options[script[i]]
                prob[0] *= p
                return v
            # new decision point: branch
            for k in range(1, len(options)):
                pending.append(script + [k])
            v, p = options[0]
            script.append(0)
            prob[0] *= p
            return v
        res = run(choose)
        stack.extend(pending)
        law[res] = law.get(res, F(0)) + prob[0]
    return law


def check_case(case):
    import numpy as np
    import votekit.utils as U
    from votekit.elections import RandomDictator, BoostedRandomDictator
    import votekit.elections.election_types.ranking.random_dictator as RDm
    import votekit.elections.election_types.ranking.boosted_random_dictator as BRDm
    kind, cands, bl = case
    out = {"evals": 0, "key": repr(case)[:300], "nontrivial": True, "violations": []}

    def viol(key, what):
        out["violations"].append({"key": "C17:" + key, "what": what + f" on {gen.lit(cands, bl) if cands else ''}", "input": gen.lit(cands, bl) if cands else {}})
    if kind == "tiebreak":
        rec = []
        rs = U.random.sample
        try:
            U.random.sample = lambda pop, k: (rec.append((list(pop), k)), list(pop))[1]
            s = frozenset("ABC")
            res = U.tiebreak_set(s, None, "random")
        finally:
            U.random.sample = rs
        out["evals"] += 1
        if len(rec) != 1 or sorted(rec[0][0]) != sorted(s) or rec[0][1] != len(s):
            viol("tiebreak_set:not-a-uniform-permutation-request", f"random.sample calls {rec}")
        if not oracle.is_linearisation(res, s):
            viol("tiebreak_set:result", f"{res}")
        # the fallback after a tally that separates nobody / only some: the candidates left tied follow the permutation drawn by
        # random.sample (every scripted draw must come out as drawn: uniform given the primitive's law)
        import io
        import contextlib
        A_, B_, C_ = frozenset("A"), frozenset("B"), frozenset("C")
        sym = gen.mk_profile(["A", "B", "C"], [((A_, B_, C_), F(1)), ((B_, C_, A_), F(1)), ((C_, A_, B_), F(1))])  # all tallies equal
        part = gen.mk_profile(["A", "B", "C"], [((A_,), F(2)), ((B_, C_), F(1)), ((C_, B_), F(1))])  # A ahead, B = C on both tallies
        for prof, pbl in ((sym, [((A_, B_, C_), F(1)), ((B_, C_, A_), F(1)), ((C_, A_, B_), F(1))]), (part, [((A_,), F(2)), ((B_, C_), F(1)), ((C_, B_), F(1))])):
            for tbk in ("borda", "first_place"):
                Wp = oracle.W_of(pbl)
                scp = oracle.borda(["A", "B", "C"], Wp) if tbk == "borda" else oracle.fpv(["A", "B", "C"], Wp)
                for script in itertools.permutations("ABC"):
                    try:
                        U.random.sample = lambda pop, k, _s=script: [c for c in _s if c in set(pop)][:k]
                        with contextlib.redirect_stdout(io.StringIO()):
                            res = U.tiebreak_set(s, prof, tbk)
                    finally:
                        U.random.sample = rs
                    out["evals"] += 1
                    exp = sorted("ABC", key=lambda c: (-scp[c], script.index(c)))
                    got = [next(iter(g)) for g in res] if all(len(g) == 1 for g in res) else None
                    if got != exp:
                        viol("tiebreak_set:fallback-not-the-random-draw", f"{tbk} tiebreak (tallies {({c: str(v) for c, v in scp.items()})}), scripted draw {script}: got {res}, expected {exp}")
                        return out
        return out
    Wd = oracle.W_of(bl)
    f = oracle.fpv(cands, Wd)
    N = oracle.total(Wd)
    out["nontrivial"] = sum(1 for v in f.values() if v > 0) >= 2
    prof = gen.mk_profile(cands, bl)
    seats = int(kind[-1]) if kind[-1] in "23" else 1
    kind = kind.rstrip("23")
    mod = RDm if kind == "RD" else BRDm
    cls = RandomDictator if kind == "RD" else BoostedRandomDictator

    def first_seat_law(cs_, Wd_):
        ff = oracle.fpv(cs_, Wd_)
        NN = oracle.total(Wd_)
        if NN == 0:
            return None
        sh = {c: ff[c] / NN for c in cs_}
        if kind == "RD" or len(cs_) == 1:
            return sh
        c_ = len(cs_)
        sq = {x: sh[x] ** 2 for x in cs_}
        Z = sum(sq.values())
        return {x: (1 - F(1, c_ - 1)) * sh[x] + F(1, c_ - 1) * sq[x] / Z for x in cs_}

    def run(choose):
        # scripted primitives
        def choices(population, weights=None, k=1):
            tot = sum(F(w) for w in weights)
            calls.append(("choices", [F(w) for w in weights], len(population)))
            return [choose([(x, F(w) / tot) for x, w in zip(population, weights)])]

        def sample(population, k):
            population = list(population)
            calls.append(("sample", len(population), k))
            perms = list(itertools.permutations(population, k))
            return list(choose([(p, F(1, len(perms))) for p in perms]))

        def uniform(a, b):
            # the draw is only compared with thresholds of the form 1/j: split [0,1] at every such point, so the law is exact
            # whichever of them the code uses (each piece is represented by its midpoint and weighted by its width)
            nsteps[0] += 1
            pts = sorted({F(0), F(1)} | {F(1, j) for j in range(1, len(cands) + 1)})
            return choose([(float((lo + hi) / 2), hi - lo) for lo, hi in zip(pts, pts[1:])])

        def np_choice(a, p=None, size=None, replace=True):
            ps = [F(x).limit_denominator(10 ** 9) for x in p]
            calls.append(("np.choice", list(a), [float(x) for x in p]))
            return choose([(x, q) for x, q in zip(a, ps)])
        saved = (mod.random.choices, mod.random.sample, mod.random.uniform, getattr(mod, "np", None) and mod.np.random.choice, U.random.sample)
        mod.random.choices, mod.random.sample, mod.random.uniform = choices, sample, uniform
        U.random.sample = sample
        if kind == "BRD":
            mod.np.random.choice = np_choice
        nsteps[0] = 0
        try:
            e = cls(prof, seats)
        finally:
            mod.random.choices, mod.random.sample, mod.random.uniform = saved[0], saved[1], saved[2]
            U.random.sample = saved[4]
            if kind == "BRD":
                mod.np.random.choice = saved[3]
        el = [str(c) for g in e.get_elected() for c in g]
        if seats >= 2:
            return tuple(el[:seats]) if len(el) >= seats else None
        return el[0] if el else None
    calls = []
    nsteps = [0]
    try:
        law = explore(run)
    except Exception as ex:
        viol(f"{kind}:{type(ex).__name__}", repr(ex))
        return out
    out["evals"] += len(law)
    if seats >= 2:
        exp2 = {}

        def extend(prefix, p, cs_, Wd_):
            if len(prefix) == seats:
                exp2[prefix] = exp2.get(prefix, F(0)) + p
                return True
            law_ = first_seat_law(cs_, Wd_)
            if law_ is None:
                return False  # ballots exhausted before the next seat: C01's known finding
            for a, pa in law_.items():
                if pa != 0 and not extend(prefix + (a,), p * pa, [c for c in cs_ if c != a], oracle.scrub_W(Wd_, {a})):
                    return False
            return True
        if not extend((), F(1), list(cands), Wd):
            return out
        tol2 = F(1, 10 ** 6) if kind == "BRD" else F(0)
        keys = set(exp2) | {k for k in law if k is not None}
        if law.get(None, 0) or any(abs(law.get(k, F(0)) - exp2.get(k, F(0))) > tol2 for k in keys):
            viol(f"{kind}:{seats}-seat-law", f"exact law of the first {seats} seats {({str(k): str(v) for k, v in law.items()})} != closed form {({str(k): str(v) for k, v in exp2.items() if v})}")
        return out
    share = {c: f[c] / N for c in cands}
    if kind == "RD":
        exp = share
    else:
        c = len(cands)
        sq = {x: share[x] ** 2 for x in cands}
        Z = sum(sq.values())
        exp = {x: (1 - F(1, c - 1)) * share[x] + F(1, c - 1) * sq[x] / Z for x in cands}
    got = {c: law.get(c, F(0)) for c in cands}
    tol = F(1, 10 ** 6) if kind == "BRD" else F(0)
    if any(abs(got[c] - exp[c]) > tol for c in cands) or law.get(None, 0):
        viol(f"{kind}:law", f"exact law of the first seat {({k: str(v) for k, v in got.items()})} != closed form {({k: str(v) for k, v in exp.items()})}")
    # call-site: the ballot draw must be weighted by the ballot weights
    for cl in calls:
        if cl[0] == "choices" and sorted(cl[1]) != sorted(w for _, w in bl):
            viol(f"{kind}:ballot-draw-weights", f"random.choices weights {cl[1]} are not the ballot weights")
            break
    if out["nontrivial"] and not out["violations"]:
        out["sample"] = {"rule": kind, "input": gen.lit(cands, bl), "law": {k: str(v) for k, v in got.items()}}
    return out


def run(tier="quick", seed=0):
    r = common.run("bounded.C17", cases(tier, seed), bound="3 candidates x <=2 ballots (ties in first place), first seat; thorough <=4 x 4", rule=RULE,
                   budget_s=600 if tier == "quick" else 1200)
    r["assumptions"] += ["A-LIB: random.choices(weights), random.sample, random.uniform and numpy.random.choice(p) follow their documented laws",
                         "multi-seat sequences are covered only through the first-seat law of each (reduced) profile in the enumeration"]
    return r

"""Reference ("spec") computations for the bounded tier, written from the property statements.
Imports nothing from votekit; works on plain tuples/frozensets/Fractions."""
from __future__ import annotations
import itertools
from fractions import Fraction as F

PLACEHOLDER = (frozenset(),)


def W_of(ballots):
    """multiset view: ranking -> total weight (ballots: iterable of (ranking, weight))"""
    d = {}
    for r, w in ballots:
        d[r] = d.get(r, F(0)) + F(w)
    return {k: v for k, v in d.items()}


def W_profile(profile, drop_zero=True):
    d = {}
    for b in profile.ballots:
        r = b.ranking if b.ranking else ()
        d[r] = d.get(r, F(0)) + b.weight
    if drop_zero:
        d = {k: v for k, v in d.items() if v != 0}
    return d


def total(Wd):
    return sum(Wd.values(), F(0))


def scrub(r, removed):
    out = []
    for s in r:
        t = frozenset(c for c in s if c not in removed)
        if t:
            out.append(t)
    return tuple(out)


def scrub_W(Wd, removed):
    d = {}
    for r, w in Wd.items():
        k = scrub(r, removed)
        if k:
            d[k] = d.get(k, F(0)) + w
    return d


def pos_scores(cands, Wd, vector):
    """positional scores with tie averaging; unlisted candidates share the remaining points"""
    n = len(cands)
    v = [F(x) for x in vector] + [F(0)] * max(0, n - len(vector))
    sc = {c: F(0) for c in cands}
    for r, w in Wd.items():
        listed = [c for s in r for c in s]
        pos = list(r)
        missing = frozenset(c for c in cands if c not in listed)
        if missing:
            pos = pos + [missing]
        i = 0
        for s in pos:
            k = len(s)
            pts = sum(v[i:i + k], F(0)) / k
            for c in s:
                sc[c] += pts * w
            i += k
    return sc


def fpv(cands, Wd):
    return pos_scores(cands, Wd, [1])


def borda(cands, Wd):
    n = len(cands)
    return pos_scores(cands, Wd, list(range(n, 0, -1)))


def mentions(cands, Wd):
    sc = {c: F(0) for c in cands}
    for r, w in Wd.items():
        for s in r:
            for c in s:
                sc[c] += w
    return sc


def ranking_of(scores, hi=True):
    if not scores:
        return PLACEHOLDER
    vals = sorted(set(scores.values()), reverse=hi)
    return tuple(frozenset(c for c, s in scores.items() if s == v) for v in vals)


def cands_of(r):
    return [c for s in r for c in s]


def droop(N, m):
    return int(F(N) / (m + 1)) + 1


def hare(N, m):
    return int(F(N) / m)


def is_linearisation(t, s):
    """t is a tuple of singletons whose members are exactly s, each once"""
    return all(len(x) == 1 for x in t) and len(t) == len(s) and frozenset(c for x in t for c in x) == frozenset(s)


# ---------------------------------------------------------------- C01: outcome audit
def audit_outcome(e, cands, seats, exact=True):
    """returns list of problems: partition at every round, monotone status, seat count"""
    probs = []
    cands = list(cands)
    prev_el, prev_elim = set(), set()
    L = len(e.election_states)
    for r in range(L):
        el = cands_of(e.get_elected(r))
        rem = cands_of(e.get_remaining(r))
        elim = cands_of(e.get_eliminated(r))
        allc = el + rem + elim
        if sorted(allc) != sorted(cands):
            probs.append(f"round {r}: elected {el} + remaining {rem} + eliminated {elim} is not each candidate of {cands} exactly once")
        if not prev_el <= set(el):
            probs.append(f"round {r}: an elected candidate lost its status")
        if not prev_elim <= set(elim):
            probs.append(f"round {r}: an eliminated candidate lost its status")
        rk = cands_of(e.get_ranking(r))
        if sorted(rk) != sorted(cands):
            probs.append(f"round {r}: get_ranking lists {rk}")
        prev_el, prev_elim = set(el), set(elim)
    n_el = len(cands_of(e.get_elected()))
    if exact and n_el != seats:
        probs.append(f"final: {n_el} elected, {seats} seats")
    return probs


# ---------------------------------------------------------------- C02/C03: STV round audit
def audit_stv(e, cands, Wd0, m, quota, simultaneous, transfer, tiebreak, transfer_log=None):
    """audit every recorded round against the documented count.
    transfer in {'fractional','random','sequential'}; returns list of problems"""
    probs = []
    N = total(Wd0)
    T = droop(N, m) if quota == "droop" else hare(N, m)
    if e.threshold != T:
        probs.append(f"threshold {e.threshold} != {quota} quota {T} of N={N}, m={m}")
        return probs
    st0 = e.election_states[0]
    cur = dict(Wd0)
    cur_cands = list(cands)
    tall0 = fpv(cands, Wd0)
    if dict(st0.scores) != tall0:
        probs.append(f"round 0 scores {dict(st0.scores)} != first-place tallies {tall0}")
    if tuple(st0.remaining) != ranking_of(tall0):
        probs.append(f"round 0 remaining {st0.remaining} != tally order {ranking_of(tall0)}")
    elected_so_far = []
    for r in range(1, len(e.election_states)):
        s = e.election_states[r]
        prev = e.election_states[r - 1]
        tall = fpv(cur_cands, cur)
        order = ranking_of(tall) if cur_cands else PLACEHOLDER
        above = [c for c in cur_cands if tall[c] >= T]
        tot_before = total(cur)
        tag = f"round {r}"
        if s.round_number != r:
            probs.append(f"{tag}: round_number {s.round_number}")
        if above:
            if tuple(s.eliminated) != PLACEHOLDER:
                probs.append(f"{tag}: election round reports eliminated {s.eliminated}")
            if simultaneous:
                exp = tuple(g for g in order if tall[next(iter(g))] >= T)
                if tuple(s.elected) != exp:
                    probs.append(f"{tag}: elected {s.elected}, expected exactly the candidates at/above threshold {exp}")
                    return probs
                winners = cands_of(exp)
                if s.tiebreaks:
                    probs.append(f"{tag}: tiebreak recorded in a simultaneous election round")
            else:
                top = order[0]
                if len(s.elected) != 1 or len(s.elected[0]) != 1 or not (s.elected[0] <= top):
                    probs.append(f"{tag}: one-by-one elected {s.elected}, expected a single member of the top group {top}")
                    return probs
                winners = cands_of(s.elected)
                if len(top) > 1:
                    if top not in s.tiebreaks or not is_linearisation(s.tiebreaks[top], top) or s.tiebreaks[top][0] != s.elected[0]:
                        probs.append(f"{tag}: tie {top} for the seat not recorded/obeyed: {s.tiebreaks}")
                elif s.tiebreaks:
                    probs.append(f"{tag}: tiebreak recorded without a tie: {s.tiebreaks}")
            # transfers
            nxt = {}
            for rk, w in cur.items():
                lead = next(iter(rk[0]))
                if lead in winners:
                    continue
                k = scrub(rk, winners)
                if k:
                    nxt[k] = nxt.get(k, F(0)) + w
            for c in winners:
                pool = {}
                for rk, w in cur.items():
                    if next(iter(rk[0])) == c:
                        k = scrub(rk, {c})
                        if k:
                            pool[k] = pool.get(k, F(0)) + w
                if transfer == "random":
                    ent = next((x for x in (transfer_log or []) if x["round_hint"] is None and x["winner"] == c and not x.get("used")), None)
                    if ent is None:
                        probs.append(f"{tag}: no logged random transfer for winner {c}")
                        return probs
                    ent["used"] = True
                    got = ent["result"]
                    if any(w != int(w) or w < 0 for w in got.values()):
                        probs.append(f"{tag}: random transfer produced non-whole ballots {got}")
                    if any(got.get(k, 0) > pool.get(k, 0) for k in got):
                        probs.append(f"{tag}: random transfer for {c} is not a sub-collection of its ballots: {got} vs {pool}")
                    want = int(tall[c]) - T
                    exhausted_units = tall[c] - total(pool)  # winner ballots with no surviving choice
                    if not (want - exhausted_units <= total(got) <= min(want, total(pool))):
                        probs.append(f"{tag}: random transfer for {c} moved {total(got)} ballots; surplus {want}, of which at most "
                                     f"{exhausted_units} can be exhausted ballots")
                    moved = got
                else:
                    if transfer == "fractional" and tall[c] == 0:
                        # a winner without a single vote (possible only with threshold 0): nothing to transfer, and the real
                        # transfer function divides by the tally -- the round cannot have been carried out as the rules say
                        probs.append(f"{tag}: {c} recorded as elected over the threshold {T} with a tally of 0")
                        return probs
                    fac = (tall[c] - T) / tall[c] if transfer == "fractional" else F(1)
                    moved = {k: w * fac for k, w in pool.items() if w * fac > 0}
                for k, w in moved.items():
                    k2 = scrub(k, winners)
                    if k2 and w > 0:
                        nxt[k2] = nxt.get(k2, F(0)) + w
            cur = nxt
            cur_cands = [c for c in cur_cands if c not in winners]
            elected_so_far += winners
        elif len(cur_cands) == m - len(elected_so_far):
            if tuple(s.elected) != tuple(prev.remaining) or tuple(s.eliminated) != PLACEHOLDER:
                probs.append(f"{tag}: default election should elect all remaining {prev.remaining}; got elected={s.elected} eliminated={s.eliminated}")
                return probs
            elected_so_far += cur_cands
            cur = {}
            cur_cands = []
        else:
            low = order[-1]
            if tuple(s.elected) != PLACEHOLDER:
                probs.append(f"{tag}: elimination round reports elected {s.elected}")
            if len(s.eliminated) != 1 or len(s.eliminated[0]) != 1 or not (s.eliminated[0] <= low):
                probs.append(f"{tag}: eliminated {s.eliminated}, expected exactly one member of the lowest-tally group {low} (tallies {tall})")
                return probs
            x = next(iter(s.eliminated[0]))
            if len(low) > 1:
                init = fpv(cands, Wd0)
                lowest_init = min(init[c] for c in low)
                if init[x] != lowest_init:
                    probs.append(f"{tag}: tie for elimination in {low} must go to lowest initial tally; eliminated {x} with {init[x]} > {lowest_init}")
                tb = s.tiebreaks.get(low)
                if tb is None or not is_linearisation(tb, low) or tb[-1] != s.eliminated[0]:
                    probs.append(f"{tag}: elimination tie {low} not recorded/obeyed: {s.tiebreaks}")
                else:
                    vals = [init[next(iter(g))] for g in tb]
                    if any(vals[i] < vals[i + 1] for i in range(len(vals) - 1)):
                        probs.append(f"{tag}: recorded resolution {tb} not ordered by initial first-place tally {vals}")
            elif s.tiebreaks:
                probs.append(f"{tag}: tiebreak recorded without a tie: {s.tiebreaks}")
            cur = scrub_W(cur, {x})
            cur_cands = [c for c in cur_cands if c != x]
        # reported tallies and order
        exp_sc = fpv(cur_cands, cur)
        if dict(s.scores) != exp_sc:
            probs.append(f"{tag}: reported scores {dict(s.scores)} != first-place weights of the resulting ballots {exp_sc}")
            return probs
        exp_rem = ranking_of(exp_sc) if cur_cands else PLACEHOLDER
        if tuple(s.remaining) != exp_rem:
            probs.append(f"{tag}: reported remaining {s.remaining} != {exp_rem}")
        # conservation (C03)
        if total(cur) > tot_before:
            probs.append(f"{tag}: total weight increased {tot_before} -> {total(cur)}")
    return probs




# ---------------------------------------------------------------- reference STV explorer (all tie branches)
def ref_stv_explore(cands, Wd0, m, quota, simultaneous, transfer, tiebreak_given, limit=400):
    """explores the documented count over all tie resolutions (fractional / sequential transfer only).
    returns dict(outcomes=set of frozenset winners, tie_error=bool (a one-by-one seat tie is reachable),
    overfull=bool (more candidates at/above threshold than seats left is reachable), zero_T=bool)"""
    N = total(Wd0)
    T = droop(N, m) if quota == "droop" else hare(N, m)
    init = fpv(cands, Wd0)
    res = {"outcomes": set(), "tie_error": False, "overfull": False, "zero_T": T <= 0, "nodes": 0, "T": T}
    if T <= 0:
        return res
    stack = [(dict(Wd0), tuple(cands), ())]
    while stack and res["nodes"] < limit:
        cur, cc, el = stack.pop()
        res["nodes"] += 1
        if len(el) == m:
            res["outcomes"].add(frozenset(el))
            continue
        if len(el) > m:
            res["overfull"] = True
            continue
        tall = fpv(cc, cur)
        above = [c for c in cc if tall[c] >= T]
        if above:
            if simultaneous:
                winners_opts = [above]
            else:
                top = max(tall[c] for c in above)
                tied = [c for c in above if tall[c] == top]
                if len(tied) > 1:
                    res["tie_error"] = True
                winners_opts = [[c] for c in tied]
            for winners in winners_opts:
                if len(el) + len(winners) > m:
                    res["overfull"] = True
                nxt = {}
                for rk, w in cur.items():
                    lead = next(iter(rk[0]))
                    if lead in winners and transfer == "fractional":
                        w2 = w * (tall[lead] - T) / tall[lead]
                    else:
                        w2 = w
                    k = scrub(rk, winners)
                    if k and w2 > 0:
                        nxt[k] = nxt.get(k, F(0)) + w2
                stack.append((nxt, tuple(c for c in cc if c not in winners), el + tuple(winners)))
        elif len(cc) == m - len(el):
            stack.append(({}, (), el + cc))
        else:
            low = min(tall[c] for c in cc)
            tied = [c for c in cc if tall[c] == low]
            li = min(init[c] for c in tied)
            tied = [c for c in tied if init[c] == li]
            for x in tied:
                stack.append((scrub_W(cur, {x}), tuple(c for c in cc if c != x), el))
    return res

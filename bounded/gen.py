"""Small-scope exhaustive generators for the bounded stand-in (B-SSE, DESIGN 2.7).
Plain python data only: a ranking is a tuple of frozensets, a ballot spec is
(ranking|None, weight Fraction, scores dict|None)."""
from __future__ import annotations
import itertools
import random
from fractions import Fraction as F

NAMES = ["A", "B", "C", "D", "E", "F", "G"]


def ordered_partitions(items):
    """all ordered set partitions (rankings with ties) of exactly `items`"""
    items = list(items)
    if not items:
        yield ()
        return
    n = len(items)
    for k in range(1, n + 1):
        for first in itertools.combinations(items, k):
            rest = [x for x in items if x not in first]
            for tail in ordered_partitions(rest):
                yield (frozenset(first),) + tail


def rankings(cands, ties=False, partial=True, min_len=1):
    """rankings over subsets of cands (non-empty); untied unless ties=True"""
    cands = list(cands)
    out = []
    sizes = range(1, len(cands) + 1) if partial else [len(cands)]
    for k in sizes:
        for sub in itertools.combinations(cands, k):
            if ties:
                for r in ordered_partitions(sub):
                    out.append(r)
            else:
                for perm in itertools.permutations(sub):
                    out.append(tuple(frozenset([c]) for c in perm))
    return [r for r in out if len(r) >= min_len]


def multisets(pool, k):
    return itertools.combinations_with_replacement(pool, k)


def profiles_exhaustive(ncands, nballots, weights, ties=False, partial=True, distinct_rankings=True):
    """all profiles with exactly nballots ballots (rankings chosen as a combination when
    distinct_rankings, weights from `weights`)"""
    cands = NAMES[:ncands]
    rk = rankings(cands, ties=ties, partial=partial)
    chooser = itertools.combinations if distinct_rankings else itertools.combinations_with_replacement
    for rs in chooser(rk, nballots):
        for ws in itertools.product(weights, repeat=nballots):
            yield cands, [(r, w) for r, w in zip(rs, ws)]


def profiles_random(rng: random.Random, n, ncands_range=(2, 5), nballots_range=(1, 6), weights=(1, 2, 3, F(1, 2), F(2, 3), 5),
                    ties=False, partial=True):
    for _ in range(n):
        nc = rng.randint(*ncands_range)
        cands = NAMES[:nc]
        nb = rng.randint(*nballots_range)
        bl = []
        for _ in range(nb):
            k = rng.randint(1, nc) if partial else nc
            sub = rng.sample(cands, k)
            if ties and rng.random() < 0.4:
                # random ordered partition
                r = []
                cur = []
                for c in sub:
                    cur.append(c)
                    if rng.random() < 0.5:
                        r.append(frozenset(cur))
                        cur = []
                if cur:
                    r.append(frozenset(cur))
                r = tuple(r)
            else:
                r = tuple(frozenset([c]) for c in sub)
            bl.append((r, F(rng.choice(weights))))
        yield cands, bl


def canon(cands, ballots):
    """canonical key: candidates renamed by first occurrence, ballots sorted"""
    ren = {}
    for r, w in ballots:
        for s in r:
            for c in sorted(s):
                ren.setdefault(c, len(ren))
    for c in cands:
        ren.setdefault(c, len(ren))
    key = sorted((tuple(tuple(sorted(ren[c] for c in s)) for s in r), str(w)) for r, w in ballots)
    return (len(cands), tuple(key))


def nontrivial(cands, ballots):
    """>= 2 candidates receive weight and >= 2 distinct ballot contents occur"""
    got = set()
    for r, w in ballots:
        if w > 0:
            for s in r:
                got |= set(s)
    return len(got) >= 2 and len({r for r, _ in ballots}) >= 2


def mk_profile(cands, ballots, with_cands=True):
    from votekit.ballot import Ballot
    from votekit.pref_profile import PreferenceProfile
    bs = tuple(Ballot(ranking=r, weight=w) for r, w in ballots)
    if with_cands:
        return PreferenceProfile(ballots=bs, candidates=tuple(cands))
    return PreferenceProfile(ballots=bs)


def lit(cands, ballots):
    return {"candidates": list(cands),
            "ballots": [[[sorted(s) for s in r], str(w)] for r, w in ballots]}


def unlit(d):
    return d["candidates"], [(tuple(frozenset(s) for s in r), F(w)) for r, w in d["ballots"]]

"""Bounded stand-in for C08 (B-HASH): relational execution.  The same cases are run in subprocesses with different
PYTHONHASHSEED; inside each, every deterministic outcome is compared with the outcomes on the renamed / reordered /
split / merged / candidate-list-permuted variants of the profile.  Round records are compared whenever no random
tiebreak is recorded."""
from __future__ import annotations
import itertools
import json
import os
import random
import subprocess
import sys
from fractions import Fraction as F
from . import gen, oracle, common

RULE = ("deterministic paths of STV (both modes), SequentialRCV, Plurality, Borda, TopTwo, Alaska, DominatingSets, CondoBorda, "
        "Approval and the scoring utilities on exhaustive small profiles (3 candidates x <=3 ballots, weights {1,2}; ties for the "
        "scoring rules) x {renaming by a bijection whose sort order and hash order differ, ballot reversal/rotation, splitting the "
        "first ballot, merging duplicates, candidate list reversed} x PYTHONHASHSEED in {0,1,2}; distinct = canonical (profile, rule); "
        "non-trivial = >=2 candidates with weight and >=2 ballots")

RULES = ["STV", "STV1", "SequentialRCV", "Plurality", "Borda", "TopTwo", "Alaska", "DominatingSets", "CondoBorda", "Approval", "utils"]
REN = {"A": "Anna", "B": "Ann", "C": "zed", "D": "An", "E": "b", "F": "Zed", "G": "a"}  # sort order != original order; names contained in one another
HASHSEEDS = ("0", "1", "2")  # quick uses the first two


def cases(tier, seed):
    cs = []
    i = 0
    for nb, ws in ((1, (1, 2)), (2, (1, 2)), (3, (1,))):
        for ties in (False, True):
            for cands, bl in gen.profiles_exhaustive(3, nb, [F(w) for w in ws], ties=ties):
                if ties and all(len(s) == 1 for r, _ in bl for s in r):
                    continue
                i += 1
                if tier == "quick" and (nb == 3 and i % 9 or nb == 2 and i % 4):
                    continue
                for rule in RULES:
                    if ties and rule not in ("Plurality", "Borda", "TopTwo", "utils", "Approval", "DominatingSets", "CondoBorda"):
                        continue
                    if (i + len(rule)) % 3 and rule not in ("utils", "STV"):
                        continue
                    cs.append((rule, cands, bl, 1 + i % 3))
    # seven candidates, short ballots leaving six of them unranked (pairwise comparisons between unranked candidates stay even)
    c7 = gen.NAMES[:7]
    r7 = random.Random(7)
    for j in range(16):
        bl = [((frozenset([r7.choice(c7)]),), F(r7.randint(1, 3))) for _ in range(r7.randint(1, 3))]
        p7 = c7[:]
        r7.shuffle(p7)
        bl.append((tuple(frozenset([c]) for c in p7), F(r7.randint(1, 2))))  # one full ranking orders everybody
        cs.insert(0, ("DominatingSets", c7, bl, 1))
        if j % 4 == 0:
            cs.insert(0, ("CondoBorda", c7, bl, 1 + j % 3))
    if tier == "thorough":
        rng = random.Random(seed)
        for cands, bl in gen.profiles_random(rng, 1500, ncands_range=(3, 4), nballots_range=(2, 5), weights=(1, 2, F(1, 2))):
            for rule in RULES:
                cs.append((rule, cands, bl, rng.randint(1, len(cands))))
    return cs


def run_rule(rule, cands, bl, m, with_cands=True, rm=None):
    """returns a canonical, order-free description of the whole outcome (or an exception marker)"""
    import votekit.elections as E
    import votekit.utils as U
    from votekit.ballot import Ballot
    from votekit.pref_profile import PreferenceProfile
    from .C01 import build
    prof = gen.mk_profile(cands, bl, with_cands=with_cands)
    try:
        if rule == "utils":
            return ("utils", sorted((k, str(v)) for k, v in U.first_place_votes(prof).items()),
                    sorted((k, str(v)) for k, v in U.borda_scores(prof).items()),
                    sorted((k, str(v)) for k, v in U.mentions(prof).items()),
                    [sorted(s) for s in U.score_dict_to_ranking(U.borda_scores(prof))],
                    ["MS"] + [[str(v), [sorted(g) for g in k]] for k, v in oracle.W_profile(U.remove_cand(rm if rm is not None else cands[0], prof)).items()])
        if rule == "STV":
            e = E.STV(prof, m=m, tiebreak="borda")
        elif rule == "STV1":
            e = E.STV(prof, m=m, simultaneous=False, tiebreak="borda")
        elif rule == "SequentialRCV":
            e = E.SequentialRCV(prof, m=m, tiebreak="borda")
        elif rule == "Alaska":
            e = E.Alaska(prof, m_1=max(m, 2), m_2=min(m, 2), tiebreak="borda")
        elif rule == "Approval":
            p2 = PreferenceProfile(ballots=tuple(Ballot(scores={c: 1 for s in r for c in s}, weight=w) for r, w in bl), candidates=tuple(cands))
            e = E.Approval(p2, m, tiebreak="random")
        else:
            e = build(rule, prof, m, "borda")[0]
    except Exception as ex:
        return ("exception", type(ex).__name__)
    if any(s.tiebreaks for s in e.election_states):
        return ("tiebreak-recorded",)
    return ("rounds", [(s.round_number, [sorted(g) for g in s.remaining], [sorted(g) for g in s.elected], [sorted(g) for g in s.eliminated],
                        sorted((k, str(v)) for k, v in s.scores.items())) for s in e.election_states])


def rename(x, ren):
    return json.loads(json.dumps(x), object_hook=None) if False else _ren(x, ren)


def _ren(x, ren):
    if isinstance(x, str):
        return ren.get(x, x)
    if isinstance(x, (list, tuple)):
        y = [_ren(i, ren) for i in x]
        return y
    return x


def _norm(x):
    """sort the inner candidate lists / score lists again after renaming"""
    if isinstance(x, (list, tuple)):
        y = [_norm(i) for i in x]
        if y and y[0] == "MS":
            return ["MS"] + sorted(y[1:], key=lambda t: json.dumps(t))
        if y and all(isinstance(i, str) for i in y):
            return sorted(y)
        if y and all(isinstance(i, list) and len(i) == 2 and isinstance(i[0], str) and isinstance(i[1], str) for i in y):
            return sorted(y)
        return y
    return x


def check_case(case):
    rule, cands, bl, m = case
    random.seed(5)
    import numpy as np
    np.random.seed(5)
    out = {"evals": 0, "key": (rule, m, gen.canon(cands, bl)), "nontrivial": gen.nontrivial(cands, bl), "violations": []}
    desc = dict(gen.lit(cands, bl), rule=rule, m=m, hashseed=os.environ.get("PYTHONHASHSEED"))

    def viol(key, what):
        out["violations"].append({"key": f"C08:{rule}:" + key, "what": what + f" on {desc}", "input": desc})
    base = run_rule(rule, cands, bl, m, rm=cands[0])
    out["evals"] += 1
    out["digest"] = (repr(case), json.dumps(_norm(base), sort_keys=True, default=str))
    if base[0] in ("exception", "tiebreak-recorded"):
        return out
    variants = {}
    if len(bl) > 1:
        variants["ballots-reversed"] = (cands, list(reversed(bl)))
        variants["ballots-rotated"] = (cands, bl[1:] + bl[:1])
    r0, w0 = bl[0]
    variants["first-ballot-split"] = (cands, [(r0, w0 / 3), (r0, w0 * 2 / 3)] + bl[1:])
    variants["first-ballot-split-apart"] = (cands, [(r0, w0 / 4)] + bl[1:] + [(r0, w0 * 3 / 4)])
    big = F(1234577, 2000003)
    variants["first-ballot-split-large-denominators"] = (cands, [(r0, w0 * big * F(3, 7))] + bl[1:] + [(r0, w0 * (1 - big)), (r0, w0 * big * F(4, 7))])
    variants["candidates-reversed"] = (list(reversed(cands)), bl)
    variants["candidates-rotated"] = (cands[1:] + cands[:1], bl)
    for name, (c2, b2) in variants.items():
        got = run_rule(rule, c2, b2, m, rm=cands[0])
        out["evals"] += 1
        if got[0] == "tiebreak-recorded":
            continue
        if _norm(got) != _norm(base):
            viol(name, f"outcome changes: {_norm(base)} vs {_norm(got)}")
    ren = {c: REN[c] for c in cands}
    c3 = [ren[c] for c in cands]
    b3 = [(tuple(frozenset(ren[c] for c in s) for s in r), w) for r, w in bl]
    got = run_rule(rule, c3, b3, m, rm=ren[cands[0]])
    out["evals"] += 1
    if got[0] != "tiebreak-recorded" and _norm(got) != _norm(_ren(base, ren)):
        viol("renaming", f"renamed outcome {_norm(got)} is not the renaming of {_norm(base)}")
    if out["nontrivial"] and not out["violations"]:
        out["sample"] = desc
    return out


def _child(tier, seed, path):
    """runs all cases in this interpreter (own PYTHONHASHSEED) and writes digests + violations"""
    os.environ["VERIF_JOBS"] = "7" if tier == "quick" else "5"
    common.JOBS = 7 if tier == "quick" else 5
    cs = cases(tier, seed)
    digests = {}
    orig = check_case

    r = common.run("bounded.C08", cs, bound="", rule="", budget_s=400 if tier == "quick" else 2400, keep=("digest",))
    json.dump(r, open(path, "w"), default=str)


def run(tier="quick", seed=0):
    import tempfile
    tmpd = tempfile.mkdtemp(prefix="c08.")
    procs = []
    seeds = HASHSEEDS[:2] if tier == "quick" else HASHSEEDS
    for hs in seeds:
        env = dict(os.environ, PYTHONHASHSEED=hs)
        p = subprocess.Popen([sys.executable, "-c",
                              f"import sys; sys.path.insert(0, {os.path.dirname(os.path.dirname(os.path.abspath(__file__)))!r}); "
                              f"from pyvc import replay as R; R.ensure_repo_on_path(); from bounded import C08; C08._child({tier!r}, {seed}, {os.path.join(tmpd, hs + '.json')!r})"],
                             env=env, stdout=subprocess.DEVNULL, stderr=subprocess.PIPE)
        procs.append((hs, p))
    results = {}
    for hs, p in procs:
        _, err = p.communicate()
        if p.returncode != 0:
            raise RuntimeError(f"C08 child (PYTHONHASHSEED={hs}) failed: {err.decode()[-800:]}")
        results[hs] = json.load(open(os.path.join(tmpd, hs + ".json")))
    import shutil
    shutil.rmtree(tmpd, ignore_errors=True)
    base = results[seeds[0]]
    agg = dict(base)
    agg["rule"] = RULE
    agg["bound"] = "3 candidates x <=3 ballots x 8 representation variants x 2 (quick) / 3 (thorough) hash seeds"
    for hs in seeds[1:]:
        r = results[hs]
        agg["evaluations"] += r["evaluations"]
        agg["violations"] += r["violations"]
        agg["exhaustive"] = agg["exhaustive"] and r["exhaustive"]
        d0 = dict(tuple(x[1]) for x in base["kept"]["digest"])
        d1 = dict(tuple(x[1]) for x in r["kept"]["digest"])
        for k in d0:
            if k in d1 and d0[k] != d1[k] and '"tiebreak-recorded"' not in d0[k] + d1[k]:
                agg["violations"].append({"key": "C08:" + k.split("'")[1] + ":hash-seed-dependence",
                                          "what": f"outcome differs between PYTHONHASHSEED={HASHSEEDS[0]} and {hs}: {d0[k][:300]} vs {d1[k][:300]} for case {k[:300]}",
                                          "input": k})
    agg.pop("kept", None)
    seen = {}
    for v in agg["violations"]:
        seen.setdefault(v["key"], v)
    agg["violations"] = list(seen.values())
    return agg

"""Bounded stand-in for C10: randomness only breaks genuine ties, every tiebreak is recorded.
Each election is run under several random streams (python `random` and numpy seeded); if no round records a
tiebreak the whole outcome must be identical under all of them; every recorded tiebreak must concern a set tied
on the deciding tally where the decision depended on the order, its resolution must be a strict order of exactly
that set obeyed by the round, and borda/first_place resolutions must be ordered by that score."""
from __future__ import annotations
import random
from fractions import Fraction as F
from . import gen, oracle, common
from .C01 import build

RULE = ("non-random rules (STV simultaneous/one-by-one, IRV, SequentialRCV, Plurality, SNTV, Borda, TopTwo, Alaska, CondoBorda, "
        "Rating, Approval) on exhaustive small profiles engineered to contain ties (3 candidates x <=3 ballots, weights {1,2}) x "
        "tiebreak {random, borda, first_place} x 4 random seeds (python random + numpy); distinct = canonical (profile, rule, "
        "configuration); non-trivial = some tally tie exists in round 0")

RULES = ["STV", "STV1", "IRV", "SequentialRCV", "Plurality", "SNTV", "Borda", "TopTwo", "Alaska", "CondoBorda", "Approval"]
SEEDS = (1, 2, 3, 4)


def cases(tier, seed):
    cs = []
    i = 0
    for nb, ws in ((1, (1,)), (2, (1, 2)), (3, (1,))):
        for cands, bl in gen.profiles_exhaustive(3, nb, [F(w) for w in ws], ties=(nb < 3)):
            for rule in RULES:
                i += 1
                untied = all(len(s) == 1 for r, _ in bl for s in r)
                if rule in ("STV", "STV1", "IRV", "SequentialRCV", "Alaska", "CondoBorda") and not untied:
                    continue
                if nb == 3 and rule not in ("STV", "STV1", "SequentialRCV", "Alaska", "TopTwo", "CondoBorda"):
                    continue
                if tier == "quick" and nb >= 2 and i % 4 and not (nb == 3 and rule in ("TopTwo", "CondoBorda", "Alaska") and i % 2 == 0):
                    continue
                cs.append((rule, cands, bl, 1 + i % 3, ("random", "borda", "first_place")[i % 3]))
    # three-way first-place ties (each candidate first on one ballot): the secondary tally often separates only some of them
    for cands, bl in gen.profiles_exhaustive(3, 3, [F(1)]):
        if len({next(iter(r[0])) for r, _ in bl}) == 3:
            i += 1
            for rule in ("Plurality", "SNTV"):
                cs.insert(0, (rule, cands, bl, 1 + i % 2, ("borda", "borda", "random")[i % 3]))
    # tallies closer than double precision are not ties: no tiebreak may be recorded, nothing may depend on the seed
    eps = F(1, 10 ** 20)
    one = lambda c: (frozenset([c]),)
    c3 = gen.NAMES[:3]
    for bl in ([(one("A"), F(1)), (one("B"), 1 + eps), (one("C") + one("A"), F(1, 2))],
               [(one("A") + one("B"), F(1)), (one("B") + one("C"), 1 + eps), (one("C") + one("A"), 1 + 2 * eps)],
               [(one("A"), F(1, 3)), (one("B"), F(1, 3) + eps), (one("C"), F(1, 3) - eps)]):
        for rule in ("Plurality", "Borda", "IRV", "STV", "STV1", "TopTwo", "Approval"):
            for m in (1, 2):
                cs.insert(0, (rule, c3, bl, m, "random"))
    # several candidates without a first-place vote: every elimination among them is a tie and must be recorded
    c5 = gen.NAMES[:5]
    one = lambda *cs_: tuple(frozenset([c]) for c in cs_)
    for bl in ([(one("A"), F(10)), (one("B", "A"), F(1))], [(one("A", "B"), F(5)), (one("B", "A"), F(4)), (one("A", "D"), F(1))], [(one("C", "D"), F(3)), (one("D", "C"), F(3))]):
        for rule in ("STV", "STV1", "IRV", "SequentialRCV"):
            for m in (1, 2):
                cs.insert(0, (rule, c5, bl, m, "random"))
    # tiebreak_set itself under a scripted random.sample: candidates are ordered by the exact tally of the profile (first-place votes
    # split among tied first choices, Borda with averaged ties), and candidates the tally leaves tied follow the random draw
    j = 0
    for cands, bl in gen.profiles_exhaustive(3, 2, [F(1), F(2)], ties=True):
        j += 1
        if any(len(r[0]) > 1 for r, _ in bl) and (tier != "quick" or j % 2 == 0):
            for tb in ("first_place", "borda"):
                cs.insert(0, ("tbset", cands, bl, 1 + j % 2, tb))
    # runoff / stage ties that only appear after transfers: 3 ballots with weights up to 3
    k = 0
    for cands, bl in gen.profiles_exhaustive(3, 3, [F(1), F(2), F(3)]):
        k += 1
        if k % (9 if tier == "quick" else 2):
            continue
        for rule in ("TopTwo", "Alaska"):
            cs.append((rule, cands, bl, 2, ("random", "borda", "first_place")[k % 3]))
    # complete ballots, 3 of the 6 orders, weights 1..3: runoffs that are exact ties only after the third candidate's transfer
    for cands, bl in gen.profiles_exhaustive(3, 3, [F(1), F(2), F(3)], partial=False):
        k += 1
        cs.append(("TopTwo", cands, bl, 1, ("random", "borda", "first_place")[k % 3]))
    if tier == "thorough":
        rng = random.Random(seed)
        for cands, bl in gen.profiles_random(rng, 2500, ncands_range=(3, 5), nballots_range=(2, 5), weights=(1, 1, 2)):
            for rule in ("STV", "STV1", "SequentialRCV", "Alaska", "TopTwo", "Plurality", "Borda", "CondoBorda"):
                cs.append((rule, cands, bl, rng.randint(1, len(cands)), rng.choice(["borda", "random", "first_place"])))
    return cs


def make(rule, cands, bl, m, tb):
    import votekit.elections as E
    from votekit.ballot import Ballot
    from votekit.pref_profile import PreferenceProfile
    prof = gen.mk_profile(cands, bl)
    if rule == "STV":
        return E.STV(prof, m=m, tiebreak=tb)
    if rule == "STV1":
        return E.STV(prof, m=m, simultaneous=False, tiebreak=tb)
    if rule == "IRV":
        return E.IRV(prof, tiebreak=tb)
    if rule == "SequentialRCV":
        return E.SequentialRCV(prof, m=m, tiebreak=tb)
    if rule == "Alaska":
        return E.Alaska(prof, m_1=max(m, 2), m_2=min(m, 2), tiebreak=tb)
    if rule == "Approval":
        prof = PreferenceProfile(ballots=tuple(Ballot(scores={c: 1 for s in r for c in s}, weight=w) for r, w in bl), candidates=tuple(cands))
        return E.Approval(prof, m, tiebreak=tb if tb == "random" else "random")
    return build(rule, prof, m, tb)[0]


def outcome(e):
    return [(tuple(s.remaining), tuple(s.elected), tuple(s.eliminated), tuple(sorted((k, str(v)) for k, v in s.scores.items())))
            for s in e.election_states]


def check_tbset(case):
    import io
    import contextlib
    import itertools
    import votekit.utils as U
    _, cands, bl, m, tb = case
    Wd = oracle.W_of(bl)
    sc = oracle.fpv(cands, Wd) if tb == "first_place" else oracle.borda(cands, Wd)
    out = {"evals": 0, "key": ("tbset", tb, gen.canon(cands, bl)), "violations": [], "nontrivial": len(set(sc.values())) < len(sc)}
    desc = dict(gen.lit(cands, bl), check="tiebreak_set", tiebreak=tb)
    prof = gen.mk_profile(cands, bl)
    real = U.random.sample
    for tied in (frozenset(cands), frozenset(cands[:2]), frozenset(cands[1:])):
        for script in list(itertools.permutations(sorted(tied)))[:: (1 if len(tied) < 3 else 2)]:
            U.random.sample = lambda population, k, _s=script: [c for c in _s if c in set(population)][:k]
            try:
                with contextlib.redirect_stdout(io.StringIO()):
                    res = U.tiebreak_set(tied, prof, tb)
            except Exception as ex:
                out["violations"].append({"key": f"C10:tiebreak_set:{type(ex).__name__}", "what": repr(ex) + f" on {desc}", "input": desc})
                return out
            finally:
                U.random.sample = real
            out["evals"] += 1
            exp = sorted(tied, key=lambda c: (-sc[c], script.index(c)))
            got = [next(iter(g)) for g in res] if all(len(g) == 1 for g in res) else None
            if got != exp:
                out["violations"].append({"key": f"C10:tiebreak_set[{tb}]:order",
                                          "what": f"tiebreak_set({sorted(tied)}, profile, {tb!r}) with scripted draw {script} gave {res}, expected {exp} "
                                                  f"(exact tallies {({c: str(v) for c, v in sc.items()})}) on {desc}", "input": desc})
                return out
    if out["nontrivial"]:
        out["sample"] = desc
    return out


def check_case(case):
    import numpy as np
    if case[0] == "tbset":
        return check_tbset(case)
    rule, cands, bl, m, tb = case
    out = {"evals": 0, "key": (rule, m, tb, gen.canon(cands, bl)), "violations": [], "nontrivial": False}
    desc = dict(gen.lit(cands, bl), rule=rule, m=m, tiebreak=tb)
    Wd = oracle.W_of(bl)
    f0 = oracle.fpv(cands, Wd)
    out["nontrivial"] = len(set(f0.values())) < len(f0)

    def viol(key, what):
        out["violations"].append({"key": f"C10:{rule}:" + key, "what": what + f" on {desc}", "input": desc})
    runs = []
    rng_calls = [0]
    import votekit.utils as U
    real_sample = U.random.sample

    def counting_sample(population, k):
        rng_calls[0] += 1
        return real_sample(population, k)
    seeds = list(SEEDS)
    U.random.sample = counting_sample
    try:
        i = 0
        while i < len(seeds):
            sd = seeds[i]
            i += 1
            random.seed(sd)
            np.random.seed(sd)
            try:
                e = make(rule, cands, bl, m, tb)
            except Exception:
                return out  # C01/C20
            out["evals"] += 1
            runs.append(e)
            # a random draw was made but no round records a tiebreak: look harder for seed dependence (12 more streams)
            if i == len(SEEDS) and rng_calls[0] and not any(s.tiebreaks for r_ in runs for s in r_.election_states):
                seeds += list(range(11, 23))
    finally:
        U.random.sample = real_sample
    recorded = [any(s.tiebreaks for s in e.election_states) for e in runs]
    outs = [outcome(e) for e in runs]
    if not any(recorded) and any(o != outs[0] for o in outs):
        viol("unrecorded-randomness", f"outcome differs between seeds {seeds} although no round records a tiebreak: {outs[0]} vs {next(o for o in outs if o != outs[0])}")
    if any(recorded) != all(recorded) and False:
        pass
    if rule in ("STV", "STV1", "IRV", "SequentialRCV"):
        for e in runs[:1]:
            for r in range(1, len(e.election_states)):
                s_, prev = e.election_states[r], e.election_states[r - 1]
                elim = [c for g in s_.eliminated for c in g]
                if elim and prev.remaining and len(prev.remaining[-1]) > 1 and set(elim) <= set(prev.remaining[-1]) and not s_.tiebreaks:
                    viol("unrecorded-elimination-tie", f"round {r}: {elim} eliminated out of the tied lowest group {set(prev.remaining[-1])} but no tiebreak is recorded")
    for e in runs:
        init_f = f0
        init_b = oracle.borda(cands, Wd)
        for r, s in enumerate(e.election_states):
            if not s.tiebreaks:
                continue
            prev = e.election_states[r - 1] if r > 0 else None
            for tied, res in s.tiebreaks.items():
                if not oracle.is_linearisation(res, tied):
                    viol("resolution-not-strict-order", f"round {r}: {tied} -> {res}")
                    continue
                order = [next(iter(g)) for g in res]
                # (a) genuinely tied on the deciding tally: a position of the previous round's ranking (all share one tally)
                if prev is not None and prev.scores:
                    vals = {prev.scores.get(c) for c in tied}
                    if len(vals) != 1 and rule not in ("CondoBorda",):
                        viol("not-a-genuine-tie", f"round {r}: recorded tiebreak on {set(tied)} with differing tallies {[(c, str(prev.scores.get(c))) for c in tied]}")
                # (b) the decision depended on the order: the tied set must be split by this round's groups
                # (some members elected/eliminated/advancing and others not) or ordered within them
                status = {}
                for c in tied:
                    if any(c in g for g in s.elected):
                        status[c] = "E"
                    elif any(c in g for g in s.eliminated):
                        status[c] = "X"
                    else:
                        status[c] = "R"
                if len(set(status.values())) == 1 and len(tied) > 1:
                    # every member met the same fate in this round: no decision depended on their order
                    viol("decision-did-not-depend-on-order", f"round {r}: tiebreak on {set(tied)} recorded but all of its members are {next(iter(status.values()))} in this round")
                # (c) the round obeys the resolution
                pos = {c: i for i, c in enumerate(order)}
                rank = {"E": 0, "R": 1, "X": 2}
                for a in tied:
                    for b in tied:
                        if pos[a] < pos[b] and rank[status[a]] > rank[status[b]]:
                            viol("round-disobeys-resolution", f"round {r}: resolution {order} but {a} is {status[a]} and {b} is {status[b]}")
                # within a group the listed order follows the resolution where the round does not re-tally
                # (single-shot rules); STV-family rounds re-order `remaining` by the new tallies
                first_stage = rule in ("TopTwo", "Alaska") and r == 1  # the plurality stage does not re-order the finalists
                for grp in ((s.elected, s.remaining) if rule in ("Plurality", "SNTV", "Borda", "CondoBorda", "Approval") or first_stage else (s.elected,)):
                    seq = [c for g in grp if len(g) == 1 for c in g if c in tied]
                    if seq != sorted(seq, key=lambda c: pos[c]):
                        viol("round-disobeys-resolution", f"round {r}: order of {seq} in {grp} contradicts resolution {order}")
                # (d) score-based tiebreaks are ordered by that score of the profile they were given
                if rule in ("Plurality", "SNTV", "Borda") and tb in ("borda", "first_place"):
                    sc = init_b if tb == "borda" else init_f
                    vals = [sc[c] for c in order]
                    if any(vals[i] < vals[i + 1] for i in range(len(vals) - 1)):
                        viol("score-tiebreak-not-ordered", f"round {r}: {tb} resolution {order} has scores {[str(v) for v in vals]}")
        # resolution identical across seeds when the score separates everyone
    if tb in ("borda", "first_place") and rule in ("Plurality", "SNTV", "Borda"):
        sc = oracle.borda(cands, Wd) if tb == "borda" else f0
        if len(set(sc.values())) == len(sc) and any(o != outs[0] for o in outs):
            viol("random-fallback-without-tie", f"{tb} separates all candidates {sc} but outcomes differ between seeds")
    if out["nontrivial"] and not out["violations"]:
        out["sample"] = dict(desc, tiebreaks=[{str(set(k)): [sorted(g) for g in v] for k, v in s.tiebreaks.items()} for s in runs[0].election_states if s.tiebreaks][:2])
    return out


def run(tier="quick", seed=0):
    return common.run("bounded.C10", cases(tier, seed), bound="3 candidates x <=3 ballots x 4 seeds (quick); <=5 x 5 random (thorough)",
                      rule=RULE, budget_s=600 if tier == "quick" else 1500)

"""Bounded stand-in for C01: every rule, small-scope exhaustive profiles, all m: termination, exactly
the required number of winners, partition/monotone status at every round, ValueError exactly on an
unbroken boundary tie, no other exception."""
from __future__ import annotations
import itertools
import random
import traceback
from fractions import Fraction as F
from . import gen, oracle, common

RULE = ("every rule class x exhaustive small profiles (ranked rules: 3 candidates, <=2 distinct ballots (ties where the rule "
        "allows), weights {1,2,1/2}; + 3-ballot profiles for STV family via C02's cases; score rules: <=2 score ballots over 3 "
        "candidates with scores {0,1,2}) x every m x tiebreak {None, random, borda}; thorough adds 4 candidates and seeded random "
        "profiles; distinct = canonical (profile, rule, configuration); non-trivial = >=2 candidates with weight and >=2 ballots")

RANKED_TIES = ["Plurality", "SNTV", "Borda", "TopTwo", "RandomDictator", "BoostedRandomDictator", "PluralityVeto"]
RANKED_UNTIED = ["Alaska", "Alaska1", "DominatingSets", "CondoBorda"]
EPS = F(1, 10 ** 20)  # tallies this close are different numbers: no tie, no tiebreak, no ValueError
SCORE = ["Rating", "Limited", "Cumulative", "Approval", "BlocPlurality"]


def build(rule, prof, m, tb, extra=None):
    import votekit.elections as E
    if rule in ("Plurality", "SNTV"):
        return getattr(E, rule)(prof, m, tb), m
    if rule == "Borda":
        return E.Borda(prof, m, None, tb), m
    if rule == "TopTwo":
        return E.TopTwo(prof, tb), 1
    if rule in ("Alaska", "Alaska1"):
        m1, m2 = extra
        if rule == "Alaska1":  # one-by-one election in the STV stage
            return E.Alaska(prof, m1, m2, tiebreak=tb, simultaneous=False), m2
        return E.Alaska(prof, m1, m2, tiebreak=tb), m2
    if rule == "DominatingSets":
        return E.DominatingSets(prof), None
    if rule == "CondoBorda":
        return E.CondoBorda(prof, m), m
    if rule in ("RandomDictator", "BoostedRandomDictator"):
        return getattr(E, rule)(prof, m), m
    if rule == "PluralityVeto":
        return E.PluralityVeto(prof, m, tb), m
    if rule == "Rating":
        return E.Rating(prof, m, L=2, tiebreak=tb), m
    if rule == "Limited":
        return E.Limited(prof, m, k=extra or 1, tiebreak=tb), m
    if rule == "Cumulative":
        return E.Cumulative(prof, m, tiebreak=tb), m
    if rule == "Approval":
        return E.Approval(prof, m, tiebreak=tb), m
    if rule == "BlocPlurality":
        return E.BlocPlurality(prof, m, tiebreak=tb), m
    raise KeyError(rule)


def score_profiles(nc, nb, vals, weights):
    cands = gen.NAMES[:nc]
    dicts = []
    for combo in itertools.product(vals, repeat=nc):
        d = {c: F(v) for c, v in zip(cands, combo) if v != 0}
        if d:
            dicts.append(d)
    for ds in itertools.combinations(range(len(dicts)), nb):
        for ws in itertools.product(weights, repeat=nb):
            yield cands, [(dicts[i], F(w)) for i, w in zip(ds, ws)]


def cases(tier, seed):
    cs = []
    idx = [0]

    def rot(lst):
        idx[0] += 1
        return lst[idx[0] % len(lst)]
    for nb, ws in ((1, (1, 2)), (2, (1, 2, F(1, 2)))):
        # ties allowed
        for cands, bl in gen.profiles_exhaustive(3, nb, [F(w) for w in ws], ties=True):
            for rule in RANKED_TIES:
                if tier == "quick" and idx[0] % 3 and nb == 2:
                    idx[0] += 1
                    continue
                if rule == "PluralityVeto" and nb == 2 and idx[0] % 4:
                    idx[0] += 1
                    continue
                m = rot([1, 2, 3])
                tb = rot([None, "random", "borda", "first_place"])
                cs.append(("rank", rule, cands, bl, m, tb, None))
        for cands, bl in gen.profiles_exhaustive(3, nb, [F(w) for w in ws], ties=False):
            for rule in RANKED_UNTIED:
                m = rot([1, 2, 3])
                tb = rot([None, "random", "borda"])
                extra = rot([(1, 1), (2, 1), (2, 2), (3, 1), (3, 2), (3, 3)]) if rule in ("Alaska", "Alaska1") else None
                if rule == "Alaska1":
                    tb = rot(["borda", "first_place"])
                    extra = rot([(2, 2), (3, 2), (3, 3), (2, 1)])
                cs.append(("rank", rule, cands, bl, m, tb, extra))
    # tallies that differ by less than double precision (and by less than 10^-6): exact arithmetic sees no tie
    c3 = gen.NAMES[:3]
    one = lambda c: (frozenset([c]),)
    near = [[(one("A"), F(1)), (one("B"), 1 + EPS)], [(one("A") + one("B"), F(1)), (one("B") + one("C"), 1 + EPS), (one("C") + one("A"), 1 + 2 * EPS)],
            [(one("A"), F(1, 3)), (one("B"), F(1, 3) + EPS), (one("C"), F(1, 3) - EPS)]]
    first = []  # targeted families go first: a time-budget truncation under load must not drop them
    for bl in near:
        for rule in ("Plurality", "SNTV", "Borda", "TopTwo", "Alaska", "CondoBorda"):
            for m in (1, 2):
                for tb in (None, "random"):
                    first.append(("rank", rule, c3, bl, m, tb, (3, m) if rule == "Alaska" else None))
    for rule in SCORE:
        for m in (1, 2):
            for tb in (None, "random"):
                first.append(("score", rule, c3, [({"A": F(1)}, F(1)), ({"B": F(1)}, 1 + EPS), ({"C": F(1)}, 1 - EPS)], m, tb, 1 if rule == "Limited" else None))
    cs = first + [c for c in cs if c[1] == "Alaska1"] + [c for c in cs if c[1] != "Alaska1"]
    for nb in (1, 2):
        for cands, bl in score_profiles(3, nb, (0, 1, 2) if nb == 1 else (0, 1), (1, 2) if nb == 1 else (1, F(3, 2))):
            for rule in SCORE:
                m = rot([1, 2, 3])
                tb = rot([None, "random"])
                cs.append(("score", rule, cands, bl, m, tb, rot([1, 2]) if rule == "Limited" else None))
    if tier == "thorough":
        rng = random.Random(seed)
        for cands, bl in gen.profiles_random(rng, 3000, ties=True):
            for rule in RANKED_TIES:
                cs.append(("rank", rule, cands, bl, rng.randint(1, len(cands)), rng.choice([None, "random", "borda"]), None))
        for cands, bl in gen.profiles_random(rng, 3000, ties=False):
            for rule in RANKED_UNTIED:
                n = len(cands)
                m1 = rng.randint(1, n)
                cs.append(("rank", rule, cands, bl, rng.randint(1, n), rng.choice([None, "random"]), (m1, rng.randint(1, m1))))
    return cs


def boundary_tie(scores, m):
    vals = sorted(scores.values(), reverse=True)
    return 0 < m < len(vals) and vals[m - 1] == vals[m]


def expected_exception(kind, rule, cands, bl, m, tb, extra, ex):
    """True when the property prescribes/permits this exception for this input"""
    n = len(cands)
    if kind == "score":
        Wd = bl
        # validation errors (C05): limits
        tot = {c: sum((d.get(c, 0) * w for d, w in bl), F(0)) for c in cands}
        L = {"Rating": 2, "Limited": extra or 1, "Cumulative": m, "Approval": 1, "BlocPlurality": 1}[rule]
        k = {"Rating": None, "Limited": extra or 1, "Cumulative": m, "Approval": None, "BlocPlurality": m}[rule]
        viol = any(v > L for d, _ in bl for v in d.values()) or (k is not None and any(sum(d.values()) > k for d, _ in bl))
        if isinstance(ex, TypeError):
            return viol
        if isinstance(ex, ValueError):
            if rule == "Limited" and (extra or 1) > m:
                return True
            if m > n or m < 1:
                return True
            return (not viol) and tb is None and boundary_tie(tot, m)
        return False
    Wd = oracle.W_of(bl)
    if isinstance(ex, ValueError):
        msg = str(ex)
        if rule in ("Alaska", "Alaska1"):
            m1, m2 = extra
            if m1 > n:
                return True
            f = oracle.fpv(cands, Wd)
            if "breaking ties" in msg and tb is None:
                if boundary_tie(f, m1):
                    return True
                keep = [c for g in oracle.ranking_of(f) for c in g][:m1]
                W2 = oracle.scrub_W(Wd, set(cands) - set(keep))
                ref = oracle.ref_stv_explore(keep, W2, m2, "droop", True, "fractional", False)
                return False
            return "m must be" in msg and (m2 > len([c for c in cands]) or m2 > m1)
        if m > n and "m must be" in msg:
            return True
        if "breaking ties" in msg and tb is None:
            if rule in ("Plurality", "SNTV"):
                return boundary_tie(oracle.fpv(cands, Wd), m)
            if rule == "Borda":
                return boundary_tie(oracle.borda(cands, Wd), m)
            if rule == "TopTwo":
                f = oracle.fpv(cands, Wd)
                if boundary_tie(f, 2):
                    return True
                keep = [c for g in oracle.ranking_of(f) for c in g][:2]
                f2 = oracle.fpv(keep, oracle.scrub_W(Wd, set(cands) - set(keep)))
                return boundary_tie(f2, 1)
        return False
    if isinstance(ex, TypeError) and rule == "PluralityVeto":
        return any(w != int(w) for _, w in bl)
    if isinstance(ex, AttributeError) and rule == "PluralityVeto":
        return tb is None and any(len(s) > 1 for r, _ in bl for s in r)
    return False


def tags(kind, rule, cands, bl, m, tb, extra):
    t = []
    if kind == "rank":
        cast = {c for r, w in bl if w > 0 for s in r for c in s}
        if m > len(cast):
            t.append("m>candidates_cast")
        if len(cands) - 0 == 1:
            t.append("single-candidate")
        if any(len(s) > 1 for r, _ in bl for s in r):
            t.append("tied-ballots")
    return ",".join(t)


def check_case(case):
    kind, rule, cands, bl, m, tb, extra = case
    random.seed(hash(str(case)) & 0xFFFF)
    import numpy as np
    np.random.seed(hash(str(case)) & 0xFFFF)
    from votekit.ballot import Ballot
    from votekit.pref_profile import PreferenceProfile
    if kind == "score":
        prof = PreferenceProfile(ballots=tuple(Ballot(scores=d, weight=w) for d, w in bl), candidates=tuple(cands))
        key = (rule, m, tb, extra, tuple(sorted((tuple(sorted((c, str(v)) for c, v in d.items())), str(w)) for d, w in bl)))
        nontriv = len(bl) >= 2
        desc = {"rule": rule, "m": m, "tiebreak": tb, "extra": extra, "candidates": cands,
                "ballots": [[{c: str(v) for c, v in d.items()}, str(w)] for d, w in bl]}
    else:
        prof = gen.mk_profile(cands, bl)
        key = (rule, m, tb, extra, gen.canon(cands, bl))
        nontriv = gen.nontrivial(cands, bl)
        desc = dict(gen.lit(cands, bl), rule=rule, m=m, tiebreak=tb, extra=extra)
    out = {"evals": 1, "key": key, "nontrivial": nontriv, "violations": []}
    try:
        e, seats = build(rule, prof, m, tb, extra)
    except Exception as ex:  # noqa
        if not expected_exception(kind, rule, cands, bl, m, tb, extra, ex):
            tbk = traceback.extract_tb(ex.__traceback__)
            site = f"{tbk[-1].filename.split('/')[-1]}:{tbk[-1].name}" if tbk else "?"
            out["violations"].append({"key": f"C01:{rule}[{tags(kind, rule, cands, bl, m, tb, extra)}]:{type(ex).__name__}@{site}",
                                      "what": f"{rule}: {type(ex).__name__}: {ex} on {desc}", "input": desc})
        return out
    if kind == "score":
        tot = {c: sum((d.get(c, 0) * w for d, w in bl), F(0)) for c in cands}
        if tb is None and boundary_tie(tot, m):
            out["violations"].append({"key": f"C01:{rule}:no-ValueError-on-boundary-tie", "what": f"{rule} returned {e.get_elected()} despite an unbroken boundary tie on {desc}", "input": desc})
    elif rule in ("Plurality", "SNTV", "Borda") and tb is None:
        sc = oracle.fpv(cands, oracle.W_of(bl)) if rule != "Borda" else oracle.borda(cands, oracle.W_of(bl))
        if boundary_tie(sc, m):
            out["violations"].append({"key": f"C01:{rule}:no-ValueError-on-boundary-tie", "what": f"{rule} returned {e.get_elected()} despite an unbroken boundary tie on {desc}", "input": desc})
    if rule == "DominatingSets":
        probs = oracle.audit_outcome(e, cands, None, exact=False)
        from .C06 import margins, smith_tiers
        top = smith_tiers(cands, margins(cands, oracle.W_of(bl)))[0]
        if [set(s) for s in e.get_elected()] != [top]:
            probs.append(f"final: DominatingSets elected {e.get_elected()}, the top dominating tier is {top}")
    else:
        probs = oracle.audit_outcome(e, cands, seats)
    for p in probs[:2]:
        out["violations"].append({"key": f"C01:{rule}[{tags(kind, rule, cands, bl, m, tb, extra)}]:" + p.split(":")[0][:40] + ":" + p.split(":")[1][:50] if ":" in p else p[:60],
                                  "what": p + f" on {desc}", "input": desc})
    if len(out["violations"]) == 0 and len(e.election_states) >= 2 and nontriv:
        out["sample"] = {"input": desc, "elected": [sorted(s) for s in e.get_elected()]}
    return out


def run(tier="quick", seed=0):
    cs = cases(tier, seed)
    r = common.run("bounded.C01", cs, bound="3 candidates x <=2 ballots x all m (quick); <=5 candidates x 6 ballots random (thorough)",
                   rule=RULE, budget_s=400 if tier == "quick" else 1800)
    # STV / IRV / SequentialRCV: the C02 cases, keeping the exception / outcome findings (keys C01:...)
    from . import C02
    r2 = C02.run(tier, seed, only_prefix="C01:", subsample=3 if tier == "quick" else 1)
    r["evaluations"] += r2["evaluations"]
    r["distinct_nontrivial"] += r2["distinct_nontrivial"]
    r["cases"] += r2["cases"]
    r["violations"] += r2["violations"]
    r["exhaustive"] = r["exhaustive"] and r2["exhaustive"]
    r["bounded_wall_s"] += r2["bounded_wall_s"]
    return r

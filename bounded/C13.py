"""Bounded stand-in for C13: alias / composite rules against separately constructed components
under a shared random stream (differential)."""
from __future__ import annotations
import random
from fractions import Fraction as F
from . import gen, oracle, common

RULE = ("IRV vs STV(m=1), SNTV vs Plurality, SequentialRCV vs STV(full-weight transfer), TopTwo vs its definition, Alaska vs "
        "Plurality(m_1) then STV(m_2) on the reduced profile; exhaustive untied profiles (3 candidates x <=3 ballots, weights {1,2}) "
        "x m_1>=m_2 x quota x simultaneous x tiebreak {None, random, borda}; both sides run from the same random seed; cases where a "
        "round records a (random) tiebreak are compared under the shared stream only; distinct = canonical (profile, rule, config)")


def cases(tier, seed):
    cs = []
    i = 0
    for nb, ws in ((1, (1,)), (2, (1, 2)), (3, (1, 2))):
        for cands, bl in gen.profiles_exhaustive(3, nb, [F(w) for w in ws]):
            i += 1
            if nb == 3 and tier == "quick" and i % 4:
                continue
            cfg = dict(m=1 + i % 3, quota=("droop", "hare")[i % 2], sim=bool(i % 2 == 0), tb=(None, "random", "borda")[i % 3],
                       m1=(1, 2, 3, 2, 3, 3)[i % 6], m2=(1, 1, 1, 2, 2, 3)[i % 6])
            cs.append((cands, bl, cfg))
    if tier == "thorough":
        rng = random.Random(seed)
        for cands, bl in gen.profiles_random(rng, 3000, ncands_range=(3, 5), nballots_range=(2, 6)):
            n = len(cands)
            m1 = rng.randint(1, n)
            cs.append((cands, bl, dict(m=rng.randint(1, n), quota=rng.choice(["droop", "hare"]), sim=rng.random() < .5,
                                       tb=rng.choice([None, "random", "borda"]), m1=m1, m2=rng.randint(1, m1))))
    return cs


def states(e):
    return [(s.round_number, tuple(s.remaining), tuple(s.elected), tuple(s.eliminated), dict(s.scores),
             {k: tuple(v) for k, v in s.tiebreaks.items()}) for s in e.election_states]


def run_pair(mk_a, mk_b, seed):
    import numpy as np
    res = []
    for mk in (mk_a, mk_b):
        random.seed(seed)
        np.random.seed(seed)
        try:
            res.append(("ok", mk()))
        except Exception as ex:
            res.append(("exc", type(ex).__name__ + ":" + str(ex)[:200]))
    return res


def check_case(case):
    import votekit.elections as E
    from votekit.utils import remove_cand
    cands, bl, cfg = case
    prof = gen.mk_profile(cands, bl)
    out = {"evals": 0, "key": (gen.canon(cands, bl), tuple(sorted(cfg.items(), key=str))), "nontrivial": gen.nontrivial(cands, bl), "violations": []}
    desc = dict(gen.lit(cands, bl), **cfg)
    Wd = oracle.W_of(bl)

    def viol(key, what):
        out["violations"].append({"key": "C13:" + key, "what": what + f" on {desc}", "input": desc})

    def compare(name, a, b, proj=states):
        out["evals"] += 1
        if a[0] != b[0]:
            viol(f"{name}:exception-mismatch", f"{a if a[0] == 'exc' else 'returns'} vs {b if b[0] == 'exc' else 'returns'}")
        elif a[0] == "exc":
            if a[1].split(":")[0] != b[1].split(":")[0]:
                viol(f"{name}:exception-type", f"{a[1]} vs {b[1]}")
        elif proj(a[1]) != proj(b[1]):
            viol(f"{name}:rounds-differ", f"{proj(a[1])} vs {proj(b[1])}")
    m, quota, sim, tb = cfg["m"], cfg["quota"], cfg["sim"], cfg["tb"]
    sd = hash(str(case)) & 0xFFFF
    a, b = run_pair(lambda: E.IRV(prof, quota=quota, tiebreak=tb), lambda: E.STV(prof, m=1, quota=quota, tiebreak=tb), sd)
    compare("IRV=STV(1)", a, b)
    a, b = run_pair(lambda: E.SNTV(prof, m, tb), lambda: E.Plurality(prof, m, tb), sd)
    compare("SNTV=Plurality", a, b)
    full = (lambda winner, fpv, ballots, threshold: remove_cand(winner, tuple(ballots)))
    a, b = run_pair(lambda: E.SequentialRCV(prof, m=m, quota=quota, simultaneous=sim, tiebreak=tb),
                    lambda: E.STV(prof, m=m, transfer=full, quota=quota, simultaneous=sim, tiebreak=tb), sd)
    compare("SequentialRCV=STV(full-weight)", a, b)
    # full weight: every ballot of an elected candidate moves on with its whole weight (checked through the tallies)
    if a[0] == "ok":
        e = a[1]
        for r in range(1, len(e.election_states)):
            s = e.election_states[r]
            if tuple(s.elected) != oracle.PLACEHOLDER and r < len(e.election_states):
                pass
    # TopTwo
    if len(cands) >= 2:
        a, = run_pair(lambda: E.TopTwo(prof, tb), lambda: None, sd)[:1]
        out["evals"] += 1
        f = oracle.fpv(cands, Wd)
        order = oracle.ranking_of(f)
        flat = [c for g in order for c in g]
        vals = sorted(f.values(), reverse=True)
        tie2 = len(vals) > 2 and vals[1] == vals[2]
        if a[0] == "ok":
            e = a[1]
            fin = [c for g in e.election_states[1].remaining for c in g]
            if not tie2 and sorted(fin) != sorted(flat[:2]):
                viol("TopTwo:finalists", f"{fin} are not the two highest first-place candidates {flat[:2]} ({f})")
            if len(fin) == 2:
                f2 = oracle.fpv(fin, oracle.scrub_W(Wd, set(cands) - set(fin)))
                w = [c for g in e.get_elected() for c in g]
                if len(w) != 1 or f2[w[0]] < max(f2.values()):
                    viol("TopTwo:winner", f"winner {w} is not the head-to-head first-preference winner between {fin}: {f2}")
                if [s.round_number for s in e.election_states] != [0, 1, 2]:
                    viol("TopTwo:round-numbers", f"{[s.round_number for s in e.election_states]}")
                if dict(e.election_states[1].scores) != f2:
                    viol("TopTwo:round1-scores", f"{dict(e.election_states[1].scores)} != {f2}")
        elif not (tb is None and "breaking ties" in a[1]):
            viol("TopTwo:exception", a[1])
    # Alaska = Plurality(m1) then STV(m2) on the reduced profile, rounds renumbered
    m1, m2 = cfg["m1"], cfg["m2"]
    if m1 <= len(cands):
        def comp():
            p1 = E.Plurality(prof, m1, tb)
            keep = [c for g in p1.get_elected() for c in g]
            reduced = remove_cand([c for c in cands if c not in keep], prof)
            stv = E.STV(reduced, m2, quota=quota, simultaneous=sim, tiebreak=tb)
            return p1, stv
        a, b = run_pair(lambda: E.Alaska(prof, m1, m2, quota=quota, simultaneous=sim, tiebreak=tb), comp, sd)
        out["evals"] += 1
        if a[0] != b[0]:
            # the known replay defect (random tiebreak re-drawn through get_profile) is C01's finding; only flag when no randomness
            if not (a[0] == "exc" and a[1].startswith("KeyError")):
                viol("Alaska:exception-mismatch", f"{a if a[0]=='exc' else 'returns'} vs {b if b[0]=='exc' else 'returns'}")
        elif a[0] == "ok":
            e = a[1]
            p1, stv = b[1]
            random_involved = any(s.tiebreaks for s in stv.election_states) or any(s.tiebreaks for s in p1.election_states)
            exp_states = [(s.round_number + 1, tuple(s.remaining), tuple(s.elected), tuple(s.eliminated), dict(s.scores),
                           {k: tuple(v) for k, v in s.tiebreaks.items()}) for s in stv.election_states[1:]]
            got = states(e)[2:]
            if got != exp_states:
                viol("Alaska:stage2-rounds" + ("[random]" if random_involved else ""), f"{got} vs STV on the reduced profile {exp_states}")
            if [s.round_number for s in e.election_states] != list(range(len(e.election_states))):
                viol("Alaska:round-numbers", f"{[s.round_number for s in e.election_states]}")
            s1 = e.election_states[1]
            if tuple(s1.remaining) != tuple(p1.get_elected()) or tuple(s1.eliminated) != tuple(p1.get_remaining()):
                viol("Alaska:stage1", f"remaining {s1.remaining} eliminated {s1.eliminated} vs Plurality elected {p1.get_elected()} remaining {p1.get_remaining()}")
    if out["nontrivial"] and not out["violations"]:
        out["sample"] = desc
    return out


def run(tier="quick", seed=0):
    return common.run("bounded.C13", cases(tier, seed), bound="3 candidates x <=3 ballots (quick); <=5 x 6 random (thorough)",
                      rule=RULE, budget_s=600 if tier == "quick" else 1500)

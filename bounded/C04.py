"""Bounded stand-in for C04: positional scores of the real utilities against the exact definition
(tie averaging, unlisted candidates, zero padding), and Plurality/SNTV/Borda winners."""
from __future__ import annotations
import itertools
import random
from fractions import Fraction as F
from . import gen, oracle, common

VECTORS3 = [(1 + F(1, 10 ** 6), 1, 0), (F(1, 3000017), 0), (1,), (1, 0, 0), (3, 2, 1), (2, 1), (1, 1, 1), (F(1, 2), F(1, 3)), (5, 3, 1, 1, 0), (2.5, 1.5, 0.5), (1, 1), (4, 1, 1)]
RULE = ("all profiles of <=2 distinct ballots (tied positions of any size, partial) over 3 candidates x weights {1,2,1/2} "
        "(thorough: 4 candidates, 3 ballots, weights {1,3,2/3}) x 10 score vectors (shorter/equal/longer than the candidate list, "
        "int/Fraction/float entries) + first_place_votes/borda_scores/mentions + Plurality/SNTV/Borda for every m; "
        "distinct = canonical profile x vector; non-trivial = >=2 candidates with weight, >=2 ballots")


def cases(tier, seed):
    cs = []
    for nb, ws in ((1, (1, 2)), (2, (1, 2, F(1, 2)))):
        for cands, bl in gen.profiles_exhaustive(3, nb, [F(w) for w in ws], ties=True):
            cs.append((cands, bl))
    # tallies that differ exactly but coincide as IEEE doubles (2^53 vs 2^53+1; 1/3 vs 1/3 + 10^-18), both candidate labelings
    A, B, C = (frozenset(x) for x in "ABC")
    for x, y in ((F(2 ** 53), F(2 ** 53 + 1)), (F(1, 3), F(1, 3) + F(1, 10 ** 18)), (F(10 ** 17), F(10 ** 17) + F(1, 2))):
        for p, q in (("A", "B"), ("B", "A"), ("C", "A"), ("A", "C")):
            cs.append((gen.NAMES[:3], [((frozenset(p),), x), ((frozenset(q),), y)]))
    if tier == "thorough":
        rng = random.Random(seed)
        for cands, bl in gen.profiles_random(rng, 6000, ncands_range=(2, 5), ties=True, weights=(1, 2, 3, F(2, 3), F(1, 7))):
            cs.append((cands, bl))
    return cs


def vectors_for(n):
    out = list(VECTORS3)
    if n > 3:
        out += [tuple(range(n, 0, -1)), (1,) + (0,) * (n - 1), (F(7, 3), F(1, 3))]
    return out


def check_case(case):
    import votekit.utils as U
    from votekit.elections import Plurality, SNTV, Borda
    cands, bl = case
    prof = gen.mk_profile(cands, bl)
    Wd = oracle.W_of(bl)
    n = len(cands)
    out = {"evals": 0, "key": gen.canon(cands, bl), "nontrivial": gen.nontrivial(cands, bl), "violations": []}
    desc = gen.lit(cands, bl)
    tot = oracle.total(Wd)

    def viol(key, what, extra=None):
        out["violations"].append({"key": "C04:" + key, "what": what + f" on {dict(desc, **(extra or {}))}", "input": dict(desc, **(extra or {}))})
    for v in vectors_for(n):
        out["evals"] += 1
        try:
            got = U.score_profile_from_rankings(prof, list(v))
        except Exception as ex:
            viol(f"score_profile_from_rankings:{type(ex).__name__}", repr(ex), {"vector": [str(x) for x in v]})
            continue
        exp = oracle.pos_scores(cands, Wd, [F(x) for x in v])
        if dict(got) != exp:
            shape = "three-way-average" if any(len(s) == 3 for r, _ in bl for s in r) or any(n - sum(len(s) for s in r) == 3 for r, _ in bl) else "other"
            viol(f"score_profile_from_rankings:value[{shape}]", f"scores {dict(got)} != exact definition {exp}", {"vector": [str(x) for x in v]})
        elif any(not isinstance(x, F) for x in got.values()):
            viol("score_profile_from_rankings:type", f"non-Fraction score in {got}", {"vector": [str(x) for x in v]})
        padded = [F(x) for x in v] + [F(0)] * max(0, n - len(v))
        if sum(got.values(), F(0)) != tot * sum(padded[:n], F(0)) and dict(got) == exp:
            viol("score_profile_from_rankings:ballot-total", "points handed out do not sum to weight x vector total", {"vector": [str(x) for x in v]})
    for name, fn, ref in (("first_place_votes", U.first_place_votes, oracle.fpv), ("borda_scores", U.borda_scores, oracle.borda),
                          ("mentions", U.mentions, oracle.mentions)):
        out["evals"] += 1
        try:
            got = dict(fn(prof))
        except Exception as ex:
            viol(f"{name}:{type(ex).__name__}", repr(ex))
            continue
        exp = ref(cands, Wd)
        if got != exp:
            shape = "three-way-average" if any(len(s) == 3 for r, _ in bl for s in r) or any(n - sum(len(s) for s in r) == 3 for r, _ in bl) else "other"
            viol(f"{name}:value[{shape}]", f"{name} {got} != {exp}")
    # elections
    for cls, ref in ((Plurality, oracle.fpv), (SNTV, oracle.fpv), (Borda, oracle.borda)):
        sc = ref(cands, Wd)
        for m in range(1, n + 1):
            out["evals"] += 1
            for tb in (None, "random"):
                try:
                    e = cls(prof, m, tiebreak=tb) if cls is not Borda else cls(prof, m, None, tb)
                except ValueError as ex:
                    vals = sorted(sc.values(), reverse=True)
                    if not (tb is None and m < n and vals[m - 1] == vals[m]):
                        viol(f"{cls.__name__}:unexpected-ValueError", f"m={m} tiebreak={tb}: {ex}")
                    continue
                except Exception as ex:
                    viol(f"{cls.__name__}:{type(ex).__name__}", f"m={m} tiebreak={tb}: {ex!r}")
                    continue
                el = e.get_elected()
                elc = [c for s in el for c in s]
                rest = [c for c in cands if c not in elc]
                if len(elc) != m:
                    viol(f"{cls.__name__}:seat-count", f"m={m}: elected {el}")
                if elc and rest and min(sc[c] for c in elc) < max(sc[c] for c in rest):
                    viol(f"{cls.__name__}:lower-score-elected", f"m={m} tiebreak={tb}: elected {el} with scores {sc}")
                flat = [sc[next(iter(s))] for s in el]
                if any(flat[i] < flat[i + 1] for i in range(len(flat) - 1)):
                    viol(f"{cls.__name__}:order", f"m={m}: elected {el} not in descending score order {sc}")
                if any(len({sc[c] for c in s}) > 1 for s in el):
                    viol(f"{cls.__name__}:tied-group-unequal", f"m={m}: {el} {sc}")
                if dict(e.election_states[0].scores) != sc:
                    viol(f"{cls.__name__}:round0-scores", f"{dict(e.election_states[0].scores)} != {sc}")
                if tuple(e.election_states[0].remaining) != oracle.ranking_of(sc):
                    viol(f"{cls.__name__}:round0-ranking", f"{e.election_states[0].remaining} != {oracle.ranking_of(sc)}")
    if out["nontrivial"] and not out["violations"]:
        out["sample"] = desc
    return out


def run(tier="quick", seed=0):
    return common.run("bounded.C04", cases(tier, seed), bound="3 candidates x <=2 ballots with ties (quick); <=5 x 6 random (thorough)",
                      rule=RULE, budget_s=600 if tier == "quick" else 1200)

"""Bounded stand-in for C03: the two transfer functions are called directly on exhaustive small ballot
lists (duplicates, exhausted ballots, ballots not led by the winner) and audited per content; the
random rule is audited for every draw through a scripted random.sample (choice-tree exploration)."""
from __future__ import annotations
import itertools
import random
from fractions import Fraction as F
from . import gen, oracle, common

RULE = ("fractional_transfer / random_transfer called on all lists of <=3 ballots over 3 candidates (untied partial rankings, "
        "duplicates allowed, weights {1,2,1/2} fractional / {1,2} random) x winner A x tally in {led weight, led weight + 1} x "
        "threshold 1..tally; random rule: every draw of random.sample enumerated (<= 20 leaves) ; distinct = (ballot list sorted, tally, "
        "threshold); non-trivial = >=2 distinct rankings and a positive surplus")


def cases(tier, seed):
    cands = gen.NAMES[:3]
    rk = gen.rankings(cands)
    cs = []
    ws_f = [F(1), F(2), F(1, 2)]
    for nb in (1, 2, 3):
        for rs in itertools.combinations_with_replacement(rk, nb):
            if nb == 3 and tier == "quick" and hash(rs) % 4:
                continue
            for ws in itertools.product(ws_f if nb < 3 else [F(1), F(2)], repeat=nb):
                cs.append(("fractional", rs, ws))
            for ws in itertools.product([F(1), F(2)], repeat=nb):
                cs.append(("random", rs, ws))
    # large / awkward rational weights: transfer values with denominators far above 10^3 and 10^6
    big = [F(1511), F(997, 3), F(1234577, 2), F(7919)]
    for i, rs in enumerate(itertools.combinations_with_replacement(rk, 2)):
        cs.append(("fractional-big", rs, (big[i % 4], big[(i + 1) % 4])))
    if tier == "thorough":
        rng = random.Random(seed)
        rk4 = gen.rankings(gen.NAMES[:4])
        for _ in range(3000):
            nb = rng.randint(2, 5)
            rs = tuple(rng.choice(rk4) for _ in range(nb))
            cs.append(("fractional", rs, tuple(F(rng.choice([1, 2, 3, F(1, 2), F(2, 3), F(5, 7)])) for _ in range(nb))))
            cs.append(("random", rs, tuple(F(rng.choice([1, 2, 3])) for _ in range(nb))))
    return cs


def expected_fractional(bl, winner, tally, T):
    d = {}
    for r, w in bl:
        w2 = w * (tally - T) / tally if r[0] == frozenset([winner]) else w
        k = oracle.scrub(r, {winner})
        if k and w2 > 0:
            d[k] = d.get(k, F(0)) + w2
    return d


def check_case(case):
    from votekit.ballot import Ballot
    from votekit.elections import fractional_transfer, random_transfer
    import votekit.elections.transfers as TR
    kind, rs, ws = case
    bl = list(zip(rs, ws))
    winner = "A"
    led = sum((w for r, w in bl if r[0] == frozenset([winner])), F(0))
    out = {"evals": 0, "key": (kind, tuple(sorted((str(r), str(w)) for r, w in bl))), "violations": [],
           "nontrivial": len(set(rs)) >= 2 and led > 1}
    desc0 = {"ballots": [[[sorted(s) for s in r], str(w)] for r, w in bl], "winner": winner}
    tallies = [t for t in {led, led + 1} if t >= 1]
    if kind == "fractional-big":
        kind = "fractional"
        tallies = [led] if led >= 1 else []
    for tally in tallies:
        if kind == "random" and tally != int(tally):
            continue
        Ts = range(1, int(tally) + 1) if tally <= 8 else sorted({1, 2, int(tally) // 2, int(tally) // 3 + 1, int(tally) - 1, int(tally)})
        for T in Ts:
            ballots = tuple(Ballot(ranking=r, weight=w) for r, w in bl)
            desc = dict(desc0, tally=str(tally), threshold=T, rule=kind)
            out["evals"] += 1
            if kind == "fractional":
                try:
                    res = fractional_transfer(winner, F(tally), ballots, T)
                except Exception as ex:
                    out["violations"].append({"key": f"C03:fractional_transfer:{type(ex).__name__}", "what": f"{ex!r} on {desc}", "input": desc})
                    continue
                got = oracle.W_of((b.ranking, b.weight) for b in res)
                exp = expected_fractional(bl, winner, F(tally), T)
                if got != exp:
                    out["violations"].append({"key": "C03:fractional_transfer:per-content-weight",
                                              "what": f"fractional_transfer returned {got}, expected {exp} on {desc}", "input": desc})
                if len({b.ranking for b in res}) != len(res):
                    out["violations"].append({"key": "C03:fractional_transfer:not-condensed", "what": f"duplicate rankings in result on {desc}", "input": desc})
                if any(winner in s for b in res for s in b.ranking):
                    out["violations"].append({"key": "C03:fractional_transfer:winner-present", "what": f"winner still on a ballot on {desc}", "input": desc})
            else:
                # enumerate every draw of random.sample
                pool = {}
                base = {}
                for r, w in bl:
                    k = oracle.scrub(r, {winner})
                    if r[0] == frozenset([winner]):
                        if k:
                            pool[k] = pool.get(k, 0) + int(w)
                    elif k:
                        base[k] = base.get(k, F(0)) + w
                want = int(tally) - T
                leaves = []

                def scripted(population, k):
                    leaves.append((list(population), k))
                    raise _Stop()
                real = TR.random.sample
                TR.random.sample = scripted
                try:
                    try:
                        random_transfer(winner, F(tally), ballots, T)
                    except _Stop:
                        pass
                    except Exception as ex:
                        out["violations"].append({"key": f"C03:random_transfer:{type(ex).__name__}-before-draw", "what": f"{ex!r} on {desc}", "input": desc})
                        continue
                finally:
                    TR.random.sample = real
                if not leaves:
                    out["violations"].append({"key": "C03:random_transfer:no-draw", "what": f"random.sample not called on {desc}", "input": desc})
                    continue
                population, k = leaves[0]
                popW = oracle.W_of((b.ranking, 1) for b in population)
                n_units = sum(int(w) for r, w in bl if r[0] == frozenset([winner]))
                n_transferable = sum(pool.values())
                if k != want:
                    out["violations"].append({"key": "C03:random_transfer:sample-size", "what": f"draws {k} ballots, surplus is {want} on {desc}", "input": desc})
                # the population must give every transferable unit ballot of the winner one equally likely entry
                if {kk: int(v) for kk, v in popW.items() if kk} != pool or any(b.weight != 1 for b in population):
                    out["violations"].append({"key": "C03:random_transfer:population",
                                              "what": f"sampling population {popW} is not the winner's transferable ballots as unit ballots {pool} on {desc}", "input": desc})
                if len(population) != n_units:
                    out["violations"].append({"key": "C03:random_transfer:population-size",
                                              "what": f"the draw is made from {len(population)} entries but the winner has {n_units} unit ballots (every ballot of the winner, and nothing else, takes part in the draw) on {desc}", "input": desc})
                if k > len(population) or k < 0:
                    cls = "exhausted-winner-ballots" if len(population) < n_units else "other"
                    out["violations"].append({"key": f"C03:random_transfer:sample-larger-than-population[{cls}]",
                                              "what": f"random.sample(population of {len(population)}, {k}) raises ValueError on {desc}", "input": desc})
                    continue
                # every draw (up to 30 index subsets): result = base + drawn
                idxs = list(itertools.combinations(range(len(population)), k))[:30]
                for ix in idxs:
                    TR.random.sample = lambda population, kk, ix=ix: [population[i] for i in ix]
                    try:
                        res = random_transfer(winner, F(tally), ballots, T)
                    except Exception as ex:
                        out["violations"].append({"key": f"C03:random_transfer:{type(ex).__name__}", "what": f"{ex!r} on {desc}", "input": desc})
                        break
                    finally:
                        TR.random.sample = real
                    out["evals"] += 1
                    got = oracle.W_of((b.ranking, b.weight) for b in res)
                    exp = dict(base)
                    for i in ix:
                        kk = population[i].ranking
                        if kk:
                            exp[kk] = exp.get(kk, F(0)) + 1
                    if got != exp:
                        out["violations"].append({"key": "C03:random_transfer:result", "what": f"draw {ix}: got {got}, expected {exp} on {desc}", "input": desc})
                        break
    if out["nontrivial"] and not out["violations"]:
        out["sample"] = desc0
    return out


class _Stop(Exception):
    pass


def run(tier="quick", seed=0):
    r = common.run("bounded.C03", cases(tier, seed), bound="<=3 ballots x 3 candidates, tally<=7 (quick); <=5 ballots x 4 candidates random (thorough)",
                   rule=RULE, budget_s=600 if tier == "quick" else 1200)
    # conservation across whole STV counts: the round-by-round audit of C02 (tallies of every round are recomputed from
    # the ballots the documented step produces, so created / lost weight shows as a tally mismatch)
    from . import C02
    r2 = C02.run(tier, seed, only_prefix="C02:", subsample=2 if tier == "quick" else 1)
    for k in ("evaluations", "distinct_nontrivial", "cases", "bounded_wall_s"):
        r[k] += r2[k]
    r["exhaustive"] = r["exhaustive"] and r2["exhaustive"]
    for v in r2["violations"]:
        r["violations"].append(dict(v, key="C03:stv-run:" + v["key"]))
    return r

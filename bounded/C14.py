"""Bounded stand-in for C14: generators return well-formed profiles of exactly the requested size."""
from __future__ import annotations
import random
from fractions import Fraction as F
from . import common, gens, oracle

RULE = ("16 generator entry points x parameter grid (1-2 blocs, slate sizes 1-3, bloc proportions, cohesion incl. 0 and 1, supports incl. "
        "zero-support candidates) x N in {1,2,3,4,7,10} x 2 seeds of random/numpy; each returned profile is audited structurally; per-bloc "
        "profiles are summed and bloc (and bloc/crossover) sizes compared with an independent Huntington-Hill computation; distinct = "
        "(generator, parameter set, N); non-trivial = N >= 2 and >= 2 candidates")

COMPLETE = {"ImpartialCulture", "ImpartialAnonymousCulture", "BallotSimplex.from_point", "name_PlackettLuce", "name_BradleyTerry",
            "name_BradleyTerry.MCMC", "slate_PlackettLuce", "slate_BradleyTerry", "slate_BradleyTerry.MCMC", "AlternatingCrossover",
            "OneDimSpatial", "Spatial", "ClusteredSpatial"}
BY_BLOC = {"name_PlackettLuce", "short_name_PlackettLuce", "name_BradleyTerry", "name_BradleyTerry.MCMC", "slate_PlackettLuce",
           "slate_BradleyTerry", "slate_BradleyTerry.MCMC", "AlternatingCrossover", "CambridgeSampler", "name_Cumulative"}


def cases(tier, seed):
    cs = []
    pss = gens.param_sets(tier, seed)
    Ns = (1, 2, 3, 4, 7, 10, 14, 45)  # small sizes give blocs without ballots; 10, 14, 45 separate joint from nested apportionment
    i = 0
    for pi, ps in enumerate(pss):
        for name in gens.GEN_NAMES:
            if not gens.applicable(name, ps):
                continue
            ncand = sum(len(v) for v in ps["s2c"].values())
            for N in Ns:
                i += 1
                if tier == "quick" and i % 3 and not (N in (1, 14, 45) and i % 2):
                    continue
                extra = None
                if name == "short_name_PlackettLuce":
                    extra = 1 + (i % ncand)
                if name == "name_Cumulative":
                    extra = 1 + (i % 4)
                if name in ("Spatial", "ClusteredSpatial") and N == 3:
                    extra = "defaults"
                cs.append((name, pi, N, extra, i % 2))
    return cs


_PS = {}


def check_case(case):
    import numpy as np
    name, pi, N, extra, sd = case
    tier_seed = (common.os.environ.get("VERIF_TIER", "quick"), int(common.os.environ.get("VERIF_SEED", "0") or 0))
    if tier_seed not in _PS:
        _PS[tier_seed] = gens.param_sets(*tier_seed)
    ps = _PS[tier_seed][pi]
    random.seed(1000 * sd + pi)
    np.random.seed(1000 * sd + pi)
    cands = [c for b in ps["blocs"] for c in ps["s2c"][b]]
    if name in ("ImpartialCulture", "ImpartialAnonymousCulture", "BallotSimplex.from_point"):
        cands = cands[:4]
    out = {"evals": 1, "key": (name, pi, N, extra), "nontrivial": N >= 2 and len(cands) >= 2, "violations": []}
    desc = {"generator": name, "N": N, "extra": extra, "params": {k: ps[k] for k in ("s2c", "props", "coh", "sup")}}

    def viol(key, what):
        out["violations"].append({"key": f"C14:{name}:" + key, "what": what + f" on {desc}", "input": desc})
    zero_tag = ""
    try:
        gen = gens.build(name, ps, extra)
        res = gens.generate(name, gen, N, by_bloc=name in BY_BLOC)
    except Exception as ex:
        import traceback
        tbk = traceback.extract_tb(ex.__traceback__)
        site = f"{tbk[-1].filename.split('/')[-1]}:{tbk[-1].name}" if tbk else "?"
        cohs = [ps["coh"][b][b] for b in ps["blocs"]]
        tag = "cohesion-0-or-1" if any(c in (0.0, 1.0) for c in cohs) and len(cohs) > 1 else "interior"
        nz = [sum(1 for v in ps["sup"][b][s].values() if v > 0) for b in ps["blocs"] for s in ps["blocs"]]
        if min(nz) <= 1 and sum(len(v) for v in ps["s2c"].values()) <= 2 or max(
                sum(sum(1 for v in ps["sup"][b][s].values() if v > 0) for s in ps["blocs"]) for b in ps["blocs"]) <= 1 or (
                "MCMC" in name and min(sum(sum(1 for v in ps["sup"][b][s].values() if v > 0) for s in ps["blocs"]) for b in ps["blocs"]) <= 1):
            tag += ",single-supported-candidate"
        if extra == "defaults":
            tag += ",default-kwargs"
        viol(f"{type(ex).__name__}@{site}[{tag}]", f"{ex!r}")
        return out
    by = None
    if name in BY_BLOC:
        by, prof = res
    elif isinstance(res, tuple):
        prof = res[0]
    else:
        prof = res
    # --- aggregate profile
    tot = prof.total_ballot_wt
    if tot != N:
        viol("total-weight", f"total weight {tot} != N={N}")
    for b in prof.ballots:
        if b.weight <= 0 or b.weight != int(b.weight):
            viol("weight-not-positive-integer", f"{b.weight}")
        if name == "name_Cumulative":
            sc = b.scores or {}
            if sum(sc.values()) != extra:
                viol("cumulative-points", f"scores {dict(sc)} do not sum to {extra}")
            if not set(sc) <= set(cands):
                viol("undeclared-candidate", f"{set(sc)}")
            sup_cands = set()
            continue
        r = b.ranking or ()
        listed = [str(c) for s in r for c in s]
        if len(listed) != len(set(listed)):
            viol("candidate-twice", f"{r}")
        if not set(listed) <= set(cands):
            viol("undeclared-candidate", f"{r}")
        if name in COMPLETE and set(listed) != set(cands):
            slates_unequal = len({len(v) for v in ps["s2c"].values()}) > 1
            viol("incomplete-ranking" + ("[unequal-slates]" if slates_unequal and name == "AlternatingCrossover" else ""), f"{r} does not list all of {cands}")
        if any(len(s) > 1 for s in r[:-1]):
            viol("tie-before-last-position", f"{r}")
        if name == "short_name_PlackettLuce" and len(listed) != extra:
            viol("short-ballot-length", f"{r} lists {len(listed)} candidates, requested {extra}")
    # --- per-bloc
    if by is not None:
        Wsum = {}
        for b, p in by.items():
            for bal in p.ballots:
                k = (bal.ranking, tuple(sorted((bal.scores or {}).items())))
                Wsum[k] = Wsum.get(k, F(0)) + bal.weight
        Wagg = {}
        for bal in prof.ballots:
            k = (bal.ranking, tuple(sorted((bal.scores or {}).items())))
            Wagg[k] = Wagg.get(k, F(0)) + bal.weight
        if Wsum != Wagg:
            viol("by-bloc-does-not-add-up", "sum of per-bloc profiles != aggregate profile")
        sizes = [by[b].total_ballot_wt for b in ps["blocs"]]
        if name in ("AlternatingCrossover", "CambridgeSampler"):
            vp = []
            for b in ps["blocs"]:
                c = ps["coh"][b][b]
                vp += [c * ps["props"][b], (1 - c) * ps["props"][b]]
            a = gens.hh(vp, N)
            exp = [a[2 * i] + a[2 * i + 1] for i in range(len(ps["blocs"]))]
            if name == "AlternatingCrossover" and [int(x) for x in sizes] == exp:
                # split between bloc-first and opposing-first ballots inside each bloc
                for i, b in enumerate(ps["blocs"]):
                    own = set(ps["s2c"][b])
                    nown = sum(bal.weight for bal in by[b].ballots if bal.ranking and next(iter(bal.ranking[0])) in own)
                    # bloc voters put the own slate first; crossover voters the opposing slate first
                    if len(ps["blocs"]) == 2 and int(nown) != a[2 * i]:
                        viol("bloc-vs-crossover-split", f"bloc {b}: {nown} own-slate-first ballots, Huntington-Hill gives {a[2 * i]} bloc voters and {a[2 * i + 1]} crossover voters")
        else:
            exp = gens.hh([ps["props"][b] for b in ps["blocs"]], N)
        if [int(x) for x in sizes] != exp:
            viol("bloc-sizes-not-huntington-hill", f"bloc sizes {[str(x) for x in sizes]} != {exp} for proportions {ps['props']} and N={N}")
    if out["nontrivial"] and not out["violations"]:
        out["sample"] = {"generator": name, "N": N, "ballots": [[[sorted(map(str, s)) for s in (b.ranking or ())], str(b.weight)] for b in prof.ballots[:3]]}
    return out


def run(tier="quick", seed=0):
    common.os.environ["VERIF_TIER"] = tier
    common.os.environ["VERIF_SEED"] = str(seed)
    return common.run("bounded.C14", cases(tier, seed), bound="1-2 blocs x slates <=3 x N<=10 x 2 seeds", rule=RULE,
                      budget_s=600 if tier == "quick" else 1500)

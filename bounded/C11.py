"""Bounded stand-in for C11: Ballot / PreferenceProfile values: exact rationals, frozen, derived fields,
condense / == / + by content, in every ballot order."""
from __future__ import annotations
import itertools
import random
from fractions import Fraction as F
from . import gen, oracle, common

RULE = ("all ordered lists of <=3 ballots (thorough <=4) drawn from a pool of 14 ballot contents over {A,B}: ranking only / "
        "scores only / both / neither, with ids and voter sets, weights int/float/Fraction incl. denominators above 10^6; "
        "every permutation of each list is compared (order independence); distinct = sorted content list; non-trivial = >=2 "
        "distinct contents")


def content_pool():
    A, B = frozenset("A"), frozenset("B")
    rks = [None, (A,), (A, B), (frozenset("AB"),)]
    scs = [None, {"A": 1}, {"A": 1, "B": F(1, 2)}, {"C": -1}]
    pool = []
    for r in rks:
        for s in scs:
            pool.append((r, s))
    return pool


def cases(tier, seed):
    pool = content_pool()
    ws = [F(1), F(2), F(1, 3)]
    cs = []
    cs.append(("profile", (1, 1), (F(1, 999983), F(5, 999979))))
    cs.append(("key-order", None, None))
    cs.append(("write-in", None, None))
    cs.append(("profile", (4, 4, 5), (F(1, 999983), F(5, 999979), F(2000003, 3000001))))
    maxn = 3 if tier == "quick" else 4
    rng = random.Random(seed)
    for n in range(1, maxn + 1):
        for combo in itertools.combinations_with_replacement(range(len(pool)), n):
            if n >= 3 and tier == "quick" and rng.random() < 0.5:
                continue
            if n == 4 and rng.random() < 0.7:
                continue
            wsel = tuple(ws[(i + sum(combo)) % 3] for i in range(n))
            cs.append(("profile", combo, wsel))
    for w in [1, 2, 0, F(1, 3), F(5, 1000001), 0.5, 0.1, 1e-7, 1 / 3, 2.75, F(10**7 + 1, 10**7), 3.0]:
        cs.append(("ballot", w))
    return cs


def content_key(b):
    return (b.ranking if b.ranking else None, tuple(sorted(b.scores.items())) if b.scores else None)


def W_content(ballots):
    d = {}
    for b in ballots:
        k = content_key(b)
        d[k] = d.get(k, F(0)) + b.weight
    return d


def check_case(case):
    from votekit.ballot import Ballot
    from votekit.pref_profile import PreferenceProfile
    out = {"evals": 1, "key": repr(case), "nontrivial": True, "violations": []}

    def viol(key, what):
        out["violations"].append({"key": "C11:" + key, "what": what + f" on case {case!r}", "input": repr(case)})
    if case[0] == "ballot":
        w = case[1]
        b = Ballot(ranking=(frozenset("A"),), weight=w, scores={"A": w, "B": 0})
        exp = w if isinstance(w, F) else F(w).limit_denominator()
        if b.weight != exp or not isinstance(b.weight, F):
            viol("weight-conversion", f"weight {b.weight!r} != {exp!r}")
        # the property fixes the stored value for integers, fractions with denominator <= 10^6 (unchanged)
        # and floats (closest such fraction); a Fraction score with a larger denominator is unspecified
        # (the weight validator keeps it, the score validator rounds it) -- both are accepted
        specified = not (isinstance(w, F) and w.denominator > 10**6)
        exp_s = F(w).limit_denominator()
        want = {"A": exp_s} if w != 0 else None
        if w == 0:
            if b.scores not in (None, {}):
                viol("score-conversion", f"zero scores kept: {b.scores!r}")
        elif specified and b.scores != want:
            viol("score-conversion", f"scores {b.scores!r} != {want!r}")
        if not specified and b.scores not in ({"A": w}, {"A": exp_s}):
            viol("score-conversion", f"scores {b.scores!r} neither exact nor closest fraction")
        # zero scores are dropped whatever numeric type they (and their neighbours) have
        for zero in (0, 0.0, F(0)):
            for one in (1, 1.0, F(1), F(1, 3)):
                bz = Ballot(scores={"A": one, "B": zero, "C": zero})
                if bz.scores != {"A": F(one).limit_denominator()}:
                    viol("score-conversion[zero-dropped]", f"scores {{'A': {one!r}, 'B': {zero!r}, 'C': {zero!r}}} stored as {bz.scores!r}")
            bz = Ballot(scores={"A": zero})
            if bz.scores not in (None, {}):
                viol("score-conversion[zero-dropped]", f"all-zero score card {{'A': {zero!r}}} stored as {bz.scores!r}")
        for fld, val in (("weight", F(9)), ("ranking", None), ("scores", None), ("id", "x"), ("voter_set", set())):
            try:
                setattr(b, fld, val)
                viol("ballot-mutable", f"Ballot.{fld} could be reassigned")
            except Exception:
                pass
        p = PreferenceProfile(ballots=(b,))
        for fld, val in (("ballots", ()), ("candidates", ("Z",)), ("total_ballot_wt", F(0)), ("num_ballots", 7), ("candidates_cast", ())):
            try:
                setattr(p, fld, val)
                viol("profile-mutable", f"PreferenceProfile.{fld} could be reassigned")
            except Exception:
                pass
        try:
            PreferenceProfile(ballots=(b,), candidates=("A", "B", "A"))
            viol("duplicate-candidates-accepted", "candidates ('A','B','A') accepted")
        except ValueError:
            pass
        except Exception as ex:
            # pydantic wraps ValueError in ValidationError (a ValueError subclass)
            if not isinstance(ex, ValueError):
                viol("duplicate-candidates-wrong-error", repr(ex))
        return out
    if case[0] == "key-order":
        # equal contents whose score dicts were written in a different key order must merge
        r = (frozenset("A"), frozenset("B"))
        b1 = Ballot(ranking=r, scores={"A": 1, "B": F(1, 2)}, weight=2)
        b2 = Ballot(ranking=r, scores={"B": F(1, 2), "A": 1}, weight=3)
        p = PreferenceProfile(ballots=(b1, b2, Ballot(ranking=r, weight=1)))
        c = p.condense_ballots()
        if W_content(c.ballots) != W_content(p.ballots) or len(c.ballots) != 2:
            viol("condense:key-order", f"condensed to {[(content_key(b), str(b.weight)) for b in c.ballots]}")
        q = PreferenceProfile(ballots=(Ballot(ranking=r, scores={"A": 1, "B": F(1, 2)}, weight=5), Ballot(ranking=r, weight=1)))
        if not (p == q) or not (q == p):
            viol("eq:key-order", "profiles with the same weight per content compare unequal (score dict key order)")
        return out
    if case[0] == "write-in":
        # derived fields always equal what the ballots imply, also with an explicit candidate list and write-ins
        A_, B_, C_, Z_ = (frozenset(x) for x in "ABCZ")
        for bl_ in ([Ballot(ranking=(A_, B_), weight=1), Ballot(ranking=(B_, C_), weight=1), Ballot(ranking=(Z_, A_), weight=2)],
                    [Ballot(ranking=(A_,), weight=1), Ballot(scores={"B": 1, "Z": 2}, weight=1)],
                    [Ballot(ranking=(A_, B_, C_), weight=1), Ballot(ranking=(Z_,), weight=0), Ballot(ranking=(frozenset("Y"),), weight=1)]):
            for cl in (("A", "B", "C"), ("A", "B"), ("A",)):
                p = PreferenceProfile(ballots=tuple(bl_), candidates=cl)
                cast = set()
                for b in bl_:
                    if b.weight > 0:
                        for s_ in (b.ranking or ()):
                            cast |= set(s_)
                        cast |= set(b.scores or {})
                if set(p.candidates_cast) != cast:
                    viol("candidates_cast:explicit-candidates", f"candidates={cl}: candidates_cast {p.candidates_cast} != {cast}")
        return out
    _, combo, ws = case
    pool = content_pool()
    out["nontrivial"] = len(set(combo)) >= 2

    def mk(order):
        return tuple(Ballot(ranking=pool[combo[i]][0], scores=pool[combo[i]][1], weight=ws[i],
                            id=("id%d" % i if i == 0 else None), voter_set=({"v"} if i == 1 else None)) for i in order)
    n = len(combo)
    base = None
    profs = []
    for order in itertools.permutations(range(n)):
        bs = mk(order)
        p = PreferenceProfile(ballots=bs)
        profs.append(p)
        Wc = W_content(bs)
        if p.num_ballots != n or p.total_ballot_wt != sum(ws, F(0)):
            viol("derived-fields", f"num_ballots={p.num_ballots} total={p.total_ballot_wt}")
        cast = set()
        for b in bs:
            if b.weight > 0:
                if b.ranking:
                    for s in b.ranking:
                        cast |= set(s)
                if b.scores:
                    cast |= set(b.scores)
        if set(p.candidates_cast) != cast or len(p.candidates_cast) != len(cast):
            viol("candidates_cast", f"{p.candidates_cast} != {cast}")
        c = p.condense_ballots()
        Wcond = W_content(c.ballots)
        shape = "ranking-shared-by-scored-and-unscored" if any(
            pool[i][0] == pool[j][0] and (pool[i][1] is None) != (pool[j][1] is None) for i in combo for j in combo) else "other"
        if Wcond != Wc:
            viol(f"condense:per-content-weight[{shape}]", f"order {order}: condensed {Wcond} != {Wc}")
        if len({content_key(b) for b in c.ballots}) != len(c.ballots):
            viol(f"condense:not-distinct[{shape}]", f"order {order}: {[content_key(b) for b in c.ballots]}")
        cc = c.condense_ballots()
        if W_content(cc.ballots) != Wcond or len(cc.ballots) != len(c.ballots):
            viol(f"condense:not-idempotent[{shape}]", f"order {order}")
        if base is None:
            base = p
        else:
            if not (base == p) or not (p == base):
                viol(f"eq:order-dependent[{shape}]", f"profile != its permutation {order}")
        s = p + base
        Ws = W_content(s.ballots)
        if Ws != {k: 2 * v for k, v in Wc.items()}:
            viol("add", f"p + p weights {Ws}")
        if n >= 5:
            break
    # a ballot of weight zero gives its content the total weight zero, as does its absence: same weights, hence equal profiles
    if base is not None and n <= 2:
        zb = Ballot(ranking=(frozenset(["Zed"]), frozenset(["A"])), weight=F(0))
        pz = PreferenceProfile(ballots=base.ballots + (zb,))
        z2 = Ballot(ranking=(frozenset(["A"]), frozenset(["Zed"])), weight=F(0))
        pzz = PreferenceProfile(ballots=(zb,) + base.ballots + (z2, zb))
        czz = pzz.condense_ballots()
        if czz.total_ballot_wt != base.total_ballot_wt or {k: v for k, v in W_content(czz.ballots).items() if v != 0} != {k: v for k, v in W_content(base.ballots).items() if v != 0}:
            viol("condense:zero-weight-contents", f"condensing a profile with zero-weight ballots changes the weights: {W_content(czz.ballots)} (total {czz.total_ballot_wt}) vs {W_content(base.ballots)}")
        if len({content_key(b) for b in czz.ballots}) != len(czz.ballots) or W_content(czz.condense_ballots().ballots) != W_content(czz.ballots):
            viol("condense:zero-weight-contents", "condensed profile with zero-weight contents is not distinct / not stable under condensing again")
        if not (pz == base) or not (base == pz):
            viol("eq:zero-weight-ballot", "a profile and the same profile with an extra zero-weight ballot assign the same total weight to every content but compare unequal")
    # same rankings and the same score cards, paired differently: different contents, hence unequal profiles
    A_, B_ = frozenset("A"), frozenset("B")
    p1 = PreferenceProfile(ballots=(Ballot(ranking=(A_, B_), scores={"A": 2}, weight=ws[0]), Ballot(ranking=(B_, A_), scores={"B": 2}, weight=ws[0])))
    p2 = PreferenceProfile(ballots=(Ballot(ranking=(A_, B_), scores={"B": 2}, weight=ws[0]), Ballot(ranking=(B_, A_), scores={"A": 2}, weight=ws[0])))
    if p1 == p2 or p2 == p1:
        viol("eq:different-contents-equal", "profiles that pair the same rankings with the same score cards differently compare equal")
    # inequality when weights differ
    if n >= 1:
        bs = list(mk(range(n)))
        b0 = bs[0]
        bs2 = [Ballot(ranking=b0.ranking, scores=b0.scores, weight=b0.weight + 1)] + bs[1:]
        q = PreferenceProfile(ballots=tuple(bs2))
        shape = "ranking-shared-by-scored-and-unscored" if any(
            pool[i][0] == pool[j][0] and (pool[i][1] is None) != (pool[j][1] is None) for i in combo for j in combo) else "other"
        if profs[0] == q or q == profs[0]:
            viol(f"eq:different-weights-equal[{shape}]", "profiles with different per-content weight compare equal")
    if out["nontrivial"] and not out["violations"]:
        out["sample"] = {"contents": [repr(pool[i]) for i in combo], "weights": [str(w) for w in ws]}
    return out


def run(tier="quick", seed=0):
    return common.run("bounded.C11", cases(tier, seed), bound="<=3 ballots from 12 contents, all permutations (quick); <=4 (thorough)",
                      rule=RULE, budget_s=600 if tier == "quick" else 1200)

"""Bounded stand-in for C20 (entry points outside the verifier's subset, and a cross-check of the proved tables):
for each documented precondition, inputs violating exactly that precondition -- by the smallest margin and grossly, on
every ballot position -- must be refused with the documented error before any result exists; inputs at the boundary
must be accepted."""
from __future__ import annotations
import itertools
import random
from fractions import Fraction as F
from . import gen, common

RULE = ("per documented precondition: minimal and gross violations x position of the offending ballot (first/middle/last) x rule / helper: "
        "ranking rules (no ranking), STV family (tied position), PluralityVeto and random_transfer (non-integer weight, incl. fractional "
        "ballots whose total is whole), score rules (missing scores), m range for every rule with a seat count (0, 1, n, n+1), Alaska "
        "stage sizes, score vectors (negative / increasing by 1e-9), rating limits, quota names, generator bloc proportions / cohesion sums "
        "(1 +- 1e-9 accepted, 1 +- 1e-6 refused), mismatched bloc names, overlapping intervals (incl. overlap through a zero-support "
        "candidate), BallotSimplex.from_point, duplicate candidates; distinct = (entry point, violated precondition, variant)")


def cases(tier, seed):
    cs = []
    for pos in (0, 1, 2):
        for rule in ("Plurality", "SNTV", "Borda", "TopTwo", "Alaska", "DominatingSets", "CondoBorda", "RandomDictator", "BoostedRandomDictator",
                     "STV", "IRV", "SequentialRCV", "PluralityVeto"):
            cs.append(("no-ranking", rule, pos))
        for rule in ("STV", "IRV", "SequentialRCV"):
            cs.append(("tied-position", rule, pos))
        for v in ("single", "pair-summing-to-whole"):
            cs.append(("non-integer-weight", "PluralityVeto", pos, v))
            cs.append(("non-integer-weight", "random_transfer", pos, v))
        for rule in ("Rating", "Approval", "Limited", "Cumulative", "BlocPlurality"):
            cs.append(("no-scores", rule, pos))
    for rule in ("STV", "SequentialRCV", "RandomDictator", "BoostedRandomDictator", "PluralityVeto", "Rating", "Approval", "Limited", "Cumulative",
                 "BlocPlurality", "Plurality", "Borda", "CondoBorda"):
        for m in (0, -1, 1, 3, 4, 7):
            cs.append(("m-range", rule, m))
    for m1, m2 in ((0, 0), (1, 0), (0, 1), (1, 2), (2, 3), (2, 2), (3, 1), (-1, -2)):
        cs.append(("alaska-stages", m1, m2))
    for vec in ((3, 2, 1), (1, 1, 1), (0, 0, 0), (1, 0, F(1, 10 ** 9)), (1, 2, 0), (-1, 0, 0), (1, 0, -F(1, 10 ** 9)), (2, 2 + 1e-9, 1), (1.5, 1.5, 0.2),
                (-1,), (-F(1, 10 ** 9),), (1,), (0,), (1, 2), (-1, -2), (2, 1, 0, -F(1, 10 ** 9)), (3, 2, 1, 0, 1), (1, -1)):
        cs.append(("score-vector", vec))
    for L, k in ((1, None), (0, None), (-1, None), (1, 0), (1, -1), (2, 1), (1, 1), (F(1, 2), F(1, 2)), (1, F(999999, 1000000))):
        cs.append(("rating-limits", L, k))
    for q in ("droop", "hare", "Droop", "dropo", ""):
        cs.append(("quota", q))
    for d in (0.0, 1e-9, -1e-9, 1e-6, -1e-6, 0.1):
        cs.append(("gen-props", d))
        cs.append(("gen-cohesion", d))
        cs.append(("combine-shares", d))
        cs.append(("from-point", d))
    for v in ("bloc-names-props-vs-intervals", "bloc-names-props-vs-cohesion", "missing-one-of-three", "no-candidates",
              "overlap-positive", "overlap-zero-support", "disjoint"):
        cs.append(("gen-structure", v))
    for v in (("A", "B", "A"), ("A", "B", "C"), ("A", "A"), ("A",)):
        cs.append(("duplicate-candidates", v))
    for v in ("W==C", "only-W", "ok"):
        cs.append(("cambridge", v))
    return cs


def expect(fn, exc, key, out, desc, accept=False):
    """run fn; with accept=False it must raise exc (and nothing else); with accept=True it must not raise exc-type errors"""
    try:
        r = fn()
    except Exception as e:  # noqa
        if accept:
            out["violations"].append({"key": "C20:" + key + ":valid-input-refused", "what": f"{type(e).__name__}: {e} on {desc}", "input": desc})
        elif not isinstance(e, exc):
            out["violations"].append({"key": "C20:" + key + f":wrong-error[{type(e).__name__}]", "what": f"expected {exc.__name__}, got {type(e).__name__}: {e} on {desc}", "input": desc})
        return None
    if not accept:
        out["violations"].append({"key": "C20:" + key + ":accepted", "what": f"no {exc.__name__}: the request was carried out on {desc}", "input": desc})
    return r


def check_case(case):
    import numpy as np
    import votekit.elections as E
    import votekit.ballot_generator as bg
    from votekit.ballot import Ballot
    from votekit.pref_profile import PreferenceProfile
    from votekit.pref_interval import PreferenceInterval, combine_preference_intervals
    from votekit.utils import validate_score_vector, score_profile_from_rankings
    random.seed(3)
    np.random.seed(3)
    out = {"evals": 1, "key": repr(case), "nontrivial": True, "violations": []}
    desc = {"case": repr(case)}
    A, B, C = frozenset("A"), frozenset("B"), frozenset("C")
    good = [Ballot(ranking=(A, B, C), weight=2), Ballot(ranking=(B, C, A), weight=1), Ballot(ranking=(C, A, B), weight=3)]
    cands = ("A", "B", "C")

    def mk(rule, prof, m=1):
        if rule == "Borda":
            return E.Borda(prof, m, None, "random")
        if rule == "TopTwo":
            return E.TopTwo(prof, "random")
        if rule == "Alaska":
            return E.Alaska(prof, 2, 1, tiebreak="random")
        if rule == "DominatingSets":
            return E.DominatingSets(prof)
        if rule == "CondoBorda":
            return E.CondoBorda(prof, m)
        if rule in ("RandomDictator", "BoostedRandomDictator"):
            return getattr(E, rule)(prof, m)
        if rule == "IRV":
            return E.IRV(prof, tiebreak="random")
        if rule in ("STV", "SequentialRCV"):
            return getattr(E, rule)(prof, m=m, tiebreak="random")
        if rule == "PluralityVeto":
            return E.PluralityVeto(prof, m, "random")
        if rule == "Rating":
            return E.Rating(prof, m, L=1, tiebreak="random")
        if rule == "Limited":
            return E.Limited(prof, m, k=1, tiebreak="random")
        if rule == "BlocPlurality":
            return E.BlocPlurality(prof, m, tiebreak="random")
        return getattr(E, rule)(prof, m, tiebreak="random")
    kind = case[0]
    if kind in ("no-ranking", "tied-position", "no-scores"):
        _, rule, pos = case
        bl = list(good)
        if kind == "no-ranking":
            bl[pos] = Ballot(scores={"A": 1}, weight=1)
        elif kind == "tied-position":
            bl[pos] = Ballot(ranking=(A, frozenset("BC")), weight=1)
        else:
            bl = [Ballot(scores={"A": 1}, weight=1), Ballot(scores={"B": 1}, weight=2), Ballot(scores={"C": 1, "A": 1} if rule not in ("Limited", "Cumulative", "BlocPlurality") else {"C": 1}, weight=1)]
            expect(lambda: mk(rule, PreferenceProfile(ballots=tuple(bl), candidates=cands)), TypeError, f"{rule}:all-scored", out, desc, accept=True)
            bl[pos] = Ballot(ranking=(A, B), weight=1)
        expect(lambda: mk(rule, PreferenceProfile(ballots=tuple(bl), candidates=cands)), TypeError, f"{rule}:{kind}[ballot {pos}]", out, desc)
    elif kind == "non-integer-weight":
        _, what, pos, variant = case
        bl = list(good)
        if variant == "single":
            bl[pos] = Ballot(ranking=bl[pos].ranking, weight=F(3, 2))
        else:
            bl = [Ballot(ranking=(A, B, C), weight=F(5, 2)), Ballot(ranking=(A, C, B), weight=F(3, 2)), Ballot(ranking=(B, C, A), weight=1)]
        if what == "PluralityVeto":
            expect(lambda: E.PluralityVeto(PreferenceProfile(ballots=tuple(bl), candidates=cands), 1, "random"), TypeError, f"PluralityVeto:non-integer-weight[{variant}]", out, desc)
        else:
            led = [b for b in bl if b.ranking[0] == A] if variant != "single" else bl
            if variant == "single":
                led = [Ballot(ranking=(A, B, C), weight=2), Ballot(ranking=(A, C), weight=1), Ballot(ranking=(A, B), weight=1)]
                led[pos] = Ballot(ranking=led[pos].ranking, weight=F(3, 2))
            expect(lambda: E.random_transfer("A", F(4), tuple(led), 2), TypeError, f"random_transfer:non-integer-weight[{variant}]", out, desc)
    elif kind == "m-range":
        _, rule, m = case
        if rule in ("Rating", "Approval", "Limited", "Cumulative", "BlocPlurality"):
            prof = PreferenceProfile(ballots=(Ballot(scores={"A": 1}, weight=3), Ballot(scores={"B": 1}, weight=2), Ballot(scores={"C": 1}, weight=1)), candidates=cands)
        else:
            prof = PreferenceProfile(ballots=tuple(good), candidates=cands)
        bad = m < 1 or m > 3
        if rule == "Limited" and not bad:
            bad = False
        expect(lambda: mk(rule, prof, m), ValueError, f"{rule}:m={m}", out, desc, accept=not bad)
    elif kind == "alaska-stages":
        _, m1, m2 = case
        prof = PreferenceProfile(ballots=tuple(good), candidates=cands)
        bad = m1 <= 0 or m2 <= 0 or m1 < m2 or m1 > 3
        expect(lambda: E.Alaska(prof, m1, m2, tiebreak="random"), ValueError, f"Alaska:m_1={m1},m_2={m2}", out, desc, accept=not bad)
    elif kind == "score-vector":
        vec = case[1]
        bad = any(x < 0 for x in vec) or any(vec[i] > vec[i - 1] for i in range(1, len(vec)))
        prof = PreferenceProfile(ballots=tuple(good), candidates=cands)
        expect(lambda: validate_score_vector(list(vec)), ValueError, "validate_score_vector", out, desc, accept=not bad)
        expect(lambda: score_profile_from_rankings(prof, list(vec)), ValueError, "score_profile_from_rankings:vector", out, desc, accept=not bad)
        expect(lambda: E.Borda(prof, 1, list(vec), "random"), ValueError, "Borda:vector", out, desc, accept=not bad or not any(vec))
    elif kind == "rating-limits":
        _, L, k = case
        prof = PreferenceProfile(ballots=(Ballot(scores={"A": F(1, 2)}, weight=3), Ballot(scores={"B": F(1, 4)}, weight=1)), candidates=cands)
        bad = L <= 0 or (k is not None and (k <= 0 or L > k))
        expect(lambda: E.GeneralRating(prof, 1, L=L, k=k, tiebreak="random"), ValueError, f"GeneralRating:L,k", out, desc, accept=not bad)
    elif kind == "quota":
        q = case[1]
        prof = PreferenceProfile(ballots=tuple(good), candidates=cands)
        expect(lambda: E.STV(prof, m=1, quota=q, tiebreak="random"), ValueError, "STV:quota", out, desc, accept=q in ("droop", "hare"))
    elif kind in ("gen-props", "gen-cohesion", "combine-shares", "from-point"):
        d = case[1]
        ok = abs(d) < 5e-9 if kind != "from-point" else d == 0.0
        pis = {"W": {"W": PreferenceInterval({"W1": 1.0, "W2": 2.0}), "C": PreferenceInterval({"C1": 1.0})},
               "C": {"W": PreferenceInterval({"W1": 1.0, "W2": 1.0}), "C": PreferenceInterval({"C1": 1.0})}}
        props = {"W": 0.7, "C": 0.3}
        coh = {"W": {"W": 0.8, "C": 0.2}, "C": {"C": 0.6, "W": 0.4}}
        if kind == "gen-props":
            props = {"W": 0.7 + d, "C": 0.3}
            for cls in (bg.name_PlackettLuce, bg.name_BradleyTerry, bg.name_Cumulative):
                kw = dict(candidates=["W1", "W2", "C1"], pref_intervals_by_bloc=pis, bloc_voter_prop=props, cohesion_parameters=coh)
                if cls is bg.name_Cumulative:
                    kw["num_votes"] = 2
                expect(lambda: cls(**kw), ValueError, f"{cls.__name__}:bloc-proportions", out, desc, accept=ok)
            expect(lambda: bg.slate_PlackettLuce(slate_to_candidates={"W": ["W1", "W2"], "C": ["C1"]}, pref_intervals_by_bloc=pis, bloc_voter_prop=props, cohesion_parameters=coh),
                   ValueError, "slate_PlackettLuce:bloc-proportions", out, desc, accept=ok)
            expect(lambda: bg.name_PlackettLuce.from_params(slate_to_candidates={"W": ["W1", "W2"], "C": ["C1"]}, bloc_voter_prop=props, cohesion_parameters=coh,
                                                            alphas={"W": {"W": 1, "C": 1}, "C": {"W": 1, "C": 1}}), ValueError, "from_params:bloc-proportions", out, desc, accept=ok)
        elif kind == "gen-cohesion":
            coh = {"W": {"W": 0.8, "C": 0.2}, "C": {"C": 0.6 + d, "W": 0.4}}
            expect(lambda: bg.name_PlackettLuce(candidates=["W1", "W2", "C1"], pref_intervals_by_bloc=pis, bloc_voter_prop=props, cohesion_parameters=coh),
                   ValueError, "name_PlackettLuce:cohesion-sum[second bloc]", out, desc, accept=ok)
        elif kind == "combine-shares":
            expect(lambda: combine_preference_intervals([pis["W"]["W"], pis["W"]["C"]], [0.8 + d, 0.2]), ValueError, "combine_preference_intervals:shares", out, desc, accept=ok)
        else:
            pt = {"A": 0.5 + d, "B": 0.25, "C": 0.25}
            expect(lambda: bg.BallotSimplex.from_point(point=pt, candidates=["A", "B", "C"]), ValueError, "BallotSimplex.from_point", out, desc, accept=ok)
    elif kind == "gen-structure":
        v = case[1]
        pis = {"W": {"W": PreferenceInterval({"W1": 1.0}), "C": PreferenceInterval({"C1": 1.0})}, "C": {"W": PreferenceInterval({"W1": 1.0}), "C": PreferenceInterval({"C1": 1.0})}}
        props = {"W": 0.7, "C": 0.3}
        coh = {"W": {"W": 0.8, "C": 0.2}, "C": {"C": 0.6, "W": 0.4}}
        if v == "bloc-names-props-vs-intervals":
            expect(lambda: bg.name_PlackettLuce(candidates=["W1", "C1"], pref_intervals_by_bloc={"W": pis["W"], "X": pis["C"]}, bloc_voter_prop=props, cohesion_parameters=coh), ValueError, "generator:bloc-names[intervals]", out, desc)
        elif v == "bloc-names-props-vs-cohesion":
            expect(lambda: bg.name_PlackettLuce(candidates=["W1", "C1"], pref_intervals_by_bloc=pis, bloc_voter_prop=props, cohesion_parameters={"W": coh["W"], "X": coh["C"]}), ValueError, "generator:bloc-names[cohesion]", out, desc)
        elif v == "missing-one-of-three":
            expect(lambda: bg.name_BradleyTerry(candidates=["W1", "C1"], pref_intervals_by_bloc=pis, cohesion_parameters=coh), ValueError, "generator:missing-parameter", out, desc)
        elif v == "no-candidates":
            expect(lambda: bg.ImpartialCulture(), ValueError, "generator:no-candidates", out, desc)
        else:
            i1 = PreferenceInterval({"A": 0.7, "B": 0.3, "C": 0.0 if v == "overlap-zero-support" else 0.2} if v != "disjoint" else {"A": 0.7, "B": 0.3})
            i2 = PreferenceInterval({"C": 0.6, "D": 0.4})
            expect(lambda: combine_preference_intervals([i1, i2], [0.5, 0.5]), ValueError, f"combine_preference_intervals:{v}", out, desc, accept=(v == "disjoint"))
    elif kind == "duplicate-candidates":
        v = case[1]
        expect(lambda: PreferenceProfile(ballots=(Ballot(ranking=(A,), weight=1),), candidates=v), ValueError, "PreferenceProfile:duplicate-candidates", out, desc, accept=len(set(v)) == len(v))
    elif kind == "cambridge":
        v = case[1]
        pis = {"W": {"W": PreferenceInterval({"W1": 1.0}), "C": PreferenceInterval({"C1": 1.0})}, "C": {"W": PreferenceInterval({"W1": 1.0}), "C": PreferenceInterval({"C1": 1.0})}}
        kw = dict(slate_to_candidates={"W": ["W1"], "C": ["C1"]}, pref_intervals_by_bloc=pis, bloc_voter_prop={"W": 0.7, "C": 0.3},
                  cohesion_parameters={"W": {"W": 0.8, "C": 0.2}, "C": {"C": 0.6, "W": 0.4}})
        if v == "W==C":
            expect(lambda: bg.CambridgeSampler(W_bloc="W", C_bloc="W", **kw), ValueError, "CambridgeSampler:W==C", out, desc)
        elif v == "only-W":
            expect(lambda: bg.CambridgeSampler(W_bloc="W", **kw), ValueError, "CambridgeSampler:only-one-of-W/C", out, desc)
        else:
            expect(lambda: bg.CambridgeSampler(**kw), ValueError, "CambridgeSampler:ok", out, desc, accept=True)
    if not out["violations"]:
        out["sample"] = desc
    return out


def run(tier="quick", seed=0):
    return common.run("bounded.C20", cases(tier, seed), bound="one input per (entry point, precondition, margin, ballot position)", rule=RULE,
                      budget_s=600)

"""Bounded stand-in for C06: pairwise margins, dominating tiers (Smith sets), DominatingSets / CondoBorda."""
from __future__ import annotations
import itertools
import random
from fractions import Fraction as F
from . import gen, oracle, common

RULE = ("all profiles of <=3 distinct untied partial ballots over 3 candidates x weights {1,2} (3 ballots: {1}) + all 3-ballot cyclic "
        "profiles over 4 candidates (thorough: seeded random profiles up to 5 candidates x 6 ballots, rational weights); margins by "
        "definition; tiers by brute-force search of minimal dominating sets; distinct = canonical profile; non-trivial = >=2 "
        "candidates with weight and >=2 ballots")


def margins(cands, Wd):
    h = {(a, b): F(0) for a in cands for b in cands if a != b}
    for r, w in Wd.items():
        pos = {}
        for i, s in enumerate(r):
            for c in s:
                pos[c] = i
        for a in cands:
            for b in cands:
                if a == b:
                    continue
                if a in pos and b in pos:
                    if pos[a] < pos[b]:
                        h[(a, b)] += w
                elif a in pos:
                    h[(a, b)] += w
                elif b not in pos:
                    h[(a, b)] += w / 2
    return {(a, b): h[(a, b)] - h[(b, a)] for a in cands for b in cands if a != b}


def smith_tiers(cands, mg):
    rest = list(cands)
    tiers = []
    while rest:
        found = None
        for k in range(1, len(rest) + 1):
            for S in itertools.combinations(rest, k):
                if all(mg[(a, b)] > 0 for a in S for b in rest if b not in S):
                    found = set(S)
                    break
            if found:
                break
        tiers.append(found)
        rest = [c for c in rest if c not in found]
    return tiers


def cases(tier, seed):
    cs = []
    for nb, ws in ((1, (1,)), (2, (1, 2)), (3, (1,))):
        for cands, bl in gen.profiles_exhaustive(3, nb, [F(w) for w in ws]):
            cs.append((cands, bl))
    c4 = gen.NAMES[:4]
    full4 = [tuple(frozenset([c]) for c in p) for p in itertools.permutations(c4)]
    rng = random.Random(seed + 1)
    for _ in range(300 if tier == "quick" else 2000):
        k = rng.randint(2, 4)
        bl = [(rng.choice(full4)[:rng.randint(1, 4)], F(rng.choice([1, 1, 2, F(1, 2)]))) for _ in range(k)]
        cs.append((c4, bl))
    # several listed candidates that no ballot ranks (scores and tiers are still defined over the whole candidate list)
    c5 = gen.NAMES[:5]
    part3 = [tuple(frozenset([c]) for c in p)[:k] for p in itertools.permutations(c5[:3]) for k in (1, 2, 3)]
    cyc = [tuple(frozenset([c]) for c in p) for p in (("A", "B", "C"), ("B", "C", "A"), ("C", "A", "B"))]
    for i in range(500 if tier == "quick" else 2500):
        if i % 2:
            k = rng.randint(2, 5)
            bl = [(rng.choice(part3), F(rng.choice([1, 2, 3, 4, 6, F(1, 2)]))) for _ in range(k)]
        else:  # a Condorcet cycle of partial ballots (close Borda scores inside one tier) plus one more ballot
            bl = [(r[:rng.randint(2, 3)], F(rng.randint(1, 7))) for r in cyc] + [(rng.choice(part3), F(rng.randint(1, 5)))]
        cs.append((c5, bl))
    # short ballots that leave many (>= 6) candidates unranked: they are indifferent between the unranked ones
    c7 = gen.NAMES[:7]
    full7 = [tuple(frozenset([c]) for c in p) for p in (c7, c7[::-1], c7[3:] + c7[:3])]
    for i in range(12 if tier == "quick" else 40):
        bl = [((frozenset([c7[i % 7]]),), F(1 + i % 3)), (full7[i % 3][:(7 if i % 2 else 1)], F(1))]
        if i % 4 == 0:
            bl.append(((frozenset([c7[(i + 2) % 7]]),), F(2)))
        cs.append((c7, bl))
    if tier == "thorough":
        for cands, bl in gen.profiles_random(random.Random(seed), 3000):
            cs.append((cands, bl))
    return cs


def check_case(case):
    from votekit.graphs import PairwiseComparisonGraph
    from votekit.elections import DominatingSets, CondoBorda
    cands, bl = case
    prof = gen.mk_profile(cands, bl)
    Wd = oracle.W_of(bl)
    out = {"evals": 1, "key": gen.canon(cands, bl), "nontrivial": gen.nontrivial(cands, bl), "violations": []}
    desc = gen.lit(cands, bl)

    def viol(key, what):
        out["violations"].append({"key": "C06:" + key, "what": what + f" on {desc}", "input": desc})
    mg = margins(cands, Wd)
    try:
        g = PairwiseComparisonGraph(prof)
    except Exception as e:
        viol(f"PairwiseComparisonGraph:{type(e).__name__}", repr(e))
        return out
    pd = g.pairwise_dict
    for a, b in itertools.combinations(cands, 2):
        m = mg[(a, b)]
        if m > 0:
            exp = {(a, b): m}
        elif m < 0:
            exp = {(b, a): -m}
        else:
            exp = {(a, b): F(0), (b, a): F(0)}
        got = {k: v for k, v in pd.items() if set(k) == {a, b}}
        if got != exp:
            viol("pairwise_dict", f"pair ({a},{b}): recorded {got}, margin by definition {exp}")
        if g.head2head_count(a, b) - g.head2head_count(b, a) != m:
            viol("head2head_count", f"({a},{b}): {g.head2head_count(a, b)} - {g.head2head_count(b, a)} != {m}")
    # explicit ballot_length shorter than the candidate list: ballots that already have that many entries are not filled;
    # a pair none of whose members such a ballot lists gets nothing from it
    if len(cands) >= 3 and (hash(str(case)) & 1):
        Lb = len(cands) - 2 if len(cands) >= 4 else len(cands) - 1
        try:
            g2 = PairwiseComparisonGraph(prof, ballot_length=Lb)
            out["evals"] += 1
            # only pairs of candidates the truncated graph knows about (a candidate no ballot lists is not part of it)
            for a, b in itertools.combinations([c for c in cands if c in g2.candidates], 2):
                e = F(0)
                for r, w in Wd.items():
                    pos = {c: i for i, s in enumerate(r) for c in s}
                    if a in pos and b in pos:
                        e += w if pos[a] < pos[b] else -w
                    elif a in pos:
                        e += w
                    elif b in pos:
                        e -= w
                    elif len(r) < Lb:
                        pass  # both unlisted on a filled ballot: split evenly
                got = g2.head2head_count(a, b) - g2.head2head_count(b, a)
                if got != e:
                    viol("head2head_count[ballot_length]", f"ballot_length={Lb}, pair ({a},{b}): {got} != {e}")
                rec = {k: v for k, v in g2.pairwise_dict.items() if set(k) == {a, b}}
                want = {(a, b): e} if e > 0 else ({(b, a): -e} if e < 0 else {(a, b): F(0), (b, a): F(0)})
                if rec != want:
                    viol("pairwise_dict[ballot_length]", f"ballot_length={Lb}, pair ({a},{b}): recorded {rec}, by definition {want}")
        except Exception as ex:
            viol(f"PairwiseComparisonGraph[ballot_length]:{type(ex).__name__}", repr(ex))
    exp_t = smith_tiers(cands, mg)
    got_t = [set(t) for t in g.dominating_tiers()]
    if got_t != exp_t:
        viol("dominating_tiers", f"tiers {got_t} != chain of minimal dominating sets {exp_t} (margins {mg})")
    cw = [a for a in cands if all(mg[(a, b)] > 0 for b in cands if b != a)]
    if g.has_condorcet_winner() != (len(cw) == 1):
        viol("has_condorcet_winner", f"{g.has_condorcet_winner()} but Condorcet winners by definition: {cw}")
    if cw:
        try:
            if g.get_condorcet_winner() != cw[0]:
                viol("get_condorcet_winner", f"{g.get_condorcet_winner()} != {cw[0]}")
        except Exception as e:
            viol(f"get_condorcet_winner:{type(e).__name__}", repr(e))
    try:
        e = DominatingSets(prof)
        out["evals"] += 1
        if [set(s) for s in e.get_elected()] != [exp_t[0]]:
            viol("DominatingSets:elected", f"{e.get_elected()} != top tier {exp_t[0]}")
        if [set(s) for s in e.get_remaining()] != exp_t[1:] and not (len(exp_t) == 1 and [set(s) for s in e.get_remaining()] in ([], [set()])):
            viol("DominatingSets:remaining", f"{e.get_remaining()} != {exp_t[1:]}")
    except Exception as ex:
        viol(f"DominatingSets:{type(ex).__name__}", repr(ex))
    bo = oracle.borda(cands, Wd)
    for m in range(1, len(cands) + 1):
        out["evals"] += 1
        try:
            random.seed(1)
            e = CondoBorda(prof, m)
        except Exception as ex:
            viol(f"CondoBorda:{type(ex).__name__}", f"m={m}: {ex!r}")
            continue
        el = [c for s in e.get_elected() for c in s]
        if len(el) != m:
            viol("CondoBorda:seat-count", f"m={m}: {e.get_elected()}")
            continue
        # whole tiers in order, then by Borda inside the straddling tier
        need = m
        ok = True
        for t in exp_t:
            if need <= 0:
                ok = ok and not (set(el) & t)
            elif len(t) <= need:
                ok = ok and t <= set(el)
                need -= len(t)
            else:
                chosen = set(el) & t
                ok = ok and len(chosen) == need and min(bo[c] for c in chosen) >= max(bo[c] for c in t - chosen)
                need = 0
        if not ok:
            viol("CondoBorda:elected", f"m={m}: elected {e.get_elected()} tiers {exp_t} borda {bo}")
    if out["nontrivial"] and not out["violations"]:
        out["sample"] = dict(desc, tiers=[sorted(t) for t in exp_t])
    return out


def run(tier="quick", seed=0):
    return common.run("bounded.C06", cases(tier, seed), bound="3 candidates x <=3 ballots exhaustive + 4-candidate samples (quick); <=5 x 6 random (thorough)",
                      rule=RULE, budget_s=600 if tier == "quick" else 1200)

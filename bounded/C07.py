"""Bounded stand-in for C07: Droop proportionality for solid coalitions on real STV counts."""
from __future__ import annotations
import itertools
import random
from fractions import Fraction as F
from . import gen, oracle, common

RULE = ("STV with the Droop quota (simultaneous and one-by-one, fractional and random transfer, tiebreak random; IRV as m=1) on "
        "exhaustive untied profiles (3 candidates x <=3 ballots x weights {1,2,3}; 4 candidates x 3 ballots (thorough and sampled in quick)) "
        "x every m x every non-empty candidate subset S x 2 random seeds; the axiom is evaluated from the input profile only; distinct = "
        "canonical (profile, config); non-trivial = some coalition S with |S|>=1 commands at least one quota")


def cases(tier, seed):
    cs = []
    i = 0
    for nb, ws in ((1, (1, 3)), (2, (1, 2, 3)), (3, (1, 2))):
        for cands, bl in gen.profiles_exhaustive(3, nb, [F(w) for w in ws]):
            i += 1
            if tier == "quick" and nb == 3 and i % 3:
                continue
            for m in (1, 2, 3):
                cs.append((cands, bl, m, bool((i + m) % 2), ("fractional", "random")[(i // 2 + m) % 2]))
    # two candidates crossing the quota together with equal tallies and a surplus the coalition needs
    for x, y, z, m in ((9, 9, 5, 3), (6, 6, 2, 2), (8, 8, 3, 3), (5, 5, 1, 2)):
        for third in ("C", "D"):
            A, B, C, D = (frozenset(t) for t in "ABCD")
            bl = [((A, B, frozenset(third)), F(x)), ((B, A, frozenset(third)), F(y)), ((frozenset("D" if third == "C" else "C"),), F(z))]
            for sim in (True, False):
                for tr in ("fractional", "random"):
                    cs.append((gen.NAMES[:4], bl, m, sim, tr))
    # a coalition sitting exactly on k quotas whose second member needs the first one's whole surplus: non-integer totals
    # (quota = floor(N/(m+1)) + 1 of a non-integer N) and totals in the millions (transfer values with large denominators)
    A, B, C, D = (frozenset(t) for t in "ABCD")
    for T in (4, 5, 7, 10 ** 7, 10 ** 7 + 3):
        for d in (1, 2, 3):
            if d >= T:
                continue
            for rest in (F(T) - F(1, 2), F(T) - F(1, 3), F(T - 1), F(T) - F(1, 1000003)):
                # m = 2: N = 2T + rest lies in [3(T-1), 3T), so the Droop quota is T; {A,B} holds exactly 2T
                bl = [((A, B), F(T + d)), ((B, A), F(T - d)), ((C,), rest)]
                for sim in (True, False):
                    cs.insert(0, (gen.NAMES[:3], bl, 2, sim, "fractional"))
                bl2 = [((A, B, C), F(T + d)), ((B, A, D), F(T - d)), ((C, D), rest / 2), ((D,), rest / 2)]
                cs.insert(0, (gen.NAMES[:4], bl2, 2, True, "fractional"))
    rng = random.Random(seed + 7)
    c4 = gen.NAMES[:4]
    full4 = [tuple(frozenset([c]) for c in p) for p in itertools.permutations(c4)]
    for _ in range(600 if tier == "quick" else 6000):
        k = rng.randint(2, 5)
        bl = [(rng.choice(full4)[:rng.randint(1, 4)], F(rng.choice([1, 2, 3, 5]))) for _ in range(k)]
        cs.append((c4, bl, rng.randint(1, 4), rng.random() < .5, rng.choice(["fractional", "random"])))
    return cs


def check_case(case):
    import numpy as np
    from votekit.elections import STV, IRV, random_transfer, fractional_transfer
    cands, bl, m, sim, tr = case
    Wd = oracle.W_of(bl)
    N = oracle.total(Wd)
    T = oracle.droop(N, m)
    out = {"evals": 0, "key": (gen.canon(cands, bl), m, sim, tr), "nontrivial": False, "violations": []}
    desc = dict(gen.lit(cands, bl), m=m, simultaneous=sim, transfer=tr, threshold=T)
    # coalitions
    req = {}
    for k in range(1, len(cands) + 1):
        for S in itertools.combinations(cands, k):
            Sset = set(S)
            wS = sum((w for r, w in Wd.items() if len(r) >= k and {c for g in r[:k] for c in g} == Sset), F(0))
            q = int(wS / T) if T > 0 else 0
            need = min(q, k, m)
            if need > 0:
                req[S] = (need, wS)
    out["nontrivial"] = bool(req)
    # candidate names contained in one another (the count must not depend on spelling)
    ren = {"A": "Smith-Jones", "B": "Smith", "C": "Jones", "D": "Jo"}
    if (hash(str(case)) & 3) == 0:
        cands = [ren[c] for c in cands]
        bl = [(tuple(frozenset(ren[c] for c in s) for s in r), w) for r, w in bl]
        req = {tuple(ren[c] for c in S): v for S, v in req.items()}
        desc = dict(gen.lit(cands, bl), m=m, simultaneous=sim, transfer=tr, threshold=T)
    prof = gen.mk_profile(cands, bl)
    for sd in (1, 2):
        random.seed(sd)
        np.random.seed(sd)
        try:
            if m == 1 and sim and tr == "fractional":
                e = IRV(prof, tiebreak="random")
            else:
                e = STV(prof, m=m, transfer=fractional_transfer if tr == "fractional" else random_transfer, simultaneous=sim, tiebreak="random")
        except Exception:
            return out  # crashes are C01's subject
        out["evals"] += 1
        el = {c for g in e.get_elected() for c in g}
        for S, (need, wS) in req.items():
            if len(el & set(S)) < need:
                out["violations"].append({"key": f"C07:STV({'simultaneous' if sim else 'one-by-one'},{tr}):coalition-underrepresented",
                                          "what": f"coalition {S} is solidly supported by weight {wS} >= {need} x threshold {T} but only {sorted(el & set(S))} of it were elected (winners {sorted(el)}) on {desc}",
                                          "input": dict(desc, coalition=list(S))})
    if out["nontrivial"] and not out["violations"]:
        out["sample"] = dict(desc, coalitions={",".join(S): need for S, (need, _) in list(req.items())[:3]})
    return out


def run(tier="quick", seed=0):
    return common.run("bounded.C07", cases(tier, seed), bound="3 candidates x <=3 ballots exhaustive + 4-candidate samples, all coalitions",
                      rule=RULE, budget_s=600 if tier == "quick" else 1500)

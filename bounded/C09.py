"""Bounded stand-in for C09: query histories on finished elections: replayed profile vs recorded round,
cumulative queries vs per-round records, negative indices, IndexError, purity."""
from __future__ import annotations
import copy
import itertools
import random
from fractions import Fraction as F
from . import gen, oracle, common
from .C01 import build

RULE = ("finished elections of every rule on exhaustive small profiles (3 candidates x <=2 ballots, weights {1,2}; STV family also "
        "3 ballots) x configurations; for each: all rounds r and r-len, out-of-range indices, and a seeded sequence of 12 mixed queries "
        "with repetition; rounds that record a random tiebreak are exempt from replay equality (statement), purity is still checked; "
        "distinct = canonical (profile, rule, configuration); non-trivial = election with >= 2 recorded rounds beyond round 0 or >=2 ballots")

RULES = ["STV", "STV1", "IRV", "SequentialRCV", "Plurality", "Borda", "TopTwo", "Alaska", "Alaska1", "DominatingSets", "CondoBorda", "Rating", "Approval",
         "PluralityVeto"]


def cases(tier, seed):
    cs = []
    i = 0
    for nb, ws in ((1, (1, 2)), (2, (1, 2)), (3, (1,))):
        for cands, bl in gen.profiles_exhaustive(3, nb, [F(w) for w in ws]):
            for rule in RULES:
                i += 1
                if rule in ("Rating", "Approval"):
                    if nb == 3 or i % 4:
                        continue
                if nb == 3 and rule not in ("STV", "STV1", "IRV", "SequentialRCV", "Alaska", "Alaska1"):
                    continue
                if rule == "PluralityVeto" and (nb == 3 or any(len(r) < 3 for r, _ in bl)):
                    continue  # complete ballots only (its termination defect on other profiles is C01's known finding)
                if tier == "quick" and nb >= 2 and i % 3 and rule != "PluralityVeto":
                    continue
                cs.append((rule, cands, bl, 1 + i % 3, ("borda", "random", None)[i % 3]))
    # two candidates over the quota in the same round with different tallies (one-by-one seating then differs from simultaneous)
    j = 0
    for cands, bl in gen.profiles_exhaustive(3, 3, [F(1), F(3), F(4)]):
        if len({next(iter(r[0])) for r, _ in bl}) == 3 and sorted(w for _, w in bl) == [1, 3, 4]:
            j += 1
            if tier == "quick" and j % 3:
                continue
            for rule in ("Alaska1", "STV1", "STV"):
                cs.append((rule, cands, bl, 2, "borda"))
    if tier == "thorough":
        rng = random.Random(seed)
        for cands, bl in gen.profiles_random(rng, 2500, ncands_range=(3, 5), nballots_range=(2, 6)):
            for rule in ("STV", "STV1", "SequentialRCV", "Alaska", "TopTwo", "CondoBorda"):
                cs.append((rule, cands, bl, rng.randint(1, len(cands)), rng.choice(["borda", "random"])))
    return cs


def make(rule, cands, bl, m, tb):
    import votekit.elections as E
    from votekit.ballot import Ballot
    from votekit.pref_profile import PreferenceProfile
    prof = gen.mk_profile(cands, bl)
    if rule == "STV":
        return E.STV(prof, m=m, tiebreak=tb), prof, "fpv"
    if rule == "STV1":
        return E.STV(prof, m=m, simultaneous=False, tiebreak=tb), prof, "fpv"
    if rule == "IRV":
        return E.IRV(prof, tiebreak=tb), prof, "fpv"
    if rule == "SequentialRCV":
        return E.SequentialRCV(prof, m=m, tiebreak=tb), prof, "fpv"
    if rule == "Alaska":
        return E.Alaska(prof, m_1=max(m, 2), m_2=min(m, 2), tiebreak=tb), prof, "fpv"
    if rule == "Alaska1":
        return E.Alaska(prof, m_1=3, m_2=2, simultaneous=False, tiebreak=tb), prof, "fpv"
    if rule in ("Rating", "Approval"):
        prof = PreferenceProfile(ballots=tuple(Ballot(scores={c: 1 for s in r for c in s}, weight=w) for r, w in bl), candidates=tuple(cands))
        return build(rule, prof, m, tb)[0], prof, "scores"
    e, _ = build(rule, prof, m, tb)
    return e, prof, ("borda" if rule in ("Borda", "CondoBorda") else ("none" if rule == "DominatingSets" else "fpv"))


def snapshot(e):
    return [(s.round_number, tuple(s.remaining), tuple(s.elected), tuple(s.eliminated), dict(s.scores),
             {k: tuple(v) for k, v in s.tiebreaks.items()}) for s in e.election_states]


def check_case(case):
    rule, cands, bl, m, tb = case
    h = hash(str(case)) & 0xFFFF
    random.seed(h)
    import numpy as np
    np.random.seed(h)
    out = {"evals": 0, "key": (rule, m, tb, gen.canon(cands, bl)), "nontrivial": gen.nontrivial(cands, bl), "violations": []}
    desc = dict(gen.lit(cands, bl), rule=rule, m=m, tiebreak=tb)

    def viol(key, what):
        out["violations"].append({"key": f"C09:{rule}:" + key, "what": what + f" on {desc}", "input": desc})
    try:
        e, prof, scorer = make(rule, cands, bl, m, tb)
    except Exception:
        return out  # construction failures are C01/C20's subject
    L = len(e.election_states)
    snap0 = snapshot(e)
    random_used = [bool(s.tiebreaks) for s in e.election_states]
    # rounds whose replay involves a random choice: any recorded tiebreak up to that round (borda/first_place may fall back to random)
    out["evals"] += 1
    el_rec, elim_rec = [], []
    answers = {}
    for r in range(L):
        s = e.election_states[r]
        if tuple(s.elected) != oracle.PLACEHOLDER:
            el_rec = el_rec + list(s.elected)
        if tuple(s.eliminated) != oracle.PLACEHOLDER:
            elim_rec = list(reversed(s.eliminated)) + elim_rec
        try:
            got = (e.get_elected(r), e.get_eliminated(r), e.get_remaining(r), e.get_ranking(r))
        except Exception as ex:
            viol(f"query-raises:{type(ex).__name__}", f"round {r}: {ex!r}")
            continue
        if list(got[0]) != el_rec:
            viol("get_elected", f"round {r}: {got[0]} != records up to r {el_rec}")
        if list(got[1]) != elim_rec:
            viol("get_eliminated", f"round {r}: {got[1]} != {elim_rec}")
        if tuple(got[2]) != tuple(s.remaining):
            viol("get_remaining", f"round {r}: {got[2]} != {s.remaining}")
        exp_rank = [x for x in el_rec + list(s.remaining) + elim_rec if len(x)]
        if list(got[3]) != exp_rank:
            viol("get_ranking", f"round {r}: {got[3]} != {exp_rank}")
        answers[r] = got
        # negative index equivalence
        try:
            neg = (e.get_elected(r - L), e.get_eliminated(r - L), e.get_remaining(r - L), e.get_ranking(r - L))
            if neg != got:
                viol("negative-index", f"round {r - L} answers {neg} != round {r} answers {got}")
        except Exception as ex:
            viol(f"negative-index-raises:{type(ex).__name__}", f"round {r - L}: {ex!r}")
        # status df
        try:
            df = e.get_status_df(r)
            df2 = e.get_status_df(r - L)
            if not df.equals(df2):
                viol("get_status_df:negative-index", f"status for {r - L} differs from status for {r}")
            st = {c: (df.at[c, "Status"], int(df.at[c, "Round"])) for c in df.index}
            for c in cands:
                if c in [x for g in el_rec for x in g]:
                    want = "Elected"
                elif c in [x for g in elim_rec for x in g]:
                    want = "Eliminated"
                else:
                    want = "Remaining"
                if c not in st or st[c][0] != want:
                    viol("get_status_df:status", f"round {r}: {c} reported {st.get(c)} but records say {want}")
        except Exception as ex:
            viol(f"get_status_df-raises:{type(ex).__name__}", f"round {r}: {ex!r}")
        # replayed profile
        if not any(random_used[: r + 1]):
            try:
                p = e.get_profile(r)
                p2 = e.get_profile(r - L)
            except Exception as ex:
                viol(f"get_profile-raises:{type(ex).__name__}", f"round {r}: {ex!r}")
                continue
            remaining_c = sorted(c for g in s.remaining for c in g)
            if sorted(p.candidates) != remaining_c:
                viol("get_profile:candidates", f"round {r}: profile candidates {p.candidates} != remaining {remaining_c}")
            if oracle.W_profile(p) != oracle.W_profile(p2) or sorted(p.candidates) != sorted(p2.candidates):
                viol("get_profile:negative-index", f"round {r - L} differs from round {r}")
            if scorer != "none" and sorted(p.candidates) == remaining_c:
                Wd = oracle.W_profile(p)
                if scorer == "fpv":
                    sc = oracle.fpv(list(p.candidates), Wd)
                elif scorer == "borda":
                    # Borda keeps the score vector fixed at construction; CondoBorda re-derives it from the profile
                    vec = list(e.score_vector) if hasattr(e, "score_vector") else list(range(len(p.candidates), 0, -1))
                    sc = oracle.pos_scores(list(p.candidates), Wd, vec)
                else:
                    sc = None
                if sc is not None and dict(s.scores) != sc:
                    viol("get_profile:rescoring", f"round {r}: re-scored {sc} != recorded {dict(s.scores)}")
            stp = e.get_step(r)
            if stp[1] is not e.election_states[r]:
                viol("get_step", f"round {r}")
    for bad in (L, L + 3, -L - 1):
        for q in ("get_profile", "get_elected", "get_eliminated", "get_remaining", "get_ranking", "get_status_df", "get_step"):
            out["evals"] += 1
            try:
                getattr(e, q)(bad)
                viol(f"{q}:no-IndexError", f"index {bad} accepted (len {L})")
            except IndexError:
                pass
            except Exception as ex:
                viol(f"{q}:wrong-error:{type(ex).__name__}", f"index {bad}: {ex!r}")
    # purity under a query history
    rng = random.Random(h)
    hist = []
    for _ in range(12):
        q = rng.choice(["get_profile", "get_elected", "get_eliminated", "get_remaining", "get_ranking", "get_status_df", "get_step", "len", "str"])
        r = rng.randrange(-L, L)
        hist.append((q, r))
        try:
            if q == "len":
                len(e)
            elif q == "str":
                str(e)
            else:
                getattr(e, q)(r)
        except Exception as ex:
            if not any(random_used):
                viol(f"history:{q}-raises:{type(ex).__name__}", f"{q}({r}): {ex!r} after {hist}")
        out["evals"] += 1
        if snapshot(e) != snap0:
            viol(f"impure:{q}", f"{q}({r}) changed the recorded rounds (history {hist})")
            break
    if snapshot(e) == snap0:
        for r, got in answers.items():
            try:
                again = (e.get_elected(r), e.get_eliminated(r), e.get_remaining(r), e.get_ranking(r))
            except Exception as ex:
                viol("answers-change", f"round {r}: {ex!r}")
                continue
            if again != got:
                viol("answers-change", f"round {r}: {again} != {got} after history {hist}")
    if out["nontrivial"] and L > 2 and not out["violations"]:
        out["sample"] = dict(desc, rounds=L - 1, history=hist[:5])
    return out


def run(tier="quick", seed=0):
    return common.run("bounded.C09", cases(tier, seed), bound="3 candidates x <=3 ballots, 12-query histories (quick); <=5 x 6 random (thorough)",
                      rule=RULE, budget_s=600 if tier == "quick" else 1500)

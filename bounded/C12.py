"""Bounded stand-in for C12: ballot-editing utilities as weight-preserving pushforwards."""
from __future__ import annotations
import itertools
import math
import random
from fractions import Fraction as F
from . import gen, oracle, common

RULE = ("remove_cand on profiles / ballot tuples / single ballots (3 candidates, <=2 ballots with ties, weights {1,2,1/2}) x every "
        "removal set (none, some, all, an absent name) x condense x leave_zero_weight_ballots; add_missing_cands; cleaning.* on untied "
        "ballots with repeated candidates; expand_tied_ballot / resolve_profile_ties for every tie pattern on <=4 candidates "
        "(every linear extension exactly once, equal weights, fpv/Borda/pairwise totals unchanged); distinct = canonical input; "
        "non-trivial = >=2 ballots or a tie")


def cases(tier, seed):
    cs = []
    for nb, ws in ((1, (1, F(1, 2))), (2, (1, 2))):
        for cands, bl in gen.profiles_exhaustive(3, nb, [F(w) for w in ws], ties=True):
            cs.append(("remove", cands, bl))
    # candidate names contained in one another (a single name given as a str must be compared as a whole)
    sub = {"A": "Ann", "B": "Ann Lee", "C": "n"}
    j = 0
    for cands, bl in gen.profiles_exhaustive(3, 2, [F(1), F(2)], ties=True):
        j += 1
        if j % 5 == 0:
            cs.insert(0, ("remove", [sub[c] for c in cands], [(tuple(frozenset(sub[c] for c in s_) for s_ in r), w) for r, w in bl]))
    for cands, bl in gen.profiles_exhaustive(3, 2, [F(1), F(3, 2)], ties=False, distinct_rankings=False):
        cs.append(("clean", cands, bl))
    for n in (1, 2, 3, 4):
        for i, r in enumerate(gen.rankings(gen.NAMES[:n], ties=True, partial=(n < 4))):
            cs.append(("expand", gen.NAMES[:n], [(r, (F(3, 2), F(3, 1000003), F(7, 999983))[i % 3])]))
    # five and six candidates: ties of three or more followed / preceded by further ties
    fs = lambda x: frozenset(x)
    for i, r in enumerate([(fs("ABC"), fs("DE")), (fs("AB"), fs("CDE")), (fs("A"), fs("BCD"), fs("E")), (fs("ABC"), fs("D"), fs("EF")),
                           (fs("AB"), fs("CD"), fs("EF")), (fs("ABCD"), fs("EF")), (fs("ABC"), fs("DEF"))]):
        names = sorted({c for s_ in r for c in s_})
        cs.append(("expand", names, [(r, (F(3, 2), F(1), F(7, 999983))[i % 3])]))
    # ballots that list a candidate more than once (as raw cast vote records do)
    for cands, bl in gen.profiles_exhaustive(3, 1, [F(1), F(5, 3)], ties=False):
        (r, w), = bl
        for extra in cands:
            for pos in range(len(r) + 1):
                r2 = r[:pos] + (frozenset([extra]),) + r[pos:]
                if len({next(iter(s)) for s in r2}) < len(r2):
                    cs.append(("repeat", cands, [(r2, w)]))
    if tier == "thorough":
        rng = random.Random(seed)
        for cands, bl in gen.profiles_random(rng, 3000, ties=True):
            cs.append(("remove", cands, bl))
        for cands, bl in gen.profiles_random(rng, 1500, ties=False):
            cs.append(("clean", cands, bl))
    return cs


def linear_extensions(r):
    """all tuples of singletons consistent with the tied ranking r"""
    out = [()]
    for s in r:
        nxt = []
        for pre in out:
            for perm in itertools.permutations(sorted(s)):
                nxt.append(pre + tuple(frozenset([c]) for c in perm))
        out = nxt
    return out


def check_case(case):
    import votekit.utils as U
    import votekit.cleaning as C
    from votekit.ballot import Ballot
    from votekit.pref_profile import PreferenceProfile
    kind, cands, bl = case
    out = {"evals": 0, "key": (kind, gen.canon(cands, bl)), "violations": [],
           "nontrivial": len(bl) >= 2 or any(len(s) > 1 for r, _ in bl for s in r)}
    desc = gen.lit(cands, bl)

    def viol(key, what, extra=None):
        out["violations"].append({"key": "C12:" + key, "what": what + f" on {dict(desc, **(extra or {}))}", "input": dict(desc, **(extra or {}))})
    Wd = oracle.W_of(bl)
    if kind == "remove":
        prof = gen.mk_profile(cands, bl)
        removal_sets = [[]] + [list(c) for k in (1, 2, 3) for c in itertools.combinations(cands, k)] + [["Z"], ["A", "Z"]]
        for rem in removal_sets:
            exp = oracle.scrub_W(Wd, set(rem))
            for condense in (True, False):
                for leave in (False, True):
                    ex = {"removed": rem, "condense": condense, "leave_zero_weight_ballots": leave}
                    out["evals"] += 1
                    for form in ("profile", "tuple", "str"):
                        if form == "str" and len(rem) != 1:
                            continue
                        arg = rem[0] if form == "str" else list(rem)
                        try:
                            res = U.remove_cand(arg, prof if form != "tuple" else prof.ballots, condense, leave)
                        except Exception as e:
                            viol(f"remove_cand[{form}]:{type(e).__name__}", repr(e), ex)
                            continue
                        ballots = res.ballots if form != "tuple" else res
                        got = {k: v for k, v in oracle.W_of((b.ranking if b.ranking else (), b.weight) for b in ballots).items() if k}
                        if got != exp:
                            viol(f"remove_cand[{form}]:weights", f"got {got}, expected {exp}", ex)
                        if any(c in rem for b in ballots if b.ranking for s in b.ranking for c in s):
                            viol(f"remove_cand[{form}]:removed-candidate-present", "", ex)
                        empties = [b for b in ballots if not b.ranking and not b.scores]
                        if empties and not leave:
                            viol(f"remove_cand[{form}]:empty-ballot-kept", f"{len(empties)} empty ballots in result", ex)
                        if any(b.weight != 0 for b in empties):
                            viol(f"remove_cand[{form}]:empty-ballot-with-weight", "", ex)
                        if condense and len({b.ranking for b in ballots if b.ranking}) != len([b for b in ballots if b.ranking]):
                            viol(f"remove_cand[{form}]:not-condensed", "", ex)
                        if form != "tuple" and list(res.candidates) != [c for c in cands if c not in rem]:
                            viol(f"remove_cand[{form}]:candidates", f"{res.candidates}", ex)
            # single ballots
            for r, w in bl:
                b = Ballot(ranking=r, weight=w)
                k = oracle.scrub(r, set(rem))
                for leave in (False, True):
                    out["evals"] += 1
                    ex = {"removed": rem, "single_ballot": [sorted(s) for s in r], "leave_zero_weight_ballots": leave}
                    try:
                        nb = U.remove_cand(list(rem), b, True, leave)
                    except Exception as e:
                        cls = "ballot-left-empty" if not k else "other"
                        viol(f"remove_cand[ballot,{cls}]:{type(e).__name__}", repr(e), ex)
                        continue
                    if k:
                        if nb.ranking != k or nb.weight != w:
                            viol("remove_cand[ballot]:result", f"got {nb.ranking} w={nb.weight}, expected {k} w={w}", ex)
                    elif nb.ranking or nb.weight != 0:
                        viol("remove_cand[ballot]:exhausted-result", f"got {nb.ranking} w={nb.weight}", ex)
        # add_missing_cands
        out["evals"] += 1
        try:
            res = U.add_missing_cands(prof)
            exp = {}
            for r, w in Wd.items():
                miss = frozenset(c for c in cands if c not in [x for s in r for x in s])
                k = r + ((miss,) if miss else ())
                exp[k] = exp.get(k, F(0)) + w
            got = oracle.W_profile(res)
            if got != exp:
                viol("add_missing_cands:weights", f"got {got}, expected {exp}")
            if set(res.candidates) != set(cands):
                viol("add_missing_cands:candidates", f"{res.candidates}")
        except Exception as e:
            viol(f"add_missing_cands:{type(e).__name__}", repr(e))
    elif kind == "repeat":
        (r, w), = bl
        b = Ballot(ranking=r, weight=w)
        for rem in [[c] for c in cands] + [list(cands[:2])]:
            k = oracle.scrub(r, set(rem))
            out["evals"] += 1
            for form in ("ballot", "tuple"):
                try:
                    res = U.remove_cand(list(rem), b if form == "ballot" else (b,))
                except Exception as e:
                    if k:
                        viol(f"remove_cand[{form},repeated-candidate]:{type(e).__name__}", repr(e), {"removed": rem})
                    continue
                got = res.ranking if form == "ballot" else (res[0].ranking if res else ())
                if (got or ()) != k:
                    viol(f"remove_cand[{form},repeated-candidate]:result", f"removing {rem} from {[sorted(s) for s in r]} gave {got}, expected {k}", {"removed": rem})
    elif kind == "clean":
        # ballots with repeated candidates (as loaders produce): repeat the first candidate at the end
        bl2 = [(r + (r[0],) if i % 2 == 0 else r, w) for i, (r, w) in enumerate(bl)]
        bs = tuple(Ballot(ranking=r, weight=w) for r, w in bl2) + (Ballot(weight=F(2)),)
        prof = PreferenceProfile(ballots=bs, candidates=tuple(cands))

        def dedup(r):
            o = []
            for s in r:
                if s not in o:
                    o.append(s)
            return tuple(o)
        out["evals"] += 3
        try:
            res = C.remove_empty_ballots(prof, keep_candidates=True)
            if oracle.W_profile(res) != oracle.W_of(bl2) or tuple(res.candidates) != tuple(cands):
                viol("remove_empty_ballots", f"{oracle.W_profile(res)} != {oracle.W_of(bl2)}")
        except Exception as e:
            viol(f"remove_empty_ballots:{type(e).__name__}", repr(e))
        ranked = PreferenceProfile(ballots=bs[:-1], candidates=tuple(cands))
        try:
            res = C.deduplicate_profiles(ranked)
            exp = oracle.W_of((dedup(r), w) for r, w in bl2)
            if oracle.W_profile(res) != exp:
                viol("deduplicate_profiles:weights", f"{oracle.W_profile(res)} != {exp}")
        except Exception as e:
            viol(f"deduplicate_profiles:{type(e).__name__}", repr(e))
        for non in (["A"], ["A", "B"], ["Z"], list(cands)):
            out["evals"] += 1
            try:
                res = C.remove_noncands(ranked, non)
                exp = {}
                for r, w in bl2:
                    k = dedup(tuple(s for s in r if not (len(s) == 1 and next(iter(s)) in non)))
                    if k:
                        exp[k] = exp.get(k, F(0)) + w
                if oracle.W_profile(res) != exp:
                    viol("remove_noncands:weights", f"{oracle.W_profile(res)} != {exp}", {"non_cands": non})
            except Exception as e:
                viol(f"remove_noncands:{type(e).__name__}", repr(e), {"non_cands": non})
    else:
        (r, w), = bl
        b = Ballot(ranking=r, weight=w)
        out["evals"] += 1
        try:
            res = U.expand_tied_ballot(b)
        except Exception as e:
            viol(f"expand_tied_ballot:{type(e).__name__}", repr(e))
            return out
        exts = linear_extensions(r)
        got = [x.ranking for x in res]
        if sorted(map(str, got)) != sorted(map(str, exts)):
            viol("expand_tied_ballot:extensions", f"got {len(got)} ballots, expected each of the {len(exts)} linear extensions once")
        if any(x.weight != w / len(exts) for x in res) or sum((x.weight for x in res), F(0)) != w:
            viol("expand_tied_ballot:weights", f"{[str(x.weight) for x in res]}")
        prof = PreferenceProfile(ballots=(b, Ballot(ranking=(frozenset([cands[0]]),), weight=F(1))), candidates=tuple(cands))
        try:
            rp = U.resolve_profile_ties(prof)
            W1 = oracle.W_profile(prof)
            W2 = oracle.W_profile(rp)
            if oracle.fpv(cands, W1) != oracle.fpv(cands, W2) or oracle.borda(cands, W1) != oracle.borda(cands, W2):
                viol("resolve_profile_ties:totals", f"fpv/borda changed: {oracle.fpv(cands, W2)} {oracle.borda(cands, W2)}")
            if oracle.total(W1) != oracle.total(W2):
                viol("resolve_profile_ties:total-weight", "")
        except Exception as e:
            viol(f"resolve_profile_ties:{type(e).__name__}", repr(e))
    if out["nontrivial"] and not out["violations"]:
        out["sample"] = dict(desc, kind=kind)
    return out


def run(tier="quick", seed=0):
    return common.run("bounded.C12", cases(tier, seed), bound="3 candidates x <=2 ballots (ties) x all removal sets x flags; tie patterns <=4 candidates",
                      rule=RULE, budget_s=600 if tier == "quick" else 1200)

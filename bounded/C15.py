"""Bounded stand-in for C15: closed-form model probabilities against their definitions (exact rational
re-computation; tolerance = float rounding only)."""
from __future__ import annotations
import itertools
import math
import random
from fractions import Fraction as F
from . import common

RULE = ("preference intervals of 1..6 candidates with supports from {0, 1e-9, 1e-6, 1e-3, 0.2, 1, 7, 1000} (grid + seeded random), "
        "combine_preference_intervals with 1-3 intervals and cohesion shares incl. 0 and 1, name_BradleyTerry pdf for 2..6 candidates "
        "(all rankings), slate_BradleyTerry ballot-type pdf for slate sizes 1..3 x 1..3 and cohesion in {0.05,0.2,0.5,0.8,1}; each table "
        "compared entry by entry with the defining formula evaluated in exact rationals (relative tolerance 1e-9); distinct = parameter set; "
        "non-trivial = >=2 supported candidates with different supports")

SUPPORTS = [0, 1e-9, 1e-6, 1e-3, 0.2, 1, 7, 1000]
TOL = 1e-9


def cases(tier, seed):
    rng = random.Random(seed)
    cs = []
    for n in range(1, 5):
        for combo in itertools.combinations_with_replacement(SUPPORTS, n):
            if n == 4 and tier == "quick" and rng.random() < 0.6:
                continue
            cs.append(("interval", combo))
    for n in (5, 6):
        for _ in range(20 if tier == "quick" else 200):
            cs.append(("interval", tuple(rng.choice(SUPPORTS) for _ in range(n))))
    for _ in range(150 if tier == "quick" else 1500):
        k = rng.randint(1, 3)
        ivs = [tuple(rng.choice(SUPPORTS) for _ in range(rng.randint(1, 3))) for _ in range(k)]
        props = [rng.choice([0, 0.1, 0.3, 0.5, 1]) for _ in range(k)]
        cs.append(("combine", ivs, props))
    for n in range(2, 7):
        for _ in range((12 if n < 6 else 3) if tier == "quick" else 60):
            cs.append(("bt", tuple(rng.choice([1e-6, 1e-3, 0.2, 1, 7, 1000, 0.31, 0.05]) for _ in range(n)), rng.choice([0, 1])))
    cs.append(("bt-pair", (1, 2e-7, 1e-7), (1, 1e-7, 2e-7)))
    cs.append(("bt-pair", (0.5, 0.3000001, 0.2), (0.5, 0.3000004, 0.2)))
    # several blocs in one generator: each bloc's table comes from its own interval, however close the intervals are
    cs.append(("bt-blocs", (0.5, 0.5 - 2e-9, 2e-9), (0.5, 0.5 - 8e-9, 8e-9)))
    cs.append(("bt-blocs", (1, 2, 3), (1, 2, 3.0000001)))
    cs.append(("bt-blocs", (0.2, 0.3, 0.5), (0.5, 0.3, 0.2)))
    for a in (1, 2, 3):
        for b in (1, 2, 3):
            for c in (0.05, 0.2, 0.5, 0.8, 1.0):
                for c2 in (0.3, 1.0):
                    cs.append(("sbt", a, b, c, c2))
                    if a + b <= 4:
                        cs.append(("sbt", a, b, c, c2, "zero-support"))  # a listed candidate without support does not enter the comparison counts
    return cs


def close(x, y):
    return abs(x - y) <= TOL * max(1e-300, abs(x), abs(y))


def check_case(case):
    from votekit.pref_interval import PreferenceInterval, combine_preference_intervals
    import votekit.ballot_generator as bg
    out = {"evals": 1, "key": repr(case), "nontrivial": True, "violations": []}

    def viol(key, what):
        out["violations"].append({"key": "C15:" + key, "what": what + f" on case {case!r}", "input": repr(case)})
    kind = case[0]
    if kind == "interval":
        sup = case[1]
        names = [f"c{i}" for i in range(len(sup))]
        d = dict(zip(names, sup))
        out["nontrivial"] = len({s for s in sup if s > 0}) >= 2
        tot = sum(F(s) for s in sup)
        try:
            pi = PreferenceInterval(dict(d))
        except ZeroDivisionError:
            if tot != 0:
                viol("interval:ZeroDivisionError", "positive supports rejected")
            return out
        except Exception as ex:
            viol(f"interval:{type(ex).__name__}", repr(ex))
            return out
        if tot == 0:
            viol("interval:all-zero-accepted", "no ZeroDivisionError")
            return out
        zero = frozenset(c for c, s in d.items() if s == 0)
        if pi.zero_cands != zero or pi.non_zero_cands != frozenset(d) - zero:
            viol("interval:zero-support-sets", f"zero_cands {set(pi.zero_cands)} non_zero {set(pi.non_zero_cands)} for supports {d}")
        if set(pi.interval) != set(d) - zero:
            viol("interval:keys", f"{dict(pi.interval)}")
        else:
            for c in pi.interval:
                if not close(pi.interval[c], float(F(d[c]) / tot)):
                    viol("interval:value", f"{c}: {pi.interval[c]} != {float(F(d[c]) / tot)}")
            if not close(sum(pi.interval.values()), 1.0):
                viol("interval:sum", f"{sum(pi.interval.values())}")
        return out
    if kind == "combine":
        _, ivs, props = case
        pis = []
        k = 0
        for iv in ivs:
            d = {}
            for s in iv:
                d[f"c{k}"] = s
                k += 1
            if sum(d.values()) == 0:
                return out
            pis.append((d, PreferenceInterval(dict(d))))
        okprops = round(sum(props), 8) == 1
        try:
            comb = combine_preference_intervals([p for _, p in pis], list(props))
        except ValueError:
            if okprops:
                viol("combine:unexpected-ValueError", "disjoint intervals, shares sum to 1")
            return out
        except ZeroDivisionError:
            return out
        except Exception as ex:
            viol(f"combine:{type(ex).__name__}", repr(ex))
            return out
        if not okprops:
            viol("combine:shares-not-summing-to-1-accepted", f"{props}")
            return out
        exp = {}
        for (d, _), pr in zip(pis, props):
            t = sum(F(s) for s in d.values())
            for c, s in d.items():
                exp[c] = F(s) / t * F(pr)
        T = sum(exp.values())
        zero = frozenset(c for c, v in exp.items() if v == 0)
        if comb.zero_cands != zero:
            viol("combine:zero_cands", f"{set(comb.zero_cands)} != {set(zero)}")
        if comb.non_zero_cands != frozenset(exp) - zero:
            viol("combine:non_zero_cands", f"{set(comb.non_zero_cands)}")
        for c, v in exp.items():
            if v > 0 and (c not in comb.interval or not close(comb.interval[c], float(v / T))):
                viol("combine:value", f"{c}: {comb.interval.get(c)} != {float(v / T)}")
        return out
    if kind == "bt-pair":
        # consecutive table computations in one process must not influence each other
        for sup in case[1:]:
            sub = check_case(("bt", tuple(sup), 0))
            out["violations"] += [dict(v, key=v["key"] + "[second-computation]") for v in sub["violations"]]
        return out
    if kind == "bt-blocs":
        # two blocs X, Y; slate X = {x0}, slate Y = the listed supports; each bloc has its own view of slate Y
        sups = case[1:]
        blocs = ["X", "Y"][:len(sups)]
        ynames = [f"y{i}" for i in range(len(sups[0]))]
        views = {b: {"X": {"x0": 1.0}, "Y": dict(zip(ynames, sp))} for b, sp in zip(blocs, sups)}
        coh = {b: {"X": 0.5, "Y": 0.5} for b in blocs}
        gen = bg.name_BradleyTerry(candidates=["x0"] + ynames,
                                   pref_intervals_by_bloc={b: {s_: PreferenceInterval(dict(raw)) for s_, raw in v.items()} for b, v in views.items()},
                                   bloc_voter_prop={b: 1 / len(blocs) for b in blocs}, cohesion_parameters=coh)
        for b in blocs:
            x = {}
            for s_, raw_ in views[b].items():
                t = sum(F(v) for v in raw_.values())
                for c, v in raw_.items():
                    x[c] = F(coh[b][s_]) * F(v) / t
            raw = {}
            for perm in itertools.permutations(list(x)):
                pr = F(1)
                for i_ in range(len(perm)):
                    for j_ in range(i_ + 1, len(perm)):
                        pr *= x[perm[i_]] / (x[perm[i_]] + x[perm[j_]])
                raw[perm] = pr
            Z = sum(raw.values())
            pdf = gen.pdfs_by_bloc[b]
            for perm, pr in raw.items():
                if perm not in pdf or not close(pdf[perm], float(pr / Z)):
                    viol("bt:value[several-blocs]", f"bloc {b} (slate-Y supports {views[b]['Y']}) {perm}: {pdf.get(perm)} != {float(pr / Z)}")
                    break
        return out
    if kind == "bt":
        _, sup, with_zero = case
        names = [f"c{i}" for i in range(len(sup))]
        d = dict(zip(names, sup))
        if with_zero:
            d["z"] = 0
        out["nontrivial"] = len(set(sup)) >= 2
        pi = PreferenceInterval(dict(d))
        gen = bg.name_BradleyTerry(candidates=list(d), pref_intervals_by_bloc={"X": {"X": pi}}, bloc_voter_prop={"X": 1},
                                   cohesion_parameters={"X": {"X": 1}})
        pdf = gen.pdfs_by_bloc["X"]
        x = {c: F(s) for c, s in zip(names, sup)}
        raw = {}
        for perm in itertools.permutations(names):
            p = F(1)
            for i in range(len(perm)):
                for j in range(i + 1, len(perm)):
                    p *= x[perm[i]] / (x[perm[i]] + x[perm[j]])
            raw[perm] = p
        Z = sum(raw.values())
        if set(pdf) != set(raw):
            viol("bt:support", f"{len(pdf)} rankings in table, {len(raw)} expected")
            return out
        for perm, p in raw.items():
            if not close(pdf[perm], float(p / Z)):
                viol("bt:value", f"{perm}: {pdf[perm]} != {float(p / Z)}")
                break
        if not close(sum(pdf.values()), 1.0):
            viol("bt:sum", f"{sum(pdf.values())}")
        return out
    if kind == "sbt":
        _, a, b, c, c2 = case[:5]
        s2c = {"A": [f"a{i}" for i in range(a)], "B": [f"b{i}" for i in range(b)]}
        pis = {bl: {"A": PreferenceInterval({x: 1 + i for i, x in enumerate(s2c["A"])}), "B": PreferenceInterval({x: 2 + i for i, x in enumerate(s2c["B"])})} for bl in "AB"}
        if len(case) > 5:
            s2c = {"A": s2c["A"] + ["az"], "B": s2c["B"] + ["bz"]}
            pis = {bl: {"A": PreferenceInterval(dict({x: 1 + i for i, x in enumerate(s2c["A"][:-1])}, az=0)),
                        "B": PreferenceInterval(dict({x: 2 + i for i, x in enumerate(s2c["B"][:-1])}, bz=0))} for bl in "AB"}
        coh = {"A": {"A": c, "B": 1 - c}, "B": {"B": c2, "A": 1 - c2}}
        try:
            gen = bg.slate_BradleyTerry(slate_to_candidates=s2c, pref_intervals_by_bloc=pis, bloc_voter_prop={"A": 0.5, "B": 0.5}, cohesion_parameters=coh)
        except ZeroDivisionError:
            return out
        for bloc, opp, ch in (("A", "B", c), ("B", "A", c2)):
            pdf = gen.ballot_type_pdf[bloc]
            types_ = set(itertools.permutations(["A"] * a + ["B"] * b))
            raw = {}
            for t in types_:
                own_above = sum(t[i + 1:].count(opp) for i, s in enumerate(t) if s == bloc)
                opp_above = sum(t[i + 1:].count(bloc) for i, s in enumerate(t) if s == opp)
                raw[t] = F(ch).limit_denominator(10 ** 6) ** own_above * (1 - F(ch).limit_denominator(10 ** 6)) ** opp_above
            Z = sum(raw.values())
            if Z == 0:
                continue
            if set(pdf) != types_:
                viol("sbt:support", f"bloc {bloc}: {len(pdf)} types, {len(types_)} expected")
                continue
            for t, p in raw.items():
                if not close(pdf[t], float(p / Z)):
                    viol("sbt:value", f"bloc {bloc} type {t}: {pdf[t]} != {float(p / Z)} (cohesion {ch})")
                    break
            if not close(sum(pdf.values()), 1.0):
                viol("sbt:sum", f"{sum(pdf.values())}")
        return out
    return out


def run(tier="quick", seed=0):
    r = common.run("bounded.C15", cases(tier, seed), bound="intervals <=6 candidates, BT tables <=6 candidates (720 rankings), slate sizes <=3x3",
                   rule=RULE, budget_s=600 if tier == "quick" else 1200)
    r["assumptions"].append("machine floats compared with exact rationals up to relative 1e-9 (A-FLOAT)")
    return r

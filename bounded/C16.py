"""Bounded stand-in for C16: the generators' random draws are checked at the call sites of the RNG
primitives (population, probability vector aligned with the population, replace flag, size) against the
model's prescription, the Markov kernels are probed exactly (acceptance probability of every adjacent swap
against min(1, pi(swap)/pi(current))), the cohesion ballot-type sampler is driven with scripted draws, and the
spatial generators' rankings are recomputed from the returned positions.  (Assumes the documented laws of
numpy.random.choice / random.choices / random.random: A-LIB.)"""
from __future__ import annotations
import itertools
import random
from fractions import Fraction as F
from . import common, gens

RULE = ("call-site audit of every np.random.choice / random.choices call made by name_PlackettLuce, short_name_PlackettLuce, "
        "name_Cumulative, name_BradleyTerry, slate_PlackettLuce, slate_BradleyTerry, AlternatingCrossover, CambridgeSampler, "
        "BallotSimplex.from_point on the C14 parameter grid (N in {2,5}); exact acceptance probabilities of both MCMC kernels for every "
        "state and adjacent swap on <=4 candidates / slate sizes <=2x2; sample_cohesion_ballot_types under scripted uniform draws "
        "(every path of the choice tree for slate sizes <=2x2); Spatial/OneDimSpatial/ClusteredSpatial rankings recomputed from positions; "
        "distinct = (generator, parameter set); non-trivial = >=2 supported candidates")

TOL = 1e-9


def cases(tier, seed):
    cs = []
    pss = gens.param_sets(tier, seed)
    for pi, ps in enumerate(pss):
        for name in ("name_PlackettLuce", "short_name_PlackettLuce", "name_Cumulative", "name_BradleyTerry", "slate_PlackettLuce",
                     "slate_BradleyTerry", "AlternatingCrossover", "CambridgeSampler", "BallotSimplex.from_point",
                     "kernel:name_BT", "kernel:slate_BT", "cohesion-types", "Spatial", "OneDimSpatial", "ClusteredSpatial"):
            if name in ("AlternatingCrossover", "CambridgeSampler", "kernel:slate_BT") and len(ps["blocs"]) != 2:
                continue
            if name == "slate_BradleyTerry" and len(ps["blocs"]) > 2:
                continue
            cs.append((name, pi))
    return cs


def combined(ps, bloc):
    d = {}
    for s in ps["blocs"]:
        t = sum(F(str(v)) for v in ps["sup"][bloc][s].values())
        for c, v in ps["sup"][bloc][s].items():
            d[c] = F(str(ps["coh"][bloc][s])) * F(str(v)) / t
    T = sum(d.values())
    return {c: v / T for c, v in d.items()}


def slate_interval(ps, bloc, s):
    t = sum(F(str(v)) for v in ps["sup"][bloc][s].values())
    return {c: F(str(v)) / t for c, v in ps["sup"][bloc][s].items()}


_PS = {}


def check_case(case):
    import numpy as np
    import votekit.ballot_generator as bg
    name, pi = case
    key = (common.os.environ.get("VERIF_TIER", "quick"), int(common.os.environ.get("VERIF_SEED", "0") or 0))
    if key not in _PS:
        _PS[key] = gens.param_sets(*key)
    ps = _PS[key][pi]
    random.seed(pi)
    np.random.seed(pi)
    out = {"evals": 0, "key": (name, pi), "nontrivial": True, "violations": []}
    desc = {"check": name, "params": {k: ps[k] for k in ("s2c", "props", "coh", "sup")}}

    def viol(k, what):
        out["violations"].append({"key": f"C16:{name}:" + k, "what": what + f" on {desc}", "input": desc})
    calls = []
    real_choice = np.random.choice
    real_choices = random.choices

    def rec_choice(a, size=None, replace=True, p=None):
        calls.append(("np.choice", list(a) if not isinstance(a, (int, np.integer)) else int(a), size, replace, None if p is None else [float(x) for x in p]))
        return real_choice(a, size=size, replace=replace, p=p)

    def rec_choices(population, weights=None, *, cum_weights=None, k=1):
        calls.append(("random.choices", list(population), k, True, None if weights is None else [float(x) for x in weights]))
        return real_choices(population, weights=weights, cum_weights=cum_weights, k=k)

    def aligned(a, p, expected, what):
        """p[i] must be the model probability of a[i]"""
        if p is None:
            viol(f"{what}:no-probabilities", "uniform draw where the model prescribes weights")
            return False
        if len(a) != len(p):
            viol(f"{what}:length", f"population {a} vs p {p}")
            return False
        if set(map(str, a)) != set(expected):
            viol(f"{what}:population", f"population {a} != supported candidates {sorted(expected)}")
            return False
        for x, q in zip(a, p):
            if abs(q - float(expected[str(x)])) > TOL:
                viol(f"{what}:misaligned-probabilities", f"p of {x} is {q}, model prescribes {float(expected[str(x)])} (population {a}, p {p})")
                return False
        return True
    try:
        if name in ("name_PlackettLuce", "short_name_PlackettLuce", "name_Cumulative", "name_BradleyTerry", "slate_PlackettLuce",
                    "slate_BradleyTerry", "AlternatingCrossover", "CambridgeSampler", "BallotSimplex.from_point"):
            ncand = sum(len(v) for v in ps["s2c"].values())
            extra = max(1, ncand - 1) if name == "short_name_PlackettLuce" else (3 if name == "name_Cumulative" else None)
            gen = gens.build(name, ps, extra)
            np.random.choice = rec_choice
            random.choices = rec_choices
            try:
                for N in (2, 5):
                    calls.clear()
                    try:
                        gens.generate(name, gen, N, by_bloc=False)
                    except Exception:
                        break  # C14's subject
                    out["evals"] += len(calls)
                    audit_calls(name, ps, gen, calls, N, extra, aligned, viol, combined, slate_interval)
            finally:
                np.random.choice = real_choice
                random.choices = real_choices
        elif name == "kernel:name_BT":
            kernel_name_bt(ps, bg, viol, out)
        elif name == "kernel:slate_BT":
            kernel_slate_bt(ps, bg, viol, out)
        elif name == "cohesion-types":
            cohesion_types(ps, bg, viol, out)
        else:
            spatial(name, ps, viol, out)
    except Exception as ex:
        import traceback
        raise RuntimeError(f"C16 harness error in {name}: {ex!r}\n{traceback.format_exc(limit=4)}")
    if not out["violations"]:
        out["sample"] = {"check": name, "calls_audited": out["evals"]}
    return out


def audit_calls(name, ps, gen, calls, N, extra, aligned, viol, combined, slate_interval):
    blocs = ps["blocs"]
    if name in ("name_PlackettLuce", "short_name_PlackettLuce", "name_Cumulative"):
        # calls arrive bloc by bloc; every call's (a, p) must be some bloc's combined interval restricted to its support
        exp_by_bloc = {b: {c: v for c, v in combined(ps, b).items() if v > 0} for b in blocs}
        sizes = gens.hh([ps["props"][b] for b in blocs], N)
        seq = [b for b, n in zip(blocs, sizes) for _ in range(n)]
        main = [c for c in calls if c[4] is not None]
        if len(main) != N:
            viol("number-of-draws", f"{len(main)} weighted draws for N={N}")
            return
        for bloc, (_, a, size, replace, p) in zip(seq, main):
            if not aligned(a, p, exp_by_bloc[bloc], f"bloc {bloc}"):
                return
            want_replace = name == "name_Cumulative"
            if bool(replace) != want_replace:
                viol("replace-flag", f"replace={replace}, model prescribes {'with' if want_replace else 'without'} replacement")
                return
            want_size = extra if name == "name_Cumulative" else min(extra if name == "short_name_PlackettLuce" else len(exp_by_bloc[bloc]), len(exp_by_bloc[bloc]))
            if int(size) != want_size:
                viol("sample-size", f"size={size}, expected {want_size}")
                return
    elif name == "name_BradleyTerry":
        for _, a, size, replace, p in calls:
            tables = [list(t.values()) for t in gen.pdfs_by_bloc.values()]
            if p is None or not any(len(p) == len(t) and all(abs(x - y) < TOL for x, y in zip(p, t)) for t in tables):
                viol("draw-not-from-pdf-table", f"p (len {0 if p is None else len(p)}) is not a bloc's Bradley-Terry table in table order")
                return
            if not isinstance(a, int) or any(a != len(t) for t in tables if len(t) == len(p)):
                viol("population", f"a={a}")
    elif name in ("slate_PlackettLuce", "slate_BradleyTerry"):
        for _, a, size, replace, p in calls:
            if isinstance(a, int):
                tables = [list(t.values()) for t in getattr(gen, "ballot_type_pdf", {}).values()]
                if p is None or not any(len(p) == len(t) and all(abs(x - y) < TOL for x, y in zip(p, t)) for t in tables):
                    viol("type-draw-not-from-pdf-table", "ballot types not drawn from the bloc's ballot_type_pdf")
                    return
                continue
            # within-slate order: Plackett-Luce on SOME voter bloc's interval for that slate; the voter bloc is identified by order of calls
            ok = False
            for b in ps["blocs"]:
                for s in ps["blocs"]:
                    exp = {c: v for c, v in slate_interval(ps, b, s).items() if v > 0}
                    if set(map(str, a)) == set(exp) and p is not None and len(p) == len(a) and all(abs(q - float(exp[str(x)])) < TOL for x, q in zip(a, p)):
                        ok = True
            if not ok:
                viol("within-slate-draw-misaligned", f"population {a} with p {p} is no voter bloc's interval for a slate")
                return
            if replace or int(size) != len(a):
                viol("within-slate-draw-not-a-full-PL-order", f"size={size} replace={replace}")
                return
        # voter-bloc attribution: calls come bloc by bloc, 'len(blocs)' within-slate draws per ballot
        sizes = gens.hh([ps["props"][b] for b in blocs], N)
        within = [c for c in calls if not isinstance(c[1], int)]
        idx = 0
        for bloc, n in zip(blocs, sizes):
            for _ in range(n):
                for s in blocs:
                    exp = {c: v for c, v in slate_interval(ps, bloc, s).items() if v > 0}
                    if not exp:
                        continue
                    if idx >= len(within):
                        return
                    _, a, size, replace, p = within[idx]
                    idx += 1
                    if set(map(str, a)) != set(exp) or any(abs(q - float(exp[str(x)])) > TOL for x, q in zip(a, p)):
                        viol("within-slate-draw-uses-another-blocs-interval", f"ballot of bloc {bloc}, slate {s}: population {a}, p {p}; the bloc's interval is {({k: float(v) for k, v in exp.items()})}")
                        return
    elif name == "AlternatingCrossover":
        for k, (_, a, size, replace, p) in enumerate(calls):
            ok = False
            for b in blocs:
                for s in blocs:
                    exp = {c: v for c, v in slate_interval(ps, b, s).items() if v > 0}
                    if set(map(str, a)) == set(exp) and p is not None and all(abs(q - float(exp[str(x)])) < TOL for x, q in zip(a, p)):
                        ok = True
            if not ok:
                viol("within-slate-draw-misaligned", f"draw #{k}: population {a} with p {p}: p[i] is not the interval value of a[i] (the population list was re-ordered by an earlier draw)")
                return
    elif name == "CambridgeSampler":
        # the full order is drawn by Plackett-Luce from a combined interval and then filtered by slate; restricted to one
        # slate that is Plackett-Luce on the bloc's interval for the slate iff p is proportional to it inside the slate
        for kind, a, size, replace, p in calls:
            if kind != "np.choice":
                continue
            if replace or p is None or len(p) != len(a):
                viol("PL-draw-shape", f"size={size} replace={replace}")
                return
            ok = False
            for b in blocs:
                good = True
                for s_ in blocs:
                    exp = {c: float(v) for c, v in slate_interval(ps, b, s_).items() if v > 0}
                    got = {str(x): q for x, q in zip(a, p) if str(x) in exp}
                    if set(got) != set(exp):
                        good = False
                        break
                    tot = sum(got.values())
                    if tot <= 0 or any(abs(got[c] / tot - exp[c]) > 1e-9 for c in exp):
                        good = False
                        break
                ok = ok or good
            if not ok:
                viol("within-slate-law-not-PL", f"population {a} p {p}: inside a slate p is not proportional to any voter bloc's interval for that slate")
                return
    elif name == "BallotSimplex.from_point":
        for _, a, size, replace, p in calls:
            n = len(gen.candidates)
            perms = list(itertools.permutations(gen.candidates))
            raw = [1.0] * len(perms)
            for i, pm in enumerate(perms):
                for c in pm:
                    raw[i] *= gen.point[c]
            Z = sum(raw)
            if p is None or len(p) != len(perms) or any(abs(x - y / Z) > TOL for x, y in zip(p, raw)):
                viol("draw-probabilities", "p is not the normalised product of the point's values over the rankings in enumeration order")


def kernel_name_bt(ps, bg, viol, out):
    from votekit.ballot import Ballot
    from votekit.pref_interval import PreferenceInterval
    bloc = ps["blocs"][0]
    x = {c: float(v) for c, v in combined(ps, bloc).items() if v > 0}
    cands = list(x)[:4]
    if len(cands) < 2:
        return
    x = {c: x[c] for c in cands}
    gen = bg.name_BradleyTerry(candidates=cands, pref_intervals_by_bloc={"X": {"X": PreferenceInterval(dict(x))}}, bloc_voter_prop={"X": 1},
                               cohesion_parameters={"X": {"X": 1}})
    T = sum(x.values())
    xi = {c: v / T for c, v in x.items()}
    rc, rr = random.choices, random.random
    try:
        for perm in itertools.permutations(cands):
            for j in range(len(cands) - 1):
                a, b = perm[j], perm[j + 1]
                want = min(1.0, xi[b] / xi[a])  # pi(swap)/pi(cur) = x_b/x_a for an adjacent swap under Bradley-Terry
                for u, should in ((want - 1e-7, True), (want + 1e-7, False)) if want < 1 else ((0.999999, True),):
                    if u < 0:
                        continue
                    random.choices = lambda population, weights=None, cum_weights=None, k=1: [j] * k
                    random.random = lambda: u
                    seed = Ballot(ranking=tuple(frozenset([c]) for c in perm))
                    pp = gen._BT_mcmc(1, xi, seed)
                    out["evals"] += 1
                    got = tuple(next(iter(s)) for s in pp.ballots[0].ranking)
                    swapped = got != perm
                    exp_swapped = tuple(perm[:j] + (b, a) + perm[j + 2:])
                    if swapped != should or (swapped and got != exp_swapped):
                        viol("acceptance-probability", f"state {perm}, swap positions ({j},{j + 1}), u={u}: {'swapped' if swapped else 'stayed'} "
                                                       f"-> {got}; Metropolis acceptance is min(1, {xi[b]}/{xi[a]}) = {want}")
                        return
    finally:
        random.choices, random.random = rc, rr


def kernel_slate_bt(ps, bg, viol, out):
    import numpy as np
    if any(ps["coh"][b][b] in (0.0, 1.0) for b in ps["blocs"]):
        return  # cohesion 0 divides by zero in the sampler (C14's known finding); 1 makes pi vanish on most types
    sizes = {b: min(2, len(ps["s2c"][b])) for b in ps["blocs"]}
    s2c = {b: ps["s2c"][b][: sizes[b]] for b in ps["blocs"]}
    from votekit.pref_interval import PreferenceInterval
    pis = {b: {s: PreferenceInterval({c: 1.0 for c in s2c[s]}) for s in ps["blocs"]} for b in ps["blocs"]}
    gen = bg.slate_BradleyTerry(slate_to_candidates=s2c, pref_intervals_by_bloc=pis, bloc_voter_prop=dict(ps["props"]),
                                cohesion_parameters={b: dict(v) for b, v in ps["coh"].items()})
    rch, rr = np.random.choice, random.random
    try:
        for bloc in ps["blocs"]:
            pdf = gen.ballot_type_pdf[bloc]
            seed_type = [b for b in gen.blocs for _ in range(sizes[b])]
            for t in sorted(set(itertools.permutations(seed_type))):
                for j in range(len(t) - 1):
                    t2 = t[:j] + (t[j + 1], t[j]) + t[j + 2:]
                    if pdf[t] == 0:
                        continue
                    want = min(1.0, pdf[t2] / pdf[t])
                    for u, should in ((want - 1e-7, True), (want + 1e-7, False)) if want < 1 else ((0.999999, True),):
                        if u < 0:
                            continue
                        np.random.choice = lambda a, size=None, replace=True, p=None: np.array([j] * (size or 1))
                        random.random = lambda: u
                        # the sampler starts from its own seed type; drive it there is impossible, so temporarily present the state as the seed
                        orig_blocs = gen.blocs
                        try:
                            res = run_slate_step(gen, bloc, list(t))
                        finally:
                            gen.blocs = orig_blocs
                        out["evals"] += 1
                        if res is None:
                            return
                        swapped = tuple(res) != t
                        if t2 == t:
                            continue
                        if swapped != should:
                            direction = "own-above-opposing -> opposing-above-own" if t[j] == bloc else "opposing-above-own -> own-above-opposing"
                            viol(f"acceptance-probability[{direction}]",
                                 f"bloc {bloc} (cohesion {ps['coh'][bloc][bloc]}), type {t}, swap ({j},{j + 1}), u={u}: {'swapped' if swapped else 'stayed'}; "
                                 f"Metropolis acceptance is min(1, pi(swap)/pi(current)) = {want}")
                            return
    finally:
        np.random.choice, random.random = rch, rr


def run_slate_step(gen, bloc, state):
    """one step of slate_BradleyTerry._sample_ballot_types_MCMC from an arbitrary state: the method builds its start
    state from self.blocs and the interval sizes; we present `state` through a blocs list / interval sizes that spell it"""
    class _PI:
        def __init__(self, n):
            self.non_zero_cands = list(range(n))
    saved_blocs, saved_pis = gen.blocs, gen.pref_intervals_by_bloc
    try:
        # spell the state as consecutive runs: blocs list with repeated names, each run of length 1
        gen.blocs = list(state)
        gen.pref_intervals_by_bloc = {bloc: _Runs()}
        res = gen._sample_ballot_types_MCMC(bloc, 1)
        return res[0]
    finally:
        gen.blocs, gen.pref_intervals_by_bloc = saved_blocs, saved_pis


class _Runs(dict):
    """pref_intervals_by_bloc[bloc][b].non_zero_cands has length 1 for every b: `[b for b in self.blocs for _ in range(1)]` == blocs"""

    def __getitem__(self, k):
        class P:
            non_zero_cands = [0]
        return P()


def cohesion_types(ps, bg, viol, out):
    import numpy as np
    blocs = ps["blocs"]
    sizes = {b: min(2, len(ps["s2c"][b])) for b in blocs}
    slate = {b: [f"{b}{i}" for i in range(sizes[b])] for b in blocs}
    bloc = blocs[0]
    coh = {s: float(ps["coh"][bloc][s]) for s in blocs}
    total = sum(sizes.values())
    ru = np.random.uniform
    try:
        # explore the choice tree: at each position pick a slate that still has candidates, with its renormalised share
        def explore(prefix, remaining, prob, flips, at=0.5):
            if len(prefix) == total:
                yield tuple(prefix), prob, list(flips)
                return
            live = [s for s in blocs if remaining[s] > 0]
            shares = {s: coh[s] for s in live}
            Z = sum(shares.values())
            if Z == 0:
                return  # remaining slates have zero share: the sampler fills the rest in a random order
            lo = 0.0
            for s in live:
                w = shares[s] / Z
                if w > 0:
                    mid = lo + w * at
                    rem2 = dict(remaining)
                    rem2[s] -= 1
                    yield from explore(prefix + [s], rem2, prob * w, flips + [mid], at)
                lo += w
        # draws in the middle of each slate's bin and close to both of its edges (the edges move when shares are renormalised wrongly)
        for typ, prob, flips in [t for at in (0.5, 0.02, 0.98) for t in explore([], dict(sizes), 1.0, [], at)]:
            padded = flips + [0.5] * (total - len(flips))
            np.random.uniform = lambda size=None, low=0.0, high=1.0: np.array(padded[: size or 1])
            try:
                res = bg.sample_cohesion_ballot_types(slate, 1, {s: coh[s] for s in blocs})
            except Exception as ex:
                viol(f"cohesion-sampler:{type(ex).__name__}", f"scripted flips {padded}: {ex!r}")
                return
            out["evals"] += 1
            if tuple(res[0]) != typ:
                viol("cohesion-sampler:bins", f"scripted mid-bin draws {padded} for the slate pattern {typ} (cohesion shares {coh}, renormalised when a slate is used up) produced {res[0]}")
                return
    finally:
        np.random.uniform = ru


def spatial(name, ps, viol, out):
    import numpy as np
    from . import oracle
    cands = [c for b in ps["blocs"] for c in ps["s2c"][b]]
    taxi = name != "OneDimSpatial" and ps.get("order", 0) % 2 == 1  # a configured non-Euclidean distance must be the one used
    gen = gens.build(name, ps, "taxicab" if taxi else None)
    dist = gens.taxicab if taxi else (lambda a, b: float(np.linalg.norm(np.asarray(a, dtype=float) - np.asarray(b, dtype=float))))
    if name == "OneDimSpatial":
        # positions are not returned: script numpy.normal to known values
        rn = np.random.normal
        pos = {c: float(i) * 0.7 - 1 for i, c in enumerate(cands)}
        voters = [-2.0, -0.2, 0.4, 3.0, 0.36]
        seq = list(pos.values())
        try:
            def scripted(loc=0.0, scale=1.0, size=None):
                if size is None:
                    return seq.pop(0)
                return np.array(voters[:size])
            np.random.normal = scripted
            prof = gen.generate_profile(len(voters))
        finally:
            np.random.normal = rn
        vpos = [np.array([v]) for v in voters]
        cpos = {c: np.array([p]) for c, p in pos.items()}
    else:
        res = gens.generate(name, gen, 6)
        prof, cpos, vpos = res
    out["evals"] += 1
    exp = {}
    for v in vpos:
        d = {c: dist(v, p) for c, p in cpos.items()}
        if len(set(d.values())) < len(d):
            return
        order = tuple(frozenset([c]) for c in sorted(d, key=d.get))
        exp[order] = exp.get(order, F(0)) + 1
    got = oracle.W_profile(prof)
    got = {tuple(frozenset(map(str, s)) for s in k): v for k, v in got.items()}
    if got != exp:
        viol("ranking-not-by-distance", f"profile {got} != rankings by increasing {'taxicab' if taxi else 'Euclidean'} distance {exp}")


def run(tier="quick", seed=0):
    common.os.environ["VERIF_TIER"] = tier
    common.os.environ["VERIF_SEED"] = str(seed)
    r = common.run("bounded.C16", cases(tier, seed), bound="C14 parameter grid; kernels on <=4 candidates / slates <=2x2", rule=RULE,
                   budget_s=600 if tier == "quick" else 1500)
    r["assumptions"] += ["A-LIB: numpy.random.choice(a, size, p, replace) / random.choices / random.random follow their documented laws",
                         "not covered (not decidable by contracts or call-site checks): closeness of a finite MCMC run to its stationary law; laws of "
                         "Dirichlet-driven constructors (ImpartialCulture draws its ballot probabilities from Dirichlet(1e20))"]
    return r

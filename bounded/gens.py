"""Parameter grids and factories for the ballot generators (shared by C14 and C16)."""
from __future__ import annotations
import itertools
import math
import random

GEN_NAMES = ["ImpartialCulture", "ImpartialAnonymousCulture", "BallotSimplex.from_point", "name_PlackettLuce", "short_name_PlackettLuce",
             "name_BradleyTerry", "name_BradleyTerry.MCMC", "slate_PlackettLuce", "slate_BradleyTerry", "slate_BradleyTerry.MCMC",
             "AlternatingCrossover", "CambridgeSampler", "name_Cumulative", "OneDimSpatial", "Spatial", "ClusteredSpatial"]


def hh(props, n):
    """Huntington-Hill apportionment: the `apportionment` package is the reference (assumption A-APP: its
    'huntington' method IS the Huntington-Hill result, including its convention for zero-vote parties); the
    check is that the generator calls it with the right proportions in the right order, once."""
    import apportionment.methods as apportion
    return [int(x) for x in apportion.compute("huntington", list(props), n)]


def hh_own(props, n):
    """own priority-value implementation (agrees with the package whenever all proportions are positive)"""
    seats = [0] * len(props)
    for _ in range(n):
        best = None
        for i, p in enumerate(props):
            if p <= 0:
                continue
            pr = math.inf if seats[i] == 0 else p / math.sqrt(seats[i] * (seats[i] + 1))
            key = (pr, p)
            if best is None or key > best[0]:
                best = (key, i)
        if best is None:
            break
        seats[best[1]] += 1
    return seats


def param_sets(tier, seed):
    """list of dicts: blocs, slate_to_candidates, bloc_voter_prop, cohesion, supports (bloc -> slate -> {cand: support})"""
    rng = random.Random(seed)
    out = []
    props_opts = {1: [{"W": 1.0}], 2: [{"W": 0.7, "C": 0.3}, {"W": 0.5, "C": 0.5}, {"W": 0.9, "C": 0.1}, {"W": 0.3, "C": 0.7}]}
    coh_opts = [0.8, 0.6, 1.0, 0.3, 0.0]
    supp_vals = [0, 0.1, 1, 3, 0.02]
    for nb in (1, 2):
        for sizes in ([(1,), (2,), (3,)] if nb == 1 else [(1, 1), (2, 1), (2, 2), (3, 2), (1, 3)]):
            for props in props_opts[nb]:
                for k in range(2 if tier == "quick" else 6):
                    blocs = list(props)
                    s2c = {b: [f"{b}{i + 1}" for i in range(sz)] for b, sz in zip(blocs, sizes)}
                    coh = {}
                    for b in blocs:
                        c = rng.choice(coh_opts) if nb == 2 else 1.0
                        coh[b] = {b: c}
                        for o in blocs:
                            if o != b:
                                coh[b][o] = round(1 - c, 10)
                    sup = {}
                    for b in blocs:
                        sup[b] = {}
                        for s in blocs:
                            d = {c: rng.choice(supp_vals) for c in s2c[s]}
                            if sum(d.values()) == 0:
                                d[s2c[s][0]] = 1
                            sup[b][s] = d
                    # order: how the caller's dicts list blocs/slates (0 = everything in bloc_voter_prop order; the models
                    # are functions of the named entries, never of the listing order)
                    out.append(dict(blocs=blocs, s2c=s2c, props=props, coh=coh, sup=sup, order=(len(out) % 4 if nb == 2 else 0)))
    # three slates with unequal cohesion shares (the share of a used-up slate is redistributed proportionally)
    triples = [(0.6, 0.3, 0.1), (0.2, 0.5, 0.3), (0.1, 0.1, 0.8), (1.0, 0.0, 0.0)]
    for j, sizes in enumerate([(1, 1, 1), (2, 1, 1), (1, 2, 2), (2, 2, 1)][: 3 if tier == "quick" else 4]):
        props = {"W": 0.5, "C": 0.3, "T": 0.2}
        blocs = list(props)
        s2c = {b: [f"{b}{i + 1}" for i in range(sz)] for b, sz in zip(blocs, sizes)}
        coh = {}
        for bi, b in enumerate(blocs):
            t = triples[(j + bi) % len(triples)]
            others = [o for o in blocs if o != b]
            coh[b] = {b: t[0], others[0]: t[1], others[1]: t[2]}
        sup = {b: {s_: {c: rng.choice([0.1, 1, 3]) for c in s2c[s_]} for s_ in blocs} for b in blocs}
        out.append(dict(blocs=blocs, s2c=s2c, props=props, coh=coh, sup=sup, order=j % 4))
    return out


def taxicab(a, b):
    import numpy as np
    return float(np.sum(np.abs(np.asarray(a, dtype=float) - np.asarray(b, dtype=float))))


def _ordered(ps):
    """the constructor arguments with the listing orders of the parameter set's `order` variant"""
    from votekit.pref_interval import PreferenceInterval
    o = ps.get("order", 0)
    blocs = list(ps["blocs"])
    outer = blocs[::-1] if o == 1 else blocs
    pis = {}
    for b in outer:
        inner = blocs[::-1] if o == 2 else ([b] + [x for x in blocs if x != b] if o == 3 else blocs)
        pis[b] = {s_: PreferenceInterval(dict(ps["sup"][b][s_])) for s_ in inner}
    coh = {}
    for b in (blocs[::-1] if o == 3 else blocs):
        inner = blocs[::-1] if o == 1 else blocs
        coh[b] = {s_: ps["coh"][b][s_] for s_ in inner}
    return pis, coh


def build(name, ps, extra=None):
    """returns (generator, kind) for the named model on a parameter set"""
    import numpy as np
    import votekit.ballot_generator as bg
    from votekit.pref_interval import PreferenceInterval
    cands = [c for b in ps["blocs"] for c in ps["s2c"][b]]
    pis, coh_arg = _ordered(ps)
    common = dict(pref_intervals_by_bloc=pis, bloc_voter_prop=dict(ps["props"]), cohesion_parameters=coh_arg)
    if name == "ImpartialCulture":
        return bg.ImpartialCulture(candidates=cands[:4])
    if name == "ImpartialAnonymousCulture":
        return bg.ImpartialAnonymousCulture(candidates=cands[:4])
    if name == "BallotSimplex.from_point":
        pt = {c: 1.0 / len(cands[:4]) for c in cands[:4]}
        return bg.BallotSimplex.from_point(point=pt, candidates=cands[:4])
    if name == "name_PlackettLuce":
        return bg.name_PlackettLuce(candidates=cands, **common)
    if name == "short_name_PlackettLuce":
        return bg.short_name_PlackettLuce(ballot_length=extra, candidates=cands, **common)
    if name in ("name_BradleyTerry", "name_BradleyTerry.MCMC"):
        return bg.name_BradleyTerry(candidates=cands, **common)
    if name == "slate_PlackettLuce":
        return bg.slate_PlackettLuce(slate_to_candidates=ps["s2c"], **common)
    if name in ("slate_BradleyTerry", "slate_BradleyTerry.MCMC"):
        return bg.slate_BradleyTerry(slate_to_candidates=ps["s2c"], **common)
    if name == "AlternatingCrossover":
        return bg.AlternatingCrossover(slate_to_candidates=ps["s2c"], **common)
    if name == "CambridgeSampler":
        return bg.CambridgeSampler(slate_to_candidates=ps["s2c"], **common)
    if name == "name_Cumulative":
        return bg.name_Cumulative(candidates=cands, num_votes=extra or 3, **common)
    if name == "OneDimSpatial":
        return bg.OneDimSpatial(candidates=cands)
    if name == "Spatial":
        if extra == "defaults":
            return bg.Spatial(candidates=cands)
        kw = {"low": 0.0, "high": 1.0, "size": 2}
        if extra == "taxicab":
            return bg.Spatial(candidates=cands, voter_dist_kwargs=dict(kw), candidate_dist_kwargs=dict(kw), distance=taxicab)
        return bg.Spatial(candidates=cands, voter_dist_kwargs=dict(kw), candidate_dist_kwargs=dict(kw))
    if name == "ClusteredSpatial":
        if extra == "defaults":
            return bg.ClusteredSpatial(candidates=cands)
        if extra == "taxicab":
            return bg.ClusteredSpatial(candidates=cands, voter_dist_kwargs={"loc": 0, "scale": 1.0, "size": 2},
                                       candidate_dist_kwargs={"low": 0.0, "high": 1.0, "size": 2}, distance=taxicab)
        return bg.ClusteredSpatial(candidates=cands, voter_dist_kwargs={"loc": 0, "scale": 1.0, "size": 2},
                                   candidate_dist_kwargs={"low": 0.0, "high": 1.0, "size": 2})
    raise KeyError(name)


def applicable(name, ps):
    nb = len(ps["blocs"])
    if name in ("AlternatingCrossover", "CambridgeSampler") and nb != 2:
        return False
    if name in ("slate_BradleyTerry", "slate_BradleyTerry.MCMC") and nb > 2:
        return False  # the constructor refuses more than two blocs
    return True


def generate(name, gen, N, by_bloc=False):
    if name == "name_BradleyTerry.MCMC":
        return gen.generate_profile_MCMC(N, by_bloc=by_bloc)
    if name == "slate_BradleyTerry.MCMC":
        return gen.generate_profile(N, by_bloc=by_bloc, deterministic=False)
    if name == "ClusteredSpatial":
        cands = list(gen.candidates)
        per = {c: 0 for c in cands}
        for i in range(N):
            per[cands[i % len(cands)]] += 1
        return gen.generate_profile_with_dict(per)
    return gen.generate_profile(N, by_bloc=by_bloc)

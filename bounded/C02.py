"""Bounded stand-in for C02 (and the STV part of C01/C03): every recorded round of the real
STV / IRV / SequentialRCV count is audited against an independent statement of the rules."""
from __future__ import annotations
import itertools
import random
from fractions import Fraction as F
from . import gen, oracle, common

RULE = ("exhaustive profiles of untied partial rankings (quick: 3 candidates x <=3 distinct ballots x weights {1,2,1/2}; "
        "thorough: + 4 candidates x <=3 ballots and seeded random profiles up to 5 candidates x 6 ballots) x m x quota x "
        "simultaneous x {STV fractional, STV random (logged draws), SequentialRCV, IRV} x tiebreak {None, random}; "
        "distinct = canonical profile (candidates renamed by first occurrence, ballots sorted) x configuration; "
        "non-trivial = >=2 candidates receive weight and >=2 distinct ballots")


def configs(nc):
    out = []
    for m in range(1, nc + 1):
        for quota in ("droop", "hare"):
            for sim in (True, False):
                for tr in ("fractional", "random", "sequential"):
                    for tb in (None, "random"):
                        out.append((m, quota, sim, tr, tb))
    return out


def cases(tier, seed):
    cs = []
    idx = 0

    def add(cands, bl, per):
        nonlocal idx
        cf = configs(len(cands))
        for j in range(per):
            cs.append((cands, bl, cf[(idx * 7 + j * 13) % len(cf)]))
        idx += 1
    for nb, ws in ((1, (1, 2)), (2, (1, 2, F(1, 2))), (3, (1, 2))):
        for cands, bl in gen.profiles_exhaustive(3, nb, [F(w) for w in ws]):
            add(cands, bl, 2 if tier == "quick" else 10)
    # large / awkward rational weights (transfer values with denominators far above 10^3 and 10^6), two surplus transfers
    for cands, bl in gen.profiles_exhaustive(3, 3, [F(1)]):
        if idx % 3 == 0:
            ws = [F(1511), F(997, 3), F(1234577, 2)]
            cs.append((cands, [(r, ws[k]) for k, (r, _) in enumerate(bl)], (2, "droop", True, "fractional", "random")))
            cs.append((cands, [(r, ws[(k + 1) % 3]) for k, (r, _) in enumerate(bl)], (2, "droop", False, "fractional", "random")))
        idx += 1
    # two candidates crossing the quota together with equal tallies and a surplus (4 candidates, N=14, m=2, droop quota 5)
    c4 = gen.NAMES[:4]
    rk4 = gen.rankings(c4)
    ra = [r for r in rk4 if r[0] == frozenset("A") and len(r) >= 2][::3]
    rb = [r for r in rk4 if r[0] == frozenset("B") and len(r) >= 2][::3]
    rc = [r for r in rk4 if r[0] in (frozenset("C"), frozenset("D"))][::5]
    k = 0
    for r1 in ra:
        for r2 in rb:
            k += 1
            r3 = rc[k % len(rc)]
            for sim in (True, False):
                cs.append((c4, [(r1, F(6)), (r2, F(6)), (r3, F(2))], (2, "droop", sim, ("fractional", "sequential")[k % 2], "random")))
    # several candidates without a single first-place vote at once (one elimination per round, each a recorded tie), more seats
    # than vote-holding candidates, everybody left filling the last seats
    c5 = gen.NAMES[:5]
    one = lambda *cs_: tuple(frozenset([c]) for c in cs_)
    zero_fams = [[(one("A"), F(10)), (one("B", "A"), F(1))], [(one("A", "C"), F(4)), (one("B"), F(3))], [(one("A"), F(2))],
                 [(one("A", "B"), F(5)), (one("B", "A"), F(4)), (one("A", "D"), F(1))], [(one("C", "D"), F(3)), (one("D", "C"), F(3)), (one("C"), F(1))]]
    for bl in zero_fams:
        for m in (1, 2, 3):
            for sim in (True, False):
                for tb in (None, "random"):
                    cs.insert(0, (c5, bl, (m, "droop", sim, "fractional", tb)))
        cs.insert(0, (c5, bl, (2, "droop", True, "sequential", "random")))
    if tier == "thorough":
        for cands, bl in gen.profiles_exhaustive(3, 3, [F(1), F(3), F(1, 2), F(2, 3)]):
            add(cands, bl, 4)
        for nb in (2, 3):
            for cands, bl in gen.profiles_exhaustive(4, nb, [F(1), F(2)]):
                add(cands, bl, 2)
        rng = random.Random(seed)
        for cands, bl in gen.profiles_random(rng, 4000):
            add(cands, bl, 3)
    return cs


def run_stv(cands, bl, cfg):
    """returns (election or None, exception or None, transfer_log, kind)"""
    from votekit.elections import STV, IRV, SequentialRCV, random_transfer, fractional_transfer
    m, quota, sim, tr, tb = cfg
    prof = gen.mk_profile(cands, bl)
    log = []

    def logged(winner, fpv, ballots, threshold):
        res = random_transfer(winner, fpv, ballots, threshold)
        log.append({"winner": winner, "round_hint": None,
                    "result": oracle.W_of((b.ranking, b.weight) for b in res)})
        return res
    try:
        if tr == "sequential":
            e = SequentialRCV(prof, m=m, quota=quota, simultaneous=sim, tiebreak=tb)
        elif tr == "random":
            e = STV(prof, m=m, transfer=logged, quota=quota, simultaneous=sim, tiebreak=tb)
        elif m == 1 and sim:
            e = IRV(prof, quota=quota, tiebreak=tb)
        else:
            e = STV(prof, m=m, transfer=fractional_transfer, quota=quota, simultaneous=sim, tiebreak=tb)
        return e, None, log
    except Exception as ex:  # noqa
        return None, ex, log


def defect_class(cands, bl, cfg):
    """input class used in violation keys (so that known findings stay specific)"""
    m, quota, sim, tr, tb = cfg
    Wd = oracle.W_of(bl)
    N = oracle.total(Wd)
    T = oracle.droop(N, m) if quota == "droop" else oracle.hare(N, m)
    tags = [quota, "simultaneous" if sim else "one-by-one", tr]
    if T <= 0:
        tags.append("threshold=0")
    else:
        ref = oracle.ref_stv_explore(cands, Wd, m, quota, sim, "sequential" if tr == "sequential" else "fractional", False)
        if ref["overfull"]:
            tags.append("more-quota-winners-than-seats")
    return ",".join(tags)


def classify_exception(ex, cands, bl, cfg):
    """None if the exception is what the property prescribes; else a violation key"""
    import traceback
    m, quota, sim, tr, tb = cfg
    Wd = oracle.W_of(bl)
    tbk = traceback.extract_tb(ex.__traceback__)
    site = f"{tbk[-1].filename.split('/')[-1]}:{tbk[-1].name}" if tbk else "?"
    integer = all(w == int(w) for _, w in bl)
    if tr == "random" and not integer and isinstance(ex, TypeError):
        return None  # non-integer weights are refused by the random transfer (C20)
    if isinstance(ex, ValueError) and "breaking ties" in str(ex) and tb is None and not sim:
        ref = oracle.ref_stv_explore(cands, Wd, m, quota, sim, "sequential" if tr == "sequential" else "fractional", False)
        if (ref["tie_error"] and not ref["zero_T"]) or (tr == "random" and not ref["zero_T"]):
            return None
    return f"STV({defect_class(cands, bl, cfg)}):{type(ex).__name__}@{site}"


def check_case(case):
    cands, bl, cfg = case
    m, quota, sim, tr, tb = cfg
    random.seed(hash(str(case)) & 0xFFFF)
    e, ex, log = run_stv(cands, bl, cfg)
    key = (gen.canon(cands, bl), cfg)
    out = {"evals": 1, "key": key, "nontrivial": gen.nontrivial(cands, bl), "violations": []}
    desc = dict(gen.lit(cands, bl), m=m, quota=quota, simultaneous=sim, transfer=tr, tiebreak=tb)
    if ex is not None:
        # exceptions are C01's subject (no round exists to audit); they are reported under a C01: key
        k = classify_exception(ex, cands, bl, cfg)
        if k:
            out["violations"].append({"key": "C01:" + k, "what": f"{type(ex).__name__}: {ex} on {desc}", "input": desc})
        return out
    Wd = oracle.W_of(bl)
    if tr == "random" and not all(w == int(w) for _, w in bl):
        # random transfer on rational weights should have been refused when a transfer happened; tolerated when none did
        pass
    probs = oracle.audit_stv(e, cands, Wd, m, quota, sim, tr, tb, transfer_log=log)
    for p in oracle.audit_outcome(e, cands, m)[:2]:
        out["violations"].append({"key": f"C01:STV({defect_class(cands, bl, cfg)}):outcome:" + p.split(":")[1].strip()[:50],
                                  "what": p + f" on {desc}", "input": desc})
    for p in probs[:2]:
        out["violations"].append({"key": f"C02:STV({defect_class(cands, bl, cfg)}):" + p.split(":")[0 if p.startswith("threshold") else 1].strip()[:60],
                                  "what": p + f" on {desc}", "input": desc})
    if len(e.election_states) > 2:
        out["sample"] = {"input": desc, "rounds": len(e.election_states) - 1, "elected": [sorted(s) for s in e.get_elected()]}
    return out


def run(tier="quick", seed=0, only_prefix="C02:", subsample=1):
    cs = cases(tier, seed)[::subsample]
    r = _run(cs, tier)
    r["violations"] = [v for v in r["violations"] if v["key"].startswith(only_prefix)]
    return r


def _run(cs, tier):
    return common.run("bounded.C02", cs, bound="<=3 candidates x <=3 ballots (quick) / <=5 x 6 (thorough)", rule=RULE,
                      budget_s=600 if tier == "quick" else 1500)

"""Bounded check for C18 (no proof part exists: the property is about what pandas/csv do): the loaders are
run on generated files and compared with the table itself."""
from __future__ import annotations
import itertools
import os
import random
import tempfile
from fractions import Fraction as F
from . import common

RULE = ("generated CSV tables: 1-4 rows x 1-3 rank columns over cells {A, B, 'C D', blank, a quoted cell with a comma} x header layouts "
        "(id column first / last / absent, optional weight column) x rank_cols (all, every subset/order of size <=2) x delimiters {',', ';', tab}; "
        "malformed variants (missing file, empty file, blank id, duplicated id on identical and on different rows); Scottish files with 2..11 "
        "candidates, blank rows, metadata errors; to_csv on profiles with rankings/scores/both; distinct = file content + call options; "
        "non-trivial = >=2 rows with different patterns")

CELLS = ["A", "B", "C D", "", 'x,y']


def q(cell, delim, single=False):
    if single and cell == "":
        return '""'  # a well-formed writer quotes the empty field of a one-column row (a bare blank line is not a row)
    if delim in cell or '"' in cell or "," in cell:
        return '"' + cell.replace('"', '""') + '"'
    return cell


def cases(tier, seed):
    rng = random.Random(seed)
    cs = []
    n = 0
    for nrank in (1, 2, 3):
        pats = list(itertools.product(CELLS[:4], repeat=nrank))
        for nrows in (1, 2, 3, 4):
            for _ in range(60 if tier == "quick" else 400):
                rows = [rng.choice(pats) for _ in range(nrows)]
                if rng.random() < 0.3:
                    rows[0] = tuple(rng.choice(CELLS) for _ in range(nrank))
                layout = rng.choice(["id-first", "id-last", "no-id", "id-middle"])
                weight = rng.random() < 0.25
                delim = rng.choice([",", ",", ";", "\t"])
                rc = rng.choice(["all", "subset"])
                cs.append(("csv", nrank, rows, layout, weight, delim, rc, rng.randrange(10 ** 6)))
    for kind in ("missing", "empty", "blank-id", "dup-id-same-row", "dup-id-different-rows"):
        cs.append(("bad", kind))
    for ncand in (2, 3, 5, 10, 11):
        for v in ("ok", "blank-rows", "bad-metadata", "overcount", "undercount", "empty"):
            cs.append(("scot", ncand, v, rng.randrange(10 ** 6)))
    for k in range(12):
        cs.append(("to_csv", k))
    return cs


def check_case(case):
    from votekit.cvr_loaders import load_csv, load_scottish
    from votekit.ballot import Ballot
    from votekit.pref_profile import PreferenceProfile
    from pandas.errors import EmptyDataError, DataError
    out = {"evals": 1, "key": repr(case), "nontrivial": True, "violations": []}

    def viol(key, what):
        out["violations"].append({"key": "C18:" + key, "what": what + f" on case {str(case)[:600]}", "input": repr(case)[:1000]})
    tmp = tempfile.mkdtemp(prefix="c18.")
    path = os.path.join(tmp, "f.csv")
    try:
        if case[0] == "csv":
            _, nrank, rows, layout, weight, delim, rc, sd = case
            rng = random.Random(sd)
            out["nontrivial"] = len(set(rows)) >= 2
            header = [f"r{i + 1}" for i in range(nrank)]
            table = [list(r) for r in rows]
            wvals = [rng.choice([1, 2, 5]) for _ in rows]
            cols = list(range(nrank))
            id_col = weight_col = None
            if layout == "id-first":
                header = ["id"] + header
                table = [[f"v{i}"] + r for i, r in enumerate(table)]
                id_col = 0
                cols = [c + 1 for c in cols]
            elif layout == "id-last":
                header = header + ["id"]
                table = [r + [f"v{i}"] for i, r in enumerate(table)]
                id_col = nrank
            elif layout == "id-middle" and nrank >= 2:
                header = header[:1] + ["id"] + header[1:]
                table = [r[:1] + [f"v{i}"] + r[1:] for i, r in enumerate(table)]
                id_col = 1
                cols = [0] + [c + 1 for c in cols[1:]]
            if weight:
                header = header + ["w"]
                table = [r + [str(w)] for r, w in zip(table, wvals)]
                weight_col = len(header) - 1
            with open(path, "w", newline="") as f:
                f.write(delim.join(q(h, delim) for h in header) + "\n")
                for r in table:
                    f.write(delim.join(q(c, delim, single=len(r) == 1) for c in r) + "\n")
            if rc == "subset" or weight or layout == "id-middle":
                k = rng.randint(1, min(2, len(cols)))
                rank_cols = rng.sample(cols, k) if rc == "subset" else list(cols)
            else:
                rank_cols = []
            sel = rank_cols if rank_cols else cols
            kwargs = {}
            if id_col is not None:
                kwargs["id_col"] = id_col
            if weight_col is not None:
                kwargs["weight_col"] = weight_col
            if delim != ",":
                kwargs["delimiter"] = delim
            exp = {}
            voters = {}
            for i, r in enumerate(table):
                pat = tuple(r[c] for c in sel)
                exp[pat] = exp.get(pat, 0) + (wvals[i] if weight else 1)
                voters.setdefault(pat, set()).add(f"v{i}")
            all_blank_row = any(all(c == "" for c in r) for r in table)
            tag = ("rank_cols+id_col" if rank_cols and id_col is not None else ("rank_cols" if rank_cols else "all-columns")) + (",weight_col" if weight else "")
            try:
                if not rank_cols and sd % 2:
                    prof = load_csv(path, **kwargs)  # the default argument: earlier calls in this process must not have changed it
                else:
                    passed = list(rank_cols)
                    prof = load_csv(path, passed, **kwargs)
                    if passed != list(rank_cols):
                        viol(f"load_csv[{tag}]:caller-list-modified", f"rank_cols argument {rank_cols} was changed to {passed}")
            except Exception as ex:
                viol(f"load_csv[{tag}]:{type(ex).__name__}", f"{ex!r} with rank_cols={rank_cols} {kwargs}; file:\n{open(path).read()}")
                return out
            got = {}
            for b in prof.ballots:
                pat = tuple("" if next(iter(s)) is None else str(next(iter(s))) for s in b.ranking)
                got[pat] = got.get(pat, 0) + b.weight
                if id_col is not None and b.voter_set is not None and set(b.voter_set) != voters.get(pat):
                    viol(f"load_csv[{tag}]:voter-sets", f"ballot {pat} has voters {b.voter_set}, rows say {voters.get(pat)}")
            if {k: F(v) for k, v in exp.items()} != got:
                viol(f"load_csv[{tag}]:row-patterns", f"loaded {got} but the selected columns {sel} hold {exp}; rank_cols={rank_cols} {kwargs}; file:\n{open(path).read()}")
            elif prof.total_ballot_wt != sum(exp.values()):
                viol(f"load_csv[{tag}]:total", f"{prof.total_ballot_wt} != {sum(exp.values())}")
        elif case[0] == "bad":
            kind = case[1]
            if kind == "missing":
                try:
                    load_csv(os.path.join(tmp, "nope.csv"))
                    viol("load_csv:missing-file-accepted", "")
                except FileNotFoundError:
                    pass
            elif kind == "empty":
                open(path, "w").write("id,r1,r2\n")
                try:
                    load_csv(path, id_col=0)
                    viol("load_csv:empty-data-accepted", "")
                except EmptyDataError:
                    pass
            else:
                rows = {"blank-id": [["a", "A", "B"], ["", "B", "A"]], "dup-id-same-row": [["a", "A", "B"], ["a", "A", "B"]],
                        "dup-id-different-rows": [["a", "A", "B"], ["b", "A", "B"], ["a", "B", "A"]]}[kind]
                with open(path, "w") as f:
                    f.write("id,r1,r2\n" + "\n".join(",".join(r) for r in rows) + "\n")
                try:
                    load_csv(path, id_col=0)
                    viol(f"load_csv:{kind}-accepted", "")
                except (ValueError, DataError) as ex:
                    want = ValueError if kind == "blank-id" else DataError
                    if not isinstance(ex, want):
                        viol(f"load_csv:{kind}-wrong-error", repr(ex))
        elif case[0] == "scot":
            _, ncand, variant, sd = case
            rng = random.Random(sd)
            names = [f"Cand {chr(65 + i)}" for i in range(ncand)]
            parties = [f"Party {i}" for i in range(ncand)]
            seats = rng.randint(1, ncand)
            ballots = []
            for _ in range(rng.randint(1, 5)):
                k = rng.randint(1, ncand)
                ballots.append((rng.randint(1, 40), rng.sample(range(1, ncand + 1), k)))
            lines = [f"{ncand},{seats},"]
            for w, order in ballots:
                lines.append(",".join([str(w)] + [str(x) for x in order]) + ",")
                if variant == "blank-rows":
                    lines.append(",,,")
            cl = [f'"Candidate {i + 1}","{names[i]}","{parties[i]}",' for i in range(ncand)]
            if variant == "overcount":
                cl.append(f'"Candidate {ncand + 1}","Extra","X",')
            if variant == "undercount":
                cl = cl[:-1]
            lines += cl
            lines.append('"Ward Name",')
            if variant == "bad-metadata":
                lines[0] = f"{ncand},{seats},7,"
            if variant == "empty":
                lines = []
            open(path, "w").write("\n".join(lines) + ("\n" if lines else ""))
            try:
                prof, s, cand_list, c2p, ward = load_scottish(path)
            except (DataError, EmptyDataError) as ex:
                if variant in ("ok", "blank-rows"):
                    viol(f"load_scottish:{variant}:{type(ex).__name__}", repr(ex))
                return out
            except Exception as ex:
                viol(f"load_scottish:{variant}:{type(ex).__name__}", repr(ex))
                return out
            if variant not in ("ok", "blank-rows"):
                viol(f"load_scottish:{variant}-accepted", "inconsistent file accepted")
                return out
            if s != seats or ward != "Ward Name" or cand_list != names or c2p != dict(zip(names, parties)):
                viol("load_scottish:metadata", f"seats {s} ward {ward} cands {cand_list} parties {c2p}")
            exp = {}
            for w, order in ballots:
                k = tuple(frozenset([names[x - 1]]) for x in order)
                exp[k] = exp.get(k, F(0)) + w
            got = {}
            for b in prof.ballots:
                got[b.ranking] = got.get(b.ranking, F(0)) + b.weight
            if got != exp:
                viol("load_scottish:ballots", f"{got} != {exp}")
        elif case[0] == "to_csv":
            import csv as _csv
            k = case[1]
            rng = random.Random(k)
            bl = []
            for i in range(rng.randint(1, 4)):
                r = tuple(frozenset([c]) for c in rng.sample("ABC", rng.randint(1, 3))) if (k + i) % 3 != 2 else None
                sc = {c: F(rng.randint(1, 4), rng.choice([1, 2])) for c in rng.sample("ABC", rng.randint(1, 2))} if (k + i) % 2 else None
                if r is None and sc is None:
                    r = (frozenset("A"),)
                bl.append(Ballot(ranking=r, scores=sc, weight=F(rng.randint(1, 5), rng.choice([1, 2]))))
            P = PreferenceProfile(ballots=tuple(bl))
            P.to_csv(path)
            rows = list(_csv.DictReader(open(path)))
            if len(rows) != len(bl):
                viol("to_csv:row-count", f"{len(rows)} rows for {len(bl)} ballots")
            else:
                for b, row in zip(bl, rows):
                    if abs(float(row["weight"]) - float(b.weight)) > 1e-12:
                        viol("to_csv:weight", f"{row}")
                    want_r = tuple(set(s) for s in b.ranking) if b.ranking else tuple()
                    if row["ranking"] != str(want_r):
                        viol("to_csv:ranking", f"{row['ranking']} != {want_r}")
                    want_s = tuple((c, float(v)) for c, v in b.scores.items()) if b.scores else tuple()
                    if row["scores"] != str(want_s):
                        viol("to_csv:scores", f"{row['scores']} != {want_s}")
    finally:
        import shutil
        shutil.rmtree(tmp, ignore_errors=True)
    if out["nontrivial"] and not out["violations"] and case[0] == "csv":
        out["sample"] = {"rows": case[2], "layout": case[3], "delimiter": case[5]}
    return out


def run(tier="quick", seed=0):
    return common.run("bounded.C18", cases(tier, seed), bound="tables <=4 rows x <=3 rank columns; Scottish files <=11 candidates", rule=RULE,
                      budget_s=600 if tier == "quick" else 900)

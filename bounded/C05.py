"""Bounded stand-in for C05: score-ballot elections: acceptance exactly per the limits (every ballot, exact
boundaries), totals = sum of weight x score, top-m winners, boundary tie -> ValueError."""
from __future__ import annotations
import itertools
import random
from fractions import Fraction as F
from . import gen, common

RULE = ("the five rule classes x profiles of <=3 score ballots over 3 candidates with scores from {0, 1/2, 1, 2, L, L+1/10^6, k-related "
        "boundary values, -1/10^6} and rational weights {1, 3/2, 2/7} x m x limits L in {1,2}, k in {1,2,3}; each invalid profile violates "
        "exactly one limit on exactly one (any-position) ballot by the smallest margin; distinct = (rule, config, canonical ballots); "
        "non-trivial = >=2 ballots with different score cards")

EPS = F(1, 10 ** 6)


def cases(tier, seed):
    cands = gen.NAMES[:3]
    cs = []
    rng = random.Random(seed)
    base_vals = [F(0), F(1, 2), F(1)]
    cards = [dict((c, v) for c, v in zip(cands, combo) if v != 0) for combo in itertools.product(base_vals, repeat=3)]
    cards = [c for c in cards if c]
    ws = [F(1), F(3, 2), F(2, 7)]
    i = 0
    for nb in (1, 2, 3):
        for sel in itertools.combinations(range(len(cards)), nb):
            i += 1
            if nb == 3 and (i % (12 if tier == "quick" else 3)):
                continue
            if nb == 2 and tier == "quick" and i % 2:
                continue
            bl = [(cards[j], ws[(i + t) % 3]) for t, j in enumerate(sel)]
            for rule in ("Rating", "Limited", "Cumulative", "Approval", "BlocPlurality"):
                m = 1 + (i % 3)
                cs.append((rule, bl, m, (1, 2, 3)[i % 3], (1, 2)[i % 2], (None, "random")[i % 2], None))
    # non-unit weights that add up to the number of ballots (weights must multiply the scores all the same)
    for rule in ("Rating", "Limited", "Cumulative", "Approval", "BlocPlurality"):
        for wts in ((F(1, 2), F(3, 2)), (F(1, 3), F(2, 3), F(2)), (F(0), F(2))):
            cards2 = [{"A": F(1), "B": F(1, 2)}, {"B": F(1)}, {"C": F(1), "A": F(1, 2)}][:len(wts)]
            for m in (1, 2):
                cs.append((rule, [(c, w) for c, w in zip(cards2, wts)], m, 2, 2, "random", None))
    # totals whose exact value has a denominator far above 10^6
    for rule in ("Rating", "Limited", "Cumulative", "Approval", "BlocPlurality"):
        big = [({"A": F(1, 11), "B": F(1, 13)}, F(3, 7)), ({"A": F(1, 17), "C": F(1, 19)}, F(5, 13)), ({"B": F(1, 23), "C": F(1, 29)}, F(2, 19)),
               ({"A": F(1, 1000003)}, F(1, 999983))]
        for m in (1, 2):
            cs.append((rule, big, m, 3, 1, "random", None))
            cs.append((rule, big[:3], m, 2, 2, None, None))
    # boundary violations: take a valid profile and break one limit on one ballot (each position)
    for rule in ("Rating", "Limited", "Cumulative", "Approval", "BlocPlurality"):
        for m in (1, 2, 3):
            for kk in (1, 2, 3):
                for L in (1, 2):
                    valid = [({"A": F(1, 2)}, F(1)), ({"B": F(1, 2), "C": F(1, 4)}, F(3, 2)), ({"C": F(1, 2)}, F(2, 7))]
                    for pos in range(3):
                        for how in ("over-L", "at-L", "negative", "over-k", "over-k-tiny", "at-k", "no-scores"):
                            cs.append((rule, valid, m, kk, L, "random", (pos, how)))
    return cs


def limits(rule, m, kk, L):
    """(per-candidate limit, budget or None, constructor ValueError expected)"""
    if rule == "Rating":
        return F(L), None, False
    if rule == "Limited":
        return F(kk), F(kk), kk > m
    if rule == "Cumulative":
        return F(m), F(m), False
    if rule == "Approval":
        return F(1), None, False
    return F(1), F(kk), False  # BlocPlurality(k=kk)


def make(rule, prof, m, kk, L, tb):
    import votekit.elections as E
    if rule == "Rating":
        return E.Rating(prof, m, L=L, tiebreak=tb)
    if rule == "Limited":
        return E.Limited(prof, m, k=kk, tiebreak=tb)
    if rule == "Cumulative":
        return E.Cumulative(prof, m, tiebreak=tb)
    if rule == "Approval":
        return E.Approval(prof, m, tiebreak=tb)
    return E.BlocPlurality(prof, m, k=kk, tiebreak=tb)


def check_case(case):
    from votekit.ballot import Ballot
    from votekit.pref_profile import PreferenceProfile
    rule, bl, m, kk, L, tb, mut = case
    cands = gen.NAMES[:3]
    lim, bud, ctor_err = limits(rule, m, kk, L)
    bl = [(dict(d), w) for d, w in bl]
    expect_type_error = False
    if mut is not None:
        pos, how = mut
        d, w = bl[pos]
        if how == "over-L":
            d = {"A": lim + EPS}
        elif how == "at-L":
            d = {"A": lim}
        elif how == "negative":
            d = dict(d, B=-EPS)
        elif how == "over-k-tiny":
            if bud is None or bud > 2 * lim:
                return {"evals": 0, "key": None, "nontrivial": False, "violations": []}
            tiny = F(1, 999999000000)
            d = {"A": min(lim, bud) - F(1, 1000000), "B": bud - (min(lim, bud) - F(1, 1000000)) + tiny}
            if d["B"] > lim or d["A"] <= 0:
                return {"evals": 0, "key": None, "nontrivial": False, "violations": []}
        elif how == "over-k":
            if bud is None:
                return {"evals": 0, "key": None, "nontrivial": False, "violations": []}
            d = {"A": min(lim, bud), "B": bud - min(lim, bud) + EPS} if bud - min(lim, bud) + EPS <= lim else {"A": lim, "B": lim, "C": bud - 2 * lim + EPS}
        elif how == "at-k":
            if bud is None:
                return {"evals": 0, "key": None, "nontrivial": False, "violations": []}
            d = {"A": min(lim, bud)}
            rest = bud - d["A"]
            if rest > 0:
                d["B"] = min(lim, rest)
                if rest - d["B"] > 0:
                    d["C"] = min(lim, rest - d["B"])
        bl[pos] = (d, w)
    out = {"evals": 1, "key": (rule, m, kk, L, tb, str(mut), tuple(sorted((tuple(sorted((c, str(v)) for c, v in d.items())), str(w)) for d, w in bl))),
           "nontrivial": len({tuple(sorted(d.items())) for d, _ in bl}) >= 2, "violations": []}
    desc = {"rule": rule, "m": m, "k": kk, "L": L, "tiebreak": tb, "mutation": mut,
            "ballots": [[{c: str(v) for c, v in d.items()}, str(w)] for d, w in bl]}

    def viol(key, what):
        out["violations"].append({"key": f"C05:{rule}:" + key, "what": what + f" on {desc}", "input": desc})
    ballots = []
    for j, (d, w) in enumerate(bl):
        if mut is not None and mut[0] == j and mut[1] == "no-scores":
            ballots.append(Ballot(ranking=(frozenset("A"),), weight=w))
        else:
            ballots.append(Ballot(scores=d, weight=w))
    prof = PreferenceProfile(ballots=tuple(ballots), candidates=tuple(cands))
    bad = False
    for b in ballots:
        if not b.scores:
            bad = True
        else:
            if any(v > lim or v < 0 for v in b.scores.values()):
                bad = True
            if bud is not None and sum(b.scores.values()) > bud:
                bad = True
    tot = {c: sum(((b.scores or {}).get(c, 0) * b.weight for b in ballots), F(0)) for c in cands}
    vals = sorted(tot.values(), reverse=True)
    btie = m < 3 and vals[m - 1] == vals[m]
    try:
        e = make(rule, prof, m, kk, L, tb)
    except TypeError as ex:
        if ctor_err or not bad:
            viol("unexpected-TypeError", f"{ex}")
        return out
    except ValueError as ex:
        if not (ctor_err or (not bad and tb is None and btie)):
            viol("unexpected-ValueError", f"{ex}")
        return out
    except Exception as ex:
        viol(f"{type(ex).__name__}", repr(ex))
        return out
    if ctor_err:
        viol("constructor-accepted-inconsistent-limits", "k > m accepted")
        return out
    if bad:
        viol("invalid-profile-accepted", f"accepted although a ballot violates the limits (L={lim}, k={bud})")
        return out
    if tb is None and btie:
        viol("no-ValueError-on-boundary-tie", f"returned {e.get_elected()} despite an unbroken boundary tie {tot}")
    if dict(e.election_states[0].scores) != tot:
        viol("totals", f"round-0 scores {dict(e.election_states[0].scores)} != sum of weight x score {tot}")
    el = [c for g in e.get_elected() for c in g]
    rest = [c for c in cands if c not in el]
    if len(el) != m:
        viol("seat-count", f"elected {e.get_elected()}")
    elif rest and min(tot[c] for c in el) < max(tot[c] for c in rest):
        viol("lower-total-elected", f"elected {el} with totals {tot}")
    # the round's groups list every candidate exactly once (a winner of a broken tie must not stay among the remaining)
    rem = [c for g in e.get_remaining() for c in g]
    if sorted(el + rem) != sorted(cands):
        viol("partition", f"elected {e.get_elected()} + remaining {e.get_remaining()} is not each candidate exactly once")
    if out["nontrivial"] and not out["violations"]:
        out["sample"] = desc
    return out


def run(tier="quick", seed=0):
    return common.run("bounded.C05", cases(tier, seed), bound="3 candidates x <=3 score ballots x m x L x k (all five classes)",
                      rule=RULE, budget_s=600 if tier == "quick" else 900)

"""Contracts for graphs/pairwise_comparison_graph.py -- C06"""
from pyvc.api import *
from specs.base import *
from specs.pairwise import *


@contract("graphs/pairwise_comparison_graph.py", "PairwiseComparisonGraph.head2head_count", props=("C06",), implicit_raises=("TypeError",))
class head2head_count:
    """the count is the total weight of the (filled) profile's ballots on which the first position listing cand1 or cand2 lists
    cand1; TypeError exactly when a ballot has no ranking; nothing of self is modified"""
    params = dict(self=Obj("PairwiseComparisonGraph", dict(profile=Profile)), cand1=Str, cand2=Str)
    returns = Real
    modifies = ()
    locals = dict(count=Real)

    def witnesses():
        import types
        from votekit.ballot import Ballot
        from votekit.pref_profile import PreferenceProfile
        A, B, C = frozenset("A"), frozenset("B"), frozenset("C")
        p = PreferenceProfile(ballots=(Ballot(ranking=(A, B, C), weight=Fraction(3)), Ballot(ranking=(frozenset("BC"), A), weight=Fraction(1, 2)),
                                       Ballot(ranking=(C,), weight=Fraction(2))), candidates=("A", "B", "C"))
        return [dict(self=types.SimpleNamespace(profile=p), cand1="B", cand2="C"), dict(self=types.SimpleNamespace(profile=p), cand1="C", cand2="A")]

    def raises_TypeError(self, cand1, cand2):
        return not all_have_ranking(self.profile.ballots, len(self.profile.ballots))

    def ensures(self, cand1, cand2, result):
        return result == h2h(self.profile.ballots, len(self.profile.ballots), cand1, cand2)

    def invariant_0(self, count, cand1, cand2, _k):
        return count == h2h(self.profile.ballots, _k, cand1, cand2) and all_have_ranking(self.profile.ballots, _k)

    def invariant_1(self, count, rank_list, cand1, cand2, _k0, _k):
        return count == h2h(self.profile.ballots, _k0, cand1, cand2) and not seen(rank_list, _k, cand1, cand2)

    def hint_inv_0(self, rank_list, cand1, cand2):
        return pw_unseen(rank_list, len(rank_list), cand1, cand2)

    def hint_inv_0b(self, rank_list, cand1, cand2, _k1):
        return pw_stable(rank_list, _k1 + 1, len(rank_list), cand1, cand2)

    def hint_raise_TypeError(self, _k):
        return all_have_ranking_prefix(self.profile.ballots, _k + 1, len(self.profile.ballots))

"""Contracts for votekit/elections/election_types/scores/rating.py and approval.py (C05, C20)"""
from pyvc.api import *
from specs.base import *
from specs.scores import *

RATING = "elections/election_types/scores/rating.py"
APPROVAL = "elections/election_types/approval/approval.py"
GR_FIELDS = dict(m=Int, L=Real, k=Opt(Real), tiebreak=Opt(Str))


@contract(RATING, "GeneralRating._validate_profile", props=("C05", "C20"))
class validate_profile:
    """TypeError iff some ballot has no scores, a score above L, a negative score, or (budget given) a total above k.
    NB `if self.k:` treats k == 0 as 'no budget' (the constructor is supposed to reject k <= 0)."""
    params = dict(self=Obj("GeneralRating", GR_FIELDS), profile=Profile)
    returns = NoneS

    def raises_TypeError(self, profile):
        return not score_ballots_ok(profile.ballots, len(profile.ballots), self.L, self.k)

    def invariant_0(self, profile, _k):
        return score_ballots_ok(profile.ballots, _k, self.L, self.k)

    def hint_raise_TypeError(self, profile, _k):
        return score_ballots_ok_prefix(profile.ballots, _k + 1, len(profile.ballots), self.L, self.k)


@contract(RATING, "GeneralRating.__init__", props=("C05", "C20"))
class general_rating_init:
    """ValueError iff m <= 0, L <= 0, a given budget k <= 0, or L > k -- and otherwise only the boundary tie of the
    count; TypeError iff the parameters are fine and the profile violates the limits."""
    params = dict(self=Obj("GeneralRating", {}), profile=Profile, m=Int, L=Real, k=Opt(Real), tiebreak=Opt(Str))
    returns = NoneS

    def raises_ValueError(self, profile, m, L, k, tiebreak):
        return (m <= 0 or L <= 0 or (k is not None and k <= 0) or (k is not None and L > k)
                or (score_ballots_ok(profile.ballots, len(profile.ballots), L, k) and boundary_tie(profile, m, tiebreak)))

    def raises_TypeError(self, profile, m, L, k, tiebreak):
        return (not (m <= 0 or L <= 0 or (k is not None and k <= 0) or (k is not None and L > k))
                and not score_ballots_ok(profile.ballots, len(profile.ballots), L, k))


def _gr_value_error(profile, m, L, k, tiebreak):
    pass


@contract(RATING, "Rating.__init__", props=("C05", "C20"))
class rating_init:
    """Rating = GeneralRating without a budget"""
    params = dict(self=Obj("Rating", {}), profile=Profile, m=Int, L=Real, tiebreak=Opt(Str))
    returns = NoneS

    def raises_ValueError(self, profile, m, L, tiebreak):
        return (m <= 0 or L <= 0
                or (score_ballots_ok(profile.ballots, len(profile.ballots), L, None) and boundary_tie(profile, m, tiebreak)))

    def raises_TypeError(self, profile, m, L, tiebreak):
        return not (m <= 0 or L <= 0) and not score_ballots_ok(profile.ballots, len(profile.ballots), L, None)


@contract(RATING, "Limited.__init__", props=("C05", "C20"))
class limited_init:
    """Limited: budget k <= m, per-candidate limit L = k"""
    params = dict(self=Obj("Limited", {}), profile=Profile, m=Int, k=Real, tiebreak=Opt(Str))
    returns = NoneS

    def raises_ValueError(self, profile, m, k, tiebreak):
        return (k > m or m <= 0 or k <= 0
                or (score_ballots_ok(profile.ballots, len(profile.ballots), k, k) and boundary_tie(profile, m, tiebreak)))

    def raises_TypeError(self, profile, m, k, tiebreak):
        return not (k > m or m <= 0 or k <= 0) and not score_ballots_ok(profile.ballots, len(profile.ballots), k, k)


@contract(RATING, "Cumulative.__init__", props=("C05", "C20"))
class cumulative_init:
    """Cumulative: budget and per-candidate limit m"""
    params = dict(self=Obj("Cumulative", {}), profile=Profile, m=Int, tiebreak=Opt(Str))
    returns = NoneS

    def raises_ValueError(self, profile, m, tiebreak):
        return (m <= 0
                or (score_ballots_ok(profile.ballots, len(profile.ballots), m, m) and boundary_tie(profile, m, tiebreak)))

    def raises_TypeError(self, profile, m, tiebreak):
        return m > 0 and not score_ballots_ok(profile.ballots, len(profile.ballots), m, m)


@contract(APPROVAL, "Approval.__init__", props=("C05", "C20"))
class approval_init:
    """Approval: per-candidate limit 1, no budget"""
    params = dict(self=Obj("Approval", {}), profile=Profile, m=Int, tiebreak=Opt(Str))
    returns = NoneS

    def raises_ValueError(self, profile, m, tiebreak):
        return (m <= 0
                or (score_ballots_ok(profile.ballots, len(profile.ballots), 1, None) and boundary_tie(profile, m, tiebreak)))

    def raises_TypeError(self, profile, m, tiebreak):
        return m > 0 and not score_ballots_ok(profile.ballots, len(profile.ballots), 1, None)


@contract(APPROVAL, "BlocPlurality.__init__", props=("C05", "C20"))
class bloc_init:
    """BlocPlurality: per-candidate limit 1, budget k (m when not given)"""
    params = dict(self=Obj("BlocPlurality", {}), profile=Profile, m=Int, k=Opt(Int), tiebreak=Opt(Str))
    returns = NoneS

    def requires(self, profile, m, k, tiebreak):
        return k is None or k >= 1

    def raises_ValueError(self, profile, m, k, tiebreak):
        return (m <= 0
                or (score_ballots_ok(profile.ballots, len(profile.ballots), 1, m if k is None else k)
                    and boundary_tie(profile, m, tiebreak)))

    def raises_TypeError(self, profile, m, k, tiebreak):
        return m > 0 and not score_ballots_ok(profile.ballots, len(profile.ballots), 1, m if k is None else k)

"""Contracts for the single-shot ranking rules' round: Plurality / SNTV (plurality.py), Borda (borda.py) -- C04, C01, C10"""
from pyvc.api import *
from specs.base import *
from specs.stv import *
from specs.transfers import *
from specs.editing import *

R = "elections/election_types/ranking/"
BORDA_FIELDS = dict(score_vector=Seq(Real), m=Int, tiebreak=Opt(Str), _profile=Profile, election_states=Seq(StateRef, "list"), score_function=Fn,
                    sort_high_low=Bool)
GR_FIELDS = dict(L=Real, k=Opt(Real), m=Int, tiebreak=Opt(Str), _profile=Profile, election_states=Seq(StateRef, "list"), score_function=Fn,
                 sort_high_low=Bool)
PL_FIELDS = dict(m=Int, tiebreak=Opt(Str), _profile=Profile, election_states=Seq(StateRef, "list"), score_function=Fn, sort_high_low=Bool)


@contract(R + "plurality.py", "Plurality._run_step", props=("C04", "C01", "C10", "C09"), unfold=3)
class plurality_run_step:
    """The one round of a single-shot rule: the elected / remaining groups and the recorded tiebreak are exactly what
    elect_cands_from_set_ranking (proved) makes of the previous round's ranking -- the top m by tally, a tie straddling the last
    seat resolved by the recorded strict order, ValueError exactly when that tie cannot be broken or m is out of range --; the
    returned profile is the input profile with the elected candidates removed (per ranking: the weight of the input ballots that
    scrub to it); with store_states exactly one state is appended (round 1, those groups, the tallies of the returned profile),
    without it nothing is stored."""
    params = dict(self=Obj("Plurality", PL_FIELDS), profile=Profile, prev_state=StateRef, store_states=Bool)
    returns = Profile
    forall = dict(k=Seq(CSet))
    pure_unless = "store_states"  # frame (C09): nothing of self is stored outside `if store_states:`
    modifies = ("election_states",)  # the frame callers rely on: every other field keeps its entry value (obligation frame[self.<f> unchanged])

    def requires(self, profile, prev_state, store_states):
        return (all_nonneg(profile.ballots, len(profile.ballots)) and distinct(profile.candidates, len(profile.candidates))
                # the previous round ranks candidates of the profile (a tally-based tiebreak reads their tallies from it)
                and union_upto(prev_state.remaining, len(prev_state.remaining)) <= frozenset(profile.candidates))

    def raises_ValueError(self, profile, prev_state, store_states):
        return (self.m < 1 or self.m > count(prev_state.remaining, len(prev_state.remaining))
                or (count(prev_state.remaining, first_reach(prev_state.remaining, self.m, 0) + 1) > self.m
                    and (self.tiebreak is None or (self.tiebreak != "random" and self.tiebreak != "first_place" and self.tiebreak != "borda")))
                or (store_states and self.score_function is None))

    def ensures(self, old_self, profile, prev_state, store_states, result, k):
        return (implies(not store_states, self.election_states == old_self.election_states)
                and implies(store_states, len(self.election_states) == len(old_self.election_states) + 1
                            and self.election_states[:len(old_self.election_states)] == old_self.election_states
                            and self.election_states[-1].round_number == 1
                            and count(self.election_states[-1].elected, len(self.election_states[-1].elected)) == old_self.m
                            # no tie at the last seat: the first positions of the ranking are elected, the rest remains, nothing recorded
                            and implies(count(prev_state.remaining, first_reach(prev_state.remaining, old_self.m, 0) + 1) == old_self.m,
                                        self.election_states[-1].elected == prev_state.remaining[:first_reach(prev_state.remaining, old_self.m, 0) + 1]
                                        and self.election_states[-1].remaining == prev_state.remaining[first_reach(prev_state.remaining, old_self.m, 0) + 1:]
                                        and not self.election_states[-1].tiebreaks)
                            # a tie straddles the last seat: it is recorded with a strict order of exactly the tied set, which the round obeys
                            and implies(count(prev_state.remaining, first_reach(prev_state.remaining, old_self.m, 0) + 1) != old_self.m,
                                        bool(self.election_states[-1].tiebreaks)
                                        and lin(tb_value(self.election_states[-1]), prev_state.remaining[first_reach(prev_state.remaining, old_self.m, 0)])
                                        and self.election_states[-1].elected == prev_state.remaining[:first_reach(prev_state.remaining, old_self.m, 0)]
                                        + tb_value(self.election_states[-1])[:old_self.m - count(prev_state.remaining, first_reach(prev_state.remaining, old_self.m, 0))]
                                        and self.election_states[-1].remaining
                                        == tb_value(self.election_states[-1])[old_self.m - count(prev_state.remaining, first_reach(prev_state.remaining, old_self.m, 0)):]
                                        + prev_state.remaining[first_reach(prev_state.remaining, old_self.m, 0) + 1:]))
                and implies(store_states,
                            wrank(result.ballots, len(result.ballots), k)
                            == wrank(rc_prefix(profile.ballots, len(profile.ballots),
                                               union_upto(self.election_states[-1].elected, len(self.election_states[-1].elected))), len(profile.ballots), k)))

    def hint_raise_ValueError(self, profile, elected):
        return keep_cands_distinct(profile.candidates, len(profile.candidates), union_upto(elected, len(elected)))


@contract(R + "borda.py", "Borda._run_step", props=("C04", "C01", "C10", "C09"), unfold=3)
class borda_run_step:
    """(same text as Plurality._run_step: borda.py repeats the body) The one round of a single-shot rule: the elected / remaining groups and the recorded tiebreak are exactly what
    elect_cands_from_set_ranking (proved) makes of the previous round's ranking -- the top m by tally, a tie straddling the last
    seat resolved by the recorded strict order, ValueError exactly when that tie cannot be broken or m is out of range --; the
    returned profile is the input profile with the elected candidates removed (per ranking: the weight of the input ballots that
    scrub to it); with store_states exactly one state is appended (round 1, those groups, the tallies of the returned profile),
    without it nothing is stored."""
    params = dict(self=Obj("Borda", BORDA_FIELDS), profile=Profile, prev_state=StateRef, store_states=Bool)
    returns = Profile
    forall = dict(k=Seq(CSet))
    pure_unless = "store_states"  # frame (C09): nothing of self is stored outside `if store_states:`
    modifies = ("election_states",)  # the frame callers rely on: every other field keeps its entry value (obligation frame[self.<f> unchanged])

    def requires(self, profile, prev_state, store_states):
        return (all_nonneg(profile.ballots, len(profile.ballots)) and distinct(profile.candidates, len(profile.candidates))
                # the previous round ranks candidates of the profile (a tally-based tiebreak reads their tallies from it)
                and union_upto(prev_state.remaining, len(prev_state.remaining)) <= frozenset(profile.candidates))

    def raises_ValueError(self, profile, prev_state, store_states):
        return (self.m < 1 or self.m > count(prev_state.remaining, len(prev_state.remaining))
                or (count(prev_state.remaining, first_reach(prev_state.remaining, self.m, 0) + 1) > self.m
                    and (self.tiebreak is None or (self.tiebreak != "random" and self.tiebreak != "first_place" and self.tiebreak != "borda")))
                or (store_states and self.score_function is None))

    def ensures(self, old_self, profile, prev_state, store_states, result, k):
        return (implies(not store_states, self.election_states == old_self.election_states)
                and implies(store_states, len(self.election_states) == len(old_self.election_states) + 1
                            and self.election_states[:len(old_self.election_states)] == old_self.election_states
                            and self.election_states[-1].round_number == 1
                            and count(self.election_states[-1].elected, len(self.election_states[-1].elected)) == old_self.m
                            # no tie at the last seat: the first positions of the ranking are elected, the rest remains, nothing recorded
                            and implies(count(prev_state.remaining, first_reach(prev_state.remaining, old_self.m, 0) + 1) == old_self.m,
                                        self.election_states[-1].elected == prev_state.remaining[:first_reach(prev_state.remaining, old_self.m, 0) + 1]
                                        and self.election_states[-1].remaining == prev_state.remaining[first_reach(prev_state.remaining, old_self.m, 0) + 1:]
                                        and not self.election_states[-1].tiebreaks)
                            # a tie straddles the last seat: it is recorded with a strict order of exactly the tied set, which the round obeys
                            and implies(count(prev_state.remaining, first_reach(prev_state.remaining, old_self.m, 0) + 1) != old_self.m,
                                        bool(self.election_states[-1].tiebreaks)
                                        and lin(tb_value(self.election_states[-1]), prev_state.remaining[first_reach(prev_state.remaining, old_self.m, 0)])
                                        and self.election_states[-1].elected == prev_state.remaining[:first_reach(prev_state.remaining, old_self.m, 0)]
                                        + tb_value(self.election_states[-1])[:old_self.m - count(prev_state.remaining, first_reach(prev_state.remaining, old_self.m, 0))]
                                        and self.election_states[-1].remaining
                                        == tb_value(self.election_states[-1])[old_self.m - count(prev_state.remaining, first_reach(prev_state.remaining, old_self.m, 0)):]
                                        + prev_state.remaining[first_reach(prev_state.remaining, old_self.m, 0) + 1:]))
                and implies(store_states,
                            wrank(result.ballots, len(result.ballots), k)
                            == wrank(rc_prefix(profile.ballots, len(profile.ballots),
                                               union_upto(self.election_states[-1].elected, len(self.election_states[-1].elected))), len(profile.ballots), k)))

    def hint_raise_ValueError(self, profile, elected):
        return keep_cands_distinct(profile.candidates, len(profile.candidates), union_upto(elected, len(elected)))


@contract("elections/election_types/scores/rating.py", "GeneralRating._run_step", props=("C05", "C01", "C10", "C09"), unfold=3)
class rating_run_step:
    """(same text as Plurality._run_step: rating.py repeats the body; for score ballots the per-ranking clause is about the
    rankings such ballots may carry besides their scores) The one round of a single-shot rule: the elected / remaining groups and the recorded tiebreak are exactly what
    elect_cands_from_set_ranking (proved) makes of the previous round's ranking -- the top m by tally, a tie straddling the last
    seat resolved by the recorded strict order, ValueError exactly when that tie cannot be broken or m is out of range --; the
    returned profile is the input profile with the elected candidates removed (per ranking: the weight of the input ballots that
    scrub to it); with store_states exactly one state is appended (round 1, those groups, the tallies of the returned profile),
    without it nothing is stored."""
    params = dict(self=Obj("GeneralRating", GR_FIELDS), profile=Profile, prev_state=StateRef, store_states=Bool)
    returns = Profile
    forall = dict(k=Seq(CSet))
    pure_unless = "store_states"  # frame (C09): nothing of self is stored outside `if store_states:`
    modifies = ("election_states",)  # the frame callers rely on: every other field keeps its entry value (obligation frame[self.<f> unchanged])

    def requires(self, profile, prev_state, store_states):
        return (all_nonneg(profile.ballots, len(profile.ballots)) and distinct(profile.candidates, len(profile.candidates))
                # the previous round ranks candidates of the profile (a tally-based tiebreak reads their tallies from it)
                and union_upto(prev_state.remaining, len(prev_state.remaining)) <= frozenset(profile.candidates))

    def raises_ValueError(self, profile, prev_state, store_states):
        return (self.m < 1 or self.m > count(prev_state.remaining, len(prev_state.remaining))
                or (count(prev_state.remaining, first_reach(prev_state.remaining, self.m, 0) + 1) > self.m
                    and (self.tiebreak is None or (self.tiebreak != "random" and self.tiebreak != "first_place" and self.tiebreak != "borda")))
                or (store_states and self.score_function is None))

    def ensures(self, old_self, profile, prev_state, store_states, result, k):
        return (implies(not store_states, self.election_states == old_self.election_states)
                and implies(store_states, len(self.election_states) == len(old_self.election_states) + 1
                            and self.election_states[:len(old_self.election_states)] == old_self.election_states
                            and self.election_states[-1].round_number == 1
                            and count(self.election_states[-1].elected, len(self.election_states[-1].elected)) == old_self.m
                            # no tie at the last seat: the first positions of the ranking are elected, the rest remains, nothing recorded
                            and implies(count(prev_state.remaining, first_reach(prev_state.remaining, old_self.m, 0) + 1) == old_self.m,
                                        self.election_states[-1].elected == prev_state.remaining[:first_reach(prev_state.remaining, old_self.m, 0) + 1]
                                        and self.election_states[-1].remaining == prev_state.remaining[first_reach(prev_state.remaining, old_self.m, 0) + 1:]
                                        and not self.election_states[-1].tiebreaks)
                            # a tie straddles the last seat: it is recorded with a strict order of exactly the tied set, which the round obeys
                            and implies(count(prev_state.remaining, first_reach(prev_state.remaining, old_self.m, 0) + 1) != old_self.m,
                                        bool(self.election_states[-1].tiebreaks)
                                        and lin(tb_value(self.election_states[-1]), prev_state.remaining[first_reach(prev_state.remaining, old_self.m, 0)])
                                        and self.election_states[-1].elected == prev_state.remaining[:first_reach(prev_state.remaining, old_self.m, 0)]
                                        + tb_value(self.election_states[-1])[:old_self.m - count(prev_state.remaining, first_reach(prev_state.remaining, old_self.m, 0))]
                                        and self.election_states[-1].remaining
                                        == tb_value(self.election_states[-1])[old_self.m - count(prev_state.remaining, first_reach(prev_state.remaining, old_self.m, 0)):]
                                        + prev_state.remaining[first_reach(prev_state.remaining, old_self.m, 0) + 1:]))
                and implies(store_states,
                            wrank(result.ballots, len(result.ballots), k)
                            == wrank(rc_prefix(profile.ballots, len(profile.ballots),
                                               union_upto(self.election_states[-1].elected, len(self.election_states[-1].elected))), len(profile.ballots), k)))

    def hint_raise_ValueError(self, profile, elected):
        return keep_cands_distinct(profile.candidates, len(profile.candidates), union_upto(elected, len(elected)))

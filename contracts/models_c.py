"""Contracts for votekit/models.py and the assumed constructor contract of PreferenceProfile"""
from pyvc.api import *
from specs.base import *


@contract("pref_profile.py", "PreferenceProfile.__init__", props=(), assumed=True)
class profile_init:
    """ASSUMED (A-PYD): pydantic runs cands_must_be_unique, find_num_ballots, find_total_ballot_wt,
    find_candidates_cast in that order; checked only by the bounded tier (C11)."""
    params = dict(ballots=Seq(Ballot), candidates=Seq(Str))
    returns = Profile
    trusted = ("assumed contract: PreferenceProfile(ballots, candidates) constructor (pydantic glue, A-PYD)",)

    def raises_ValueError(ballots, candidates):
        return len(candidates) > 0 and not distinct(candidates, len(candidates))

    def ensures(ballots, candidates, result):
        return (result.ballots == ballots and implies(len(candidates) > 0, result.candidates == candidates)
                and result.total_ballot_wt == wsum(ballots, len(ballots)) and result.num_ballots == len(ballots))


@contract("models.py", "Election._run_election", props=(), assumed=True)
class run_election:
    """ASSUMED abstract contract of the count when reached from a constructor: it records >= 1 state and
    can only fail with the boundary-tie ValueError (opaque predicate).  Election.__init__ itself is NOT
    assumed: its body is inlined into every constructor under contract (validation via the subclass's
    _validate_profile contract).  Per-rule runs are the subject of C01/C02 (obligations + bounded tier)."""
    params = dict(self=Obj("Election", dict(m=Int, tiebreak=Opt(Str), _profile=Profile, election_states=Seq(StateRef, "list"))))
    returns = NoneS
    modifies = ("election_states",)
    trusted = ("assumed contract: Election._run_election raises ValueError exactly on an unbroken boundary tie "
               "(opaque predicate boundary_tie) and otherwise records >= 1 state",)

    def raises_ValueError(self):
        return boundary_tie(self._profile, self.m, self.tiebreak)

    def ensures(self):
        return len(self.election_states) >= 1


@contract("models.py", "Election._run_election", props=(), assumed=True, receiver=("RandomDictator", "BoostedRandomDictator"))
class run_election_random:
    """ASSUMED: the random-dictator counts never raise ValueError from the run (ties are broken at random)"""
    params = dict(self=Obj("Election", dict(_profile=Profile, election_states=Seq(StateRef, "list"))))
    returns = NoneS
    modifies = ("election_states",)
    trusted = ("assumed contract: Election._run_election for RandomDictator/BoostedRandomDictator raises no ValueError",)

    def ensures(self):
        return len(self.election_states) >= 1


@contract("models.py", "Election._run_election", props=(), assumed=True, receiver=("Alaska",))
class run_election_alaska:
    """ASSUMED: as the default contract, with the second-stage seat count"""
    params = dict(self=Obj("Election", dict(m_2=Int, tiebreak=Opt(Str), _profile=Profile, election_states=Seq(StateRef, "list"))))
    returns = NoneS
    modifies = ("election_states",)
    trusted = ("assumed contract: Election._run_election for Alaska raises ValueError exactly on an unbroken boundary tie (opaque)",)

    def raises_ValueError(self):
        return boundary_tie(self._profile, self.m_2, self.tiebreak)

    def ensures(self):
        return len(self.election_states) >= 1

"""Contracts for votekit/models.py and the assumed constructor contract of PreferenceProfile"""
from pyvc.api import *
from specs.base import *
from specs.transfers import *


@contract("pref_profile.py", "PreferenceProfile.__init__", props=(), assumed=True)
class profile_init:
    """ASSUMED (A-PYD): pydantic runs cands_must_be_unique, find_num_ballots, find_total_ballot_wt,
    find_candidates_cast in that order; checked only by the bounded tier (C11)."""
    params = dict(ballots=Seq(Ballot), candidates=Seq(Str))
    returns = Profile
    trusted = ("assumed contract: PreferenceProfile(ballots, candidates) constructor (pydantic glue, A-PYD)",)

    def raises_ValueError(ballots, candidates):
        return len(candidates) > 0 and not distinct(candidates, len(candidates))

    def ensures(ballots, candidates, result):
        return (result.ballots == ballots and implies(len(candidates) > 0, result.candidates == candidates)
                and distinct(result.candidates, len(result.candidates))  # given: validated; not given: listed from a set
                and implies(len(candidates) == 0 and len(ballots) == 0, len(result.candidates) == 0)
                and result.total_ballot_wt == wsum(ballots, len(ballots)) and result.num_ballots == len(ballots))


@contract("models.py", "Election._run_election", props=(), assumed=True)
class run_election:
    """ASSUMED abstract contract of the count when reached from a constructor: it records >= 1 state and
    can only fail with the boundary-tie ValueError (opaque predicate).  Election.__init__ itself is NOT
    assumed: its body is inlined into every constructor under contract (validation via the subclass's
    _validate_profile contract).  Per-rule runs are the subject of C01/C02 (obligations + bounded tier)."""
    params = dict(self=Obj("Election", dict(m=Int, tiebreak=Opt(Str), _profile=Profile, election_states=Seq(StateRef, "list"))))
    returns = NoneS
    modifies = ("election_states",)
    trusted = ("assumed contract: Election._run_election raises ValueError exactly on an unbroken boundary tie "
               "(opaque predicate boundary_tie) and otherwise records >= 1 state",)

    def raises_ValueError(self):
        return boundary_tie(self._profile, self.m, self.tiebreak)

    def ensures(self):
        return len(self.election_states) >= 1


@contract("models.py", "Election._run_election", props=(), assumed=True, receiver=("RandomDictator", "BoostedRandomDictator"))
class run_election_random:
    """ASSUMED: the random-dictator counts never raise ValueError from the run (ties are broken at random)"""
    params = dict(self=Obj("Election", dict(_profile=Profile, election_states=Seq(StateRef, "list"))))
    returns = NoneS
    modifies = ("election_states",)
    trusted = ("assumed contract: Election._run_election for RandomDictator/BoostedRandomDictator raises no ValueError",)

    def ensures(self):
        return len(self.election_states) >= 1


@contract("models.py", "Election._run_election", props=(), assumed=True, receiver=("Alaska",))
class run_election_alaska:
    """ASSUMED: as the default contract, with the second-stage seat count"""
    params = dict(self=Obj("Election", dict(m_2=Int, tiebreak=Opt(Str), _profile=Profile, election_states=Seq(StateRef, "list"))))
    returns = NoneS
    modifies = ("election_states",)
    trusted = ("assumed contract: Election._run_election for Alaska raises ValueError exactly on an unbroken boundary tie (opaque)",)

    def raises_ValueError(self):
        return boundary_tie(self._profile, self.m_2, self.tiebreak)

    def ensures(self):
        return len(self.election_states) >= 1


EL_STATES = dict(election_states=Seq(StateRef, "list"))


@contract("models.py", "Election.get_elected", props=("C09", "C01"))
class get_elected:
    """IndexError iff the index is outside [-len, len-1]; a negative index addresses the same round as its non-negative
    equivalent (the normalised index is round_number mod len); the answer is the concatenation of the non-placeholder
    `elected` records of rounds 0..r, in order; nothing is modified (no store to self occurs in the body)."""
    params = dict(self=Obj("Election", EL_STATES), round_number=Int)
    returns = Seq(CSet)

    def requires(self, round_number):
        return len(self.election_states) >= 1

    def raises_IndexError(self, round_number):
        return round_number < -len(self.election_states) or round_number > len(self.election_states) - 1

    def ensures(self, old_self, round_number, result):
        return (result == cat_elected(self.election_states, (round_number if round_number >= 0 else round_number + len(self.election_states)) + 1)
                and self.election_states == old_self.election_states)

    def comp_0(self, round_number):
        return cat_elected(self.election_states[: (round_number + 1)], len(self.election_states[: (round_number + 1)]))

    def hint_return(self, round_number):
        return cat_elected_take(self.election_states, round_number + 1, round_number + 1)


@contract("models.py", "Election.get_eliminated", props=("C09", "C01"))
class get_eliminated:
    """same index rule; the answer lists, latest round first, the non-placeholder `eliminated` records of rounds r..0,
    each in reverse order; nothing is modified"""
    params = dict(self=Obj("Election", EL_STATES), round_number=Int)
    returns = Seq(CSet)

    def requires(self, round_number):
        return len(self.election_states) >= 1

    def raises_IndexError(self, round_number):
        return round_number < -len(self.election_states) or round_number > len(self.election_states) - 1

    def ensures(self, old_self, round_number, result):
        return (result == cat_eliminated_rev(
            reversed_seq(self.election_states[:(round_number if round_number >= 0 else round_number + len(self.election_states)) + 1]),
            (round_number if round_number >= 0 else round_number + len(self.election_states)) + 1)
            and self.election_states == old_self.election_states)

    def comp_0(self, round_number):
        return cat_eliminated_rev(self.election_states[round_number::-1], len(self.election_states[round_number::-1]))


@contract("models.py", "Election.get_remaining", props=("C09", "C01"), implicit_raises=("IndexError",))
class get_remaining:
    """the recorded `remaining` of the addressed round (python list indexing: IndexError iff outside [-len, len-1];
    negative indices address round r+len)"""
    params = dict(self=Obj("Election", EL_STATES), round_number=Int)
    returns = Seq(CSet)

    def raises_IndexError(self, round_number):
        return round_number < -len(self.election_states) or round_number > len(self.election_states) - 1

    def ensures(self, old_self, round_number, result):
        return (result == self.election_states[round_number if round_number >= 0 else round_number + len(self.election_states)].remaining
                and self.election_states == old_self.election_states)


@contract("models.py", "Election.get_ranking", props=("C09", "C01"))
class get_ranking:
    """elected ++ remaining ++ eliminated of the round without empty positions; IndexError as for the parts"""
    params = dict(self=Obj("Election", EL_STATES), round_number=Int)
    returns = Seq(CSet)

    def requires(self, round_number):
        return len(self.election_states) >= 1

    def raises_IndexError(self, round_number):
        return round_number < -len(self.election_states) or round_number > len(self.election_states) - 1

    def ensures(self, old_self, round_number, result):
        return (result == nonempty_only(
            cat_elected(self.election_states, (round_number if round_number >= 0 else round_number + len(self.election_states)) + 1)
            + self.election_states[round_number if round_number >= 0 else round_number + len(self.election_states)].remaining
            + cat_eliminated_rev(
                reversed_seq(self.election_states[:(round_number if round_number >= 0 else round_number + len(self.election_states)) + 1]),
                (round_number if round_number >= 0 else round_number + len(self.election_states)) + 1),
            len(cat_elected(self.election_states, (round_number if round_number >= 0 else round_number + len(self.election_states)) + 1))
            + len(self.election_states[round_number if round_number >= 0 else round_number + len(self.election_states)].remaining)
            + len(cat_eliminated_rev(
                reversed_seq(self.election_states[:(round_number if round_number >= 0 else round_number + len(self.election_states)) + 1]),
                (round_number if round_number >= 0 else round_number + len(self.election_states)) + 1)))
            and self.election_states == old_self.election_states)

    def comp_0(self, round_number):
        return nonempty_only(self.get_elected(round_number) + self.get_remaining(round_number) + self.get_eliminated(round_number),
                             len(self.get_elected(round_number) + self.get_remaining(round_number) + self.get_eliminated(round_number)))


@contract("models.py", "Election._run_step", props=(), assumed=True)
class run_step_abstract:
    """ASSUMED abstract contract used by get_profile: with store_states=False the step is a function of (profile, state)
    and modifies nothing.  The `modifies nothing` half is discharged per rule by the frame obligations below
    (effect scan of the real _run_step bodies); the `function of its arguments` half holds when no random draw is made
    (the C09 statement's proviso) and is otherwise covered only by the bounded tier."""
    params = dict(self=Obj("Election", {}), profile=Profile, prev_state=StateRef, store_states=Bool)
    returns = Profile
    trusted = ("assumed contract: Election._run_step(profile, state, store_states=False) is a function of (profile, state) (no random draw)",)

    def result(profile, prev_state):
        return step_fn(profile, prev_state)


@contract("models.py", "Election.get_profile", props=("C09",))
class get_profile:
    """IndexError iff out of range; otherwise the initial profile pushed through rounds 0..r-1 by the rule's step, for the
    normalised index (negative indices address round r+len); nothing is modified"""
    params = dict(self=Obj("Election", dict(election_states=Seq(StateRef, "list"), _profile=Profile)), round_number=Int)
    returns = Profile
    locals = dict(profile=Profile)

    def requires(self, round_number):
        return len(self.election_states) >= 1

    def raises_IndexError(self, round_number):
        return round_number < -len(self.election_states) or round_number > len(self.election_states) - 1

    def ensures(self, old_self, round_number, result):
        return (result == replay(self._profile, self.election_states, round_number if round_number >= 0 else round_number + len(self.election_states))
                and self.election_states == old_self.election_states and self._profile == old_self._profile)

    def invariant_0(self, profile, _k):
        return profile == replay(self._profile, self.election_states, _k)

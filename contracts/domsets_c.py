"""Contracts for DominatingSets (elections/election_types/ranking/dominating_sets.py) against ASSUMED contracts of the pairwise
comparison graph object -- C06 (elects exactly the top tier), C01, C09"""
from pyvc.api import *
from specs.base import *
from specs.stv import *
from specs.transfers import *
from specs.editing import *
from specs.tiers import *

R = "elections/election_types/ranking/"
PCG = "graphs/pairwise_comparison_graph.py"
PCG_FIELDS = dict(profile=Profile, candidates=Seq(Str))
DS_FIELDS = dict(_profile=Profile, election_states=Seq(StateRef, "list"), score_function=Opt(Fn), sort_high_low=Bool)


@contract(PCG, "PairwiseComparisonGraph.__init__", props=(), assumed=True)
class pcg_init_assumed:
    params = dict(self=Obj("PairwiseComparisonGraph", PCG_FIELDS), profile=Profile, ballot_length=Opt(Int))
    returns = NoneS
    trusted = ("assumed contract: PairwiseComparisonGraph(profile) stores the filled profile (opaque spec function filled; "
               "itertools.permutations / networkx are outside the subset) and its candidates; TypeError iff a ballot has no ranking; "
               "the object's other fields (pairwise_dict, pairwise_graph) are not modelled (audited by bounded/C06)",)

    def raises_TypeError(self, profile, ballot_length):
        return not all_truthy_rankings(profile.ballots, len(profile.ballots))

    def ensures(self, profile, ballot_length):
        return implies(ballot_length is None, self.profile == filled(profile) and self.candidates == filled(profile).candidates)


@contract(PCG, "PairwiseComparisonGraph.dominating_tiers", props=(), assumed=True)
class dominating_tiers_assumed:
    params = dict(self=Obj("PairwiseComparisonGraph", PCG_FIELDS))
    returns = Seq(CSet, "list")
    trusted = ("assumed contract: dominating_tiers() returns tiers_of(stored profile) (opaque), a partition of the stored candidates into "
               "non-empty tiers (that reach-size tiers are the dominating tiers is Lean lemma L06; that the code computes reach-size "
               "tiers is audited by bounded/C06)",)

    def result(self):
        return tiers_of(self.profile)

    def ensures(self, result):
        return (nonempty_positions(result, len(result)) and count(result, len(result)) == len(self.candidates)
                and union_upto(result, len(result)) == frozenset(self.candidates)
                and implies(len(self.candidates) >= 1, len(result) >= 1))


def _ds_wit():
    from votekit.ballot import Ballot
    from votekit.pref_profile import PreferenceProfile
    from votekit.elections import DominatingSets
    A, B, C = frozenset("A"), frozenset("B"), frozenset("C")
    p = PreferenceProfile(ballots=(Ballot(ranking=(A, B, C), weight=Fraction(3)), Ballot(ranking=(B, A), weight=Fraction(2)),
                                   Ballot(ranking=(C, A, B), weight=Fraction(1, 2))), candidates=("A", "B", "C"))
    cyc = PreferenceProfile(ballots=(Ballot(ranking=(A, B, C), weight=Fraction(1)), Ballot(ranking=(B, C, A), weight=Fraction(1)),
                                     Ballot(ranking=(C, A, B), weight=Fraction(1))), candidates=("A", "B", "C"))
    return DominatingSets, p, cyc


@contract(R + "dominating_sets.py", "DominatingSets._run_step", props=("C06", "C01", "C09"), unfold=3)
class domsets_run_step:
    """DominatingSets elects exactly the top dominating tier: the round's state (recorded iff store_states) has the first tier of
    dominating_tiers() of the graph built from the profile as its one elected position, the other tiers in order as remaining, the
    next round number; the returned profile is the input profile with exactly the top tier's candidates removed (per ranking: the
    weight of the input ballots that scrub to it).  TypeError iff a ballot has no ranking."""
    params = dict(self=Obj("DominatingSets", DS_FIELDS), profile=Profile, prev_state=StateRef, store_states=Bool)
    returns = Profile
    forall = dict(k=Seq(CSet))
    pure_unless = "store_states"
    modifies = ("election_states",)

    def witnesses():
        DS, p, cyc = _ds_wit()
        import types
        out = []
        for q in (p, cyc):
            for ss in (True, False):
                o = object.__new__(DS)
                o._profile, o.election_states, o.score_function, o.sort_high_low = q, [], None, True
                from votekit.elections import ElectionState
                out.append(dict(self=o, profile=q, prev_state=ElectionState(remaining=(frozenset(q.candidates),)), store_states=ss, k=(frozenset("B"), frozenset("C"))))
        return out

    def requires(self, profile, prev_state, store_states):
        return (all_nonneg(profile.ballots, len(profile.ballots)) and distinct(profile.candidates, len(profile.candidates))
                and len(filled(profile).candidates) >= 1)

    def raises_TypeError(self, profile, prev_state, store_states):
        return not all_truthy_rankings(profile.ballots, len(profile.ballots))

    def ensures(self, old_self, profile, prev_state, store_states, result, k):
        return (implies(not store_states, self.election_states == old_self.election_states)
                and implies(store_states, len(self.election_states) == len(old_self.election_states) + 1
                            and self.election_states[:len(old_self.election_states)] == old_self.election_states
                            and self.election_states[-1].round_number == prev_state.round_number + 1
                            and self.election_states[-1].elected == (tiers_of(filled(profile))[0],)
                            and self.election_states[-1].remaining == tiers_of(filled(profile))[1:])
                and wrank(result.ballots, len(result.ballots), k)
                == wrank(rc_prefix(profile.ballots, len(profile.ballots), tiers_of(filled(profile))[0]), len(profile.ballots), k))

    def hint_raise_ValueError(self, profile, dominating_tiers):
        return keep_cands_distinct(profile.candidates, len(profile.candidates), dominating_tiers[0])


@contract(R + "dominating_sets.py", "DominatingSets._is_finished", props=("C01",))
class domsets_is_finished:
    """finished iff two states (initial + the round) are recorded; nothing is modified"""
    params = dict(self=Obj("DominatingSets", DS_FIELDS))
    returns = Bool
    modifies = ()

    def ensures(self, result):
        return result == (len(self.election_states) == 2)


@contract("models.py", "Election._run_election", props=("C06", "C01"), receiver=("DominatingSets/run",), unfold=3)
class run_election_domsets:
    """DominatingSets, whole run: from a fresh election (no state, no score function) the initial state holds all candidates as one
    tied position, exactly ONE round follows and the loop terminates (variant 2 - number of states): two states, and the last one
    elects exactly the top dominating tier of the profile's pairwise comparison graph, the remaining tiers staying in order.
    TypeError iff a ballot has no ranking."""
    params = dict(self=Obj("DominatingSets", DS_FIELDS))
    returns = NoneS
    modifies = ("election_states",)

    def witnesses():
        DS, p, cyc = _ds_wit()
        out = []
        for q in (p, cyc):
            o = object.__new__(DS)
            o._profile, o.election_states, o.score_function, o.sort_high_low = q, [], None, True
            out.append(dict(self=o))
        return out

    def requires(self):
        return (len(self.election_states) == 0 and self.score_function is None
                and all_nonneg(self._profile.ballots, len(self._profile.ballots))
                and distinct(self._profile.candidates, len(self._profile.candidates))
                and len(filled(self._profile).candidates) >= 1)

    def raises_TypeError(self):
        return not all_truthy_rankings(self._profile.ballots, len(self._profile.ballots))

    def ensures(self, old_self):
        return (len(self.election_states) == 2
                and self.election_states[0].remaining == (frozenset(old_self._profile.candidates),)
                and self.election_states[1].elected == (tiers_of(filled(old_self._profile))[0],)
                and self.election_states[1].remaining == tiers_of(filled(old_self._profile))[1:])

    def invariant_0(self, profile):
        return (1 <= len(self.election_states) and len(self.election_states) <= 2
                and self.election_states[0].remaining == (frozenset(self._profile.candidates),)
                and implies(len(self.election_states) == 1, profile == self._profile)
                and implies(len(self.election_states) == 2,
                            self.election_states[1].elected == (tiers_of(filled(self._profile))[0],)
                            and self.election_states[1].remaining == tiers_of(filled(self._profile))[1:]
                            and all_truthy_rankings(self._profile.ballots, len(self._profile.ballots))))

    def decreases_0(self):
        return 2 - len(self.election_states)

"""Contract for utils.ballots_by_first_cand -- C02, C03"""
from pyvc.api import *
from specs.base import *
from specs.byfirst import *


@contract("utils.py", "ballots_by_first_cand", props=("C02", "C03"), unfold=3)
class ballots_by_first_cand_c:
    """the profile's ballots grouped by their single first candidate: keys = the profile's candidates, every candidate's list = the
    ballots led by it, in profile order; TypeError / ValueError exactly when the first ballot that is unranked / tied for first is
    unranked / tied.  Requires first positions to be non-empty and to list candidates of the profile (else IndexError / KeyError)."""
    params = dict(profile=Profile)
    returns = LDict
    forall = dict(x=Str)
    locals = dict(cand_dict=LDict)

    def witnesses():
        from votekit.ballot import Ballot
        from votekit.pref_profile import PreferenceProfile
        A, B = frozenset("A"), frozenset("B")
        p = PreferenceProfile(ballots=(Ballot(ranking=(A, B), weight=Fraction(3)), Ballot(ranking=(B,), weight=Fraction(1, 2)), Ballot(ranking=(A,), weight=Fraction(1))),
                              candidates=("A", "B", "C"))
        return [dict(profile=p, x="A"), dict(profile=p, x="C")]

    def requires(profile):
        return firsts_ok(profile.ballots, len(profile.ballots), frozenset(profile.candidates))

    def raises_TypeError(profile):
        return (first_bad(profile.ballots, len(profile.ballots)) >= 0
                and not bool(profile.ballots[first_bad(profile.ballots, len(profile.ballots))].ranking))

    def raises_ValueError(profile):
        return (first_bad(profile.ballots, len(profile.ballots)) >= 0
                and bool(profile.ballots[first_bad(profile.ballots, len(profile.ballots))].ranking))

    def ensures(profile, result, x):
        return (frozenset(result.keys()) == frozenset(profile.candidates)
                and implies(x in profile.candidates, result[x] == list(by_first(profile.ballots, len(profile.ballots), x))))

    def invariant_0(profile, cand_dict, x, _k):
        return (frozenset(cand_dict.keys()) == frozenset(profile.candidates) and first_bad(profile.ballots, _k) < 0
                and implies(x in profile.candidates, cand_dict[x] == list(by_first(profile.ballots, _k, x))))

    def hint_body_0(profile, _k):
        return firsts_ok_nth(profile.ballots, len(profile.ballots), frozenset(profile.candidates), _k)

    def hint_raise_TypeError(profile, _k):
        return first_bad_stable(profile.ballots, _k + 1, len(profile.ballots)) and first_bad_range(profile.ballots, _k)

    def hint_raise_ValueError(profile, _k):
        return first_bad_stable(profile.ballots, _k + 1, len(profile.ballots)) and first_bad_range(profile.ballots, _k)

"""Frame obligations (C09): with store_states=False a rule's _run_step stores to no field of self, transitively
through the self.<method> calls it makes (effect scan of the real AST; nothing is executed symbolically here).
Rules whose _run_step has a full contract elsewhere (STV, Plurality, Borda, GeneralRating, RandomDictator, DominatingSets, CondoBorda) carry the same frame
obligation there (`pure_unless`) and are NOT listed here: a later registration under the same key would replace the full contract."""
from pyvc.api import *

R = "elections/election_types/ranking/"


def _frame(relpath, qual, props=("C09",)):
    @contract(relpath, qual, props=props)
    class _c:
        params = {}
        pure_unless = "store_states"
        frame_only = True
    _c.__name__ = "frame_" + qual.replace(".", "_")
    return _c


for _rel, _q in ((R + "top_two.py", "TopTwo._run_step"), (R + "alaska.py", "Alaska._run_step"),
                 (R + "boosted_random_dictator.py", "BoostedRandomDictator._run_step"),
                 (R + "plurality_veto.py", "PluralityVeto._run_step")):
    _frame(_rel, _q)

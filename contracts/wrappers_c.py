"""Proved contracts of the scoring wrappers first_place_votes / borda_scores (utils.py) -- C04.  They are registered under a variant tag no
call site matches: callers under contract keep using the abstract (assumed) contracts their proofs were built on (opaque fpv_of / borda_of)."""
from pyvc.api import *
from specs.base import *
from specs.scoring import *
from specs.wrappers import *


@contract("utils.py", "first_place_votes", props=("C04",), when=("Profile", "proved"), unfold=3)
class first_place_votes_proved:
    """exact mode: the first-place tallies are the positional scores for the vector (1, 0, ..., 0): every candidate's tally is the sum over
    the ballots of weight x its share of the first position (1/t for a first position of t tied candidates); TypeError iff a ballot has
    no ranking"""
    params = dict(profile=Profile, to_float=Bool)
    returns = Dict(Real)
    forall = dict(x=Str)

    def witnesses():
        from votekit.ballot import Ballot
        from votekit.pref_profile import PreferenceProfile
        A, B = frozenset("A"), frozenset("B")
        p = PreferenceProfile(ballots=(Ballot(ranking=(A, B), weight=Fraction(3)), Ballot(ranking=(frozenset("BC"),), weight=Fraction(1, 2))), candidates=("A", "B", "C"))
        return [dict(profile=p, to_float=False, x="B"), dict(profile=p, to_float=False, x="A")]

    def requires(profile, to_float):
        return (not to_float and len(profile.candidates) > 0 and distinct(profile.candidates, len(profile.candidates))
                and implies(all_ranked(profile.ballots, len(profile.ballots)),
                            all_rk_ok(profile.ballots, len(profile.ballots), frozenset(profile.candidates))))

    def raises_TypeError(profile, to_float):
        return not all_ranked(profile.ballots, len(profile.ballots))

    def ensures(profile, to_float, result, x):
        return (frozenset(result.keys()) == frozenset(profile.candidates)
                and implies(x in profile.candidates,
                            result[x] == wpts(amc_prefix(profile.ballots, len(profile.ballots), frozenset(profile.candidates)), len(profile.ballots),
                                              (Fraction(1),) + repl(0, len(profile.candidates)), x)))

    def hint_return(profile):
        return one_zeros_ok(len(profile.candidates)) and repl_len(Fraction(0), len(profile.candidates))

    def hint_raise_ValueError(profile):
        return one_zeros_ok(len(profile.candidates)) and repl_len(Fraction(0), len(profile.candidates))


@contract("utils.py", "borda_scores", props=("C04",), when=("Profile", "proved"), unfold=3)
class borda_scores_proved:
    """exact mode: the Borda scores are the positional scores for the vector (n, n-1, ..., 1), n = number of listed candidates (ties and
    unlisted candidates share the average of their places); TypeError iff a ballot has no ranking"""
    params = dict(profile=Profile, to_float=Bool)
    returns = Dict(Real)
    forall = dict(x=Str)

    def witnesses():
        from votekit.ballot import Ballot
        from votekit.pref_profile import PreferenceProfile
        A, B = frozenset("A"), frozenset("B")
        p = PreferenceProfile(ballots=(Ballot(ranking=(A, B), weight=Fraction(3)), Ballot(ranking=(frozenset("BC"),), weight=Fraction(1, 2))), candidates=("A", "B", "C"))
        return [dict(profile=p, to_float=False, x="B"), dict(profile=p, to_float=False, x="C")]

    def requires(profile, to_float):
        return (not to_float and len(profile.candidates) > 0 and distinct(profile.candidates, len(profile.candidates))
                and implies(all_ranked(profile.ballots, len(profile.ballots)),
                            all_rk_ok(profile.ballots, len(profile.ballots), frozenset(profile.candidates))))

    def raises_TypeError(profile, to_float):
        return not all_ranked(profile.ballots, len(profile.ballots))

    def ensures(profile, to_float, result, x):
        return (frozenset(result.keys()) == frozenset(profile.candidates)
                and implies(x in profile.candidates,
                            result[x] == wpts(amc_prefix(profile.ballots, len(profile.ballots), frozenset(profile.candidates)), len(profile.ballots),
                                              desc(len(profile.candidates), len(profile.candidates)), x)))

    def hint_return(profile):
        return desc_ok(len(profile.candidates), len(profile.candidates)) and desc_len(len(profile.candidates), len(profile.candidates))

    def hint_raise_ValueError(profile):
        return desc_ok(len(profile.candidates), len(profile.candidates)) and desc_len(len(profile.candidates), len(profile.candidates))

    def hint_raise_TypeError(profile):
        return desc_ok(len(profile.candidates), len(profile.candidates)) and desc_len(len(profile.candidates), len(profile.candidates))

"""CondoBorda: _is_finished and the whole run (Election._run_election with CondoBorda's round) -- C06, C01"""
from pyvc.api import *
from specs.base import *
from specs.stv import *
from specs.transfers import *
from specs.editing import *
from specs.tiers import *
from contracts.condo_c import CB_FIELDS

R = "elections/election_types/ranking/"
CBR_FIELDS = dict(CB_FIELDS, score_function=Fn)  # the run calls the score function: a function value, not None


@contract(R + "condo_borda.py", "CondoBorda._is_finished", props=("C01",))
class condo_is_finished:
    """finished iff two states (initial + the round) are recorded; nothing is modified"""
    params = dict(self=Obj("CondoBorda", CB_FIELDS))
    returns = Bool
    modifies = ()

    def ensures(self, result):
        return result == (len(self.election_states) == 2)


@contract("models.py", "Election._run_election", props=("C06", "C01"), receiver=("CondoBorda/run",), unfold=3)
class run_election_condo:
    """CondoBorda, whole run: the initial state (the ranking score_dict_to_ranking makes of the score function's tallies), exactly ONE
    round, and the loop terminates (variant 2 - number of states): two states, the last one electing exactly m candidates -- by the
    round's contract whole dominating tiers in order, a straddling tier resolved by a recorded strict order.  ValueError iff m is out of
    range (m < 1 or more than the candidates the tiers hold); TypeError iff a ballot has no ranking."""
    params = dict(self=Obj("CondoBorda", CBR_FIELDS))
    returns = NoneS
    modifies = ("election_states",)

    def witnesses():
        from votekit.ballot import Ballot
        from votekit.pref_profile import PreferenceProfile
        from votekit.elections import CondoBorda
        from votekit.utils import borda_scores
        A, B, C = frozenset("A"), frozenset("B"), frozenset("C")
        p = PreferenceProfile(ballots=(Ballot(ranking=(A, B, C), weight=Fraction(3)), Ballot(ranking=(B, A), weight=Fraction(2)),
                                       Ballot(ranking=(C, A, B), weight=Fraction(1, 2))), candidates=("A", "B", "C"))
        cyc = PreferenceProfile(ballots=(Ballot(ranking=(A, B, C), weight=Fraction(2)), Ballot(ranking=(B, C, A), weight=Fraction(1)),
                                         Ballot(ranking=(C, A, B), weight=Fraction(1))), candidates=("A", "B", "C"))
        out = []
        for q, m in ((p, 1), (p, 2), (cyc, 1), (cyc, 2), (p, 4)):
            o = object.__new__(CondoBorda)
            o.m, o._profile, o.election_states, o.score_function, o.sort_high_low = m, q, [], borda_scores, True
            out.append(dict(self=o))
        return out

    def requires(self):
        return (len(self.election_states) == 0 and self.score_function is not None
                and all_nonneg(self._profile.ballots, len(self._profile.ballots))
                and distinct(self._profile.candidates, len(self._profile.candidates))
                and frozenset(filled(self._profile).candidates) <= frozenset(self._profile.candidates))

    def raises_TypeError(self):
        return not all_truthy_rankings(self._profile.ballots, len(self._profile.ballots))

    def raises_ValueError(self):
        return self.m < 1 or self.m > count(tiers_of(filled(self._profile)), len(tiers_of(filled(self._profile))))

    def ensures(self, old_self):
        return (len(self.election_states) == 2
                and self.election_states[0].remaining == ranking_of(score_by(old_self.score_function, old_self._profile))
                and self.election_states[1].round_number == 1
                and count(self.election_states[1].elected, len(self.election_states[1].elected)) == old_self.m)

    def invariant_0(self, profile):
        return (1 <= len(self.election_states) and len(self.election_states) <= 2
                and self.election_states[0].remaining == ranking_of(score_by(self.score_function, self._profile))
                and self.election_states[0].round_number == 0
                and implies(len(self.election_states) == 1, profile == self._profile)
                and implies(len(self.election_states) == 2,
                            self.election_states[1].round_number == 1
                            and count(self.election_states[1].elected, len(self.election_states[1].elected)) == self.m
                            and all_truthy_rankings(self._profile.ballots, len(self._profile.ballots))
                            and not (self.m < 1 or self.m > count(tiers_of(filled(self._profile)), len(tiers_of(filled(self._profile)))))))

    def decreases_0(self):
        return 2 - len(self.election_states)

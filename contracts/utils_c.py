"""Contracts for votekit/utils.py"""
from pyvc.api import *
from specs.base import *
from specs.tiebreak import *
from specs.stv import fp_sorted


@contract("utils.py", "validate_score_vector", props=("C04", "C20"))
class validate_score_vector:
    params = dict(score_vector=Seq(Real))
    returns = NoneS

    def raises_ValueError(score_vector):
        return not vec_ok(score_vector, len(score_vector))

    def invariant_0(score_vector, _k):
        return vec_ok(score_vector, _k)

    def hint_raise_ValueError(score_vector, i):
        return vec_ok_prefix(score_vector, i + 1, len(score_vector))


@contract("utils.py", "borda_scores", props=(), assumed=True)
class borda_assumed:
    params = dict(profile=Profile, to_float=Bool)
    returns = Dict(Real)
    trusted = ("assumed contract: borda_scores (result named by the opaque spec function borda_of, keyed by the profile's candidates)",)

    def result(profile):
        return borda_of(profile)

    def ensures(profile, result):
        return frozenset(result.keys()) == frozenset(profile.candidates)


@contract("utils.py", "tiebroken_ranking", props=(), assumed=True)
class tiebroken_ranking_assumed:
    """ASSUMED (slice stores into a pre-sized list and a dict keyed by frozensets are outside the subset; mutually recursive with
    tiebreak_set -- assuming it in tiebreak_set's proof is the usual modular treatment of partial correctness): with the random
    tiebreak the first component lists every candidate of the ranking exactly once, as single-candidate positions"""
    params = dict(ranking=Seq(CSet), profile=Opt(Profile), tiebreak=Str)
    returns = Tup(Seq(CSet), TBDictS)
    trusted = ("assumed contract: tiebroken_ranking(ranking, profile, 'random')[0] is a sequence of single-candidate sets listing the ranking's candidates once each",)

    def ensures(ranking, profile, tiebreak, result):
        return implies(tiebreak == "random",
                       singletons(result[0], len(result[0])) and len(result[0]) == count(ranking, len(ranking))
                       and union_upto(result[0], len(result[0])) == union_upto(ranking, len(ranking)))


@contract("utils.py", "tiebreak_set", props=("C10", "C01", "C17"), unfold=3)
class tiebreak_set:
    """the result is a strict order (single-candidate positions) of exactly the given set -- also when the secondary tally
    separates only some of the tied candidates (then the random fallback must run); ValueError iff the tiebreak code is unknown or
    a score-based tiebreak has no profile.  Requires the tied candidates to be listed in the profile whose tallies break the tie.
    The random permutation is random.sample's (A-LIB); score_dict_to_ranking / tiebroken_ranking are assumed callee contracts."""
    params = dict(r_set=CSet, profile=Opt(Profile), tiebreak=Str)
    returns = Seq(CSet)
    locals = dict(tiebreak_scores=Dict(Real))
    trusted = ("assumed clause: with tiebreak 'first_place' the resolution is ordered by first-place votes (opaque fp_sorted; checked by bounded/C10)",)

    def witnesses():
        from votekit.ballot import Ballot
        from votekit.pref_profile import PreferenceProfile
        A, B, C = frozenset("A"), frozenset("B"), frozenset("C")
        p = PreferenceProfile(ballots=(Ballot(ranking=(A, B, C), weight=Fraction(3)), Ballot(ranking=(B, A), weight=Fraction(3)), Ballot(ranking=(C,), weight=Fraction(3))),
                              candidates=("A", "B", "C"))
        return [dict(r_set=frozenset("ABC"), profile=None, tiebreak="random"), dict(r_set=frozenset("ABC"), profile=p, tiebreak="borda"),
                dict(r_set=frozenset("BC"), profile=p, tiebreak="first_place")]

    def requires(r_set, profile, tiebreak):
        return tiebreak == "random" or profile is None or r_set <= frozenset(profile.candidates)

    def raises_ValueError(r_set, profile, tiebreak):
        return tiebreak != "random" and (profile is None or (tiebreak != "first_place" and tiebreak != "borda"))

    def ensures(r_set, profile, tiebreak, result):
        return lin(result, r_set)

    def assumed_ensures(r_set, profile, tiebreak, result):
        return implies(tiebreak == "first_place" and profile is not None, fp_sorted(result, profile))

    def comp_0(_src):
        return singl(_src, len(_src))

    def hint_comp_0(_src):
        return singl_lin(_src, len(_src)) and singl_len(_src, len(_src))

    def comp_2(new_ranking):
        return has_tie(new_ranking, len(new_ranking))

    def hint_comp_2(new_ranking):
        return le1_singletons(new_ranking, len(new_ranking)) and count_singletons_n(new_ranking, len(new_ranking))


@contract("utils.py", "elect_cands_from_set_ranking", props=("C01", "C04", "C05", "C10", "C20"))
class elect_cands_from_set_ranking:
    """elect the top m of a set-ranking; s = index of the position at which the m-th seat falls"""
    params = dict(ranking=Seq(CSet), m=Int, profile=Opt(Profile), tiebreak=Opt(Str))
    returns = Tup(Seq(CSet), Seq(CSet), Opt(Tup(CSet, Seq(CSet))))
    locals = dict(elected=Seq(CSet, "list"))

    def requires(ranking, m, profile, tiebreak):
        # a tally-based tiebreak needs the tallies of the tied candidates: they are candidates of the profile it is given
        return (tiebreak is None or tiebreak == "random" or profile is None
                or union_upto(ranking, len(ranking)) <= frozenset(profile.candidates))

    def hint_body_0(ranking, i):
        return union_member(ranking, len(ranking), i)

    def raises_ValueError(ranking, m, profile, tiebreak):
        return (m < 1 or m > count(ranking, len(ranking))
                or (count(ranking, first_reach(ranking, m, 0) + 1) > m
                    and (tiebreak is None
                         or (tiebreak != "random" and (profile is None or (tiebreak != "first_place" and tiebreak != "borda"))))))

    def ensures(ranking, m, profile, tiebreak, result):
        return (count(result[0], len(result[0])) == m
                and implies(count(ranking, first_reach(ranking, m, 0) + 1) == m,
                            result[2] is None
                            and result[0] == ranking[:first_reach(ranking, m, 0) + 1]
                            and result[1] == ranking[first_reach(ranking, m, 0) + 1:])
                and implies(count(ranking, first_reach(ranking, m, 0) + 1) != m,
                            result[2] is not None
                            and result[2][0] == ranking[first_reach(ranking, m, 0)]
                            and lin(result[2][1], ranking[first_reach(ranking, m, 0)])
                            and result[0] == ranking[:first_reach(ranking, m, 0)]
                            + result[2][1][:m - count(ranking, first_reach(ranking, m, 0))]
                            and result[1] == result[2][1][m - count(ranking, first_reach(ranking, m, 0)):]
                            + ranking[first_reach(ranking, m, 0) + 1:]))

    def invariant_0(ranking, m, i, num_elected, elected):
        return (0 <= i and i <= len(ranking) and num_elected == count(ranking, i)
                and elected == list(ranking[:i])
                and ((num_elected < m and first_reach(ranking, m, 0) == first_reach(ranking, m, i))
                     or (num_elected == m and i >= 1 and first_reach(ranking, m, 0) == i - 1
                         and count(ranking, i) == m)))

    def decreases_0(ranking, i):
        return len(ranking) - i

    def hint_inv_0(ranking, i):
        return take_snoc(ranking, i - 1)

    def hint_return_a(ranking, i):
        return count_take(ranking, i, i)

    def hint_return_b(ranking, i, m, tiebroken_ranking, num_elected):
        return (count_take(ranking, i, i)
                and count_append(ranking[:i], tiebroken_ranking[:m - num_elected], m - num_elected)
                and count_take(tiebroken_ranking, m - num_elected, m - num_elected)
                and count_singletons(tiebroken_ranking, m - num_elected))

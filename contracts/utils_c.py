"""Contracts for votekit/utils.py"""
from pyvc.api import *
from specs.base import *
from specs.stv import fp_sorted


@contract("utils.py", "validate_score_vector", props=("C04", "C20"))
class validate_score_vector:
    params = dict(score_vector=Seq(Real))
    returns = NoneS

    def raises_ValueError(score_vector):
        return not vec_ok(score_vector, len(score_vector))

    def invariant_0(score_vector, _k):
        return vec_ok(score_vector, _k)

    def hint_raise_ValueError(score_vector, i):
        return vec_ok_prefix(score_vector, i + 1, len(score_vector))


@contract("utils.py", "tiebreak_set", props=("C10",), assumed=True)
class tiebreak_set:
    """ASSUMED callee contract of elect_cands_from_set_ranking (its body uses sorted / dict-of-lists / random.sample and
    is outside the verifier's subset); checked only by the bounded tiers of C10/C17"""
    params = dict(r_set=CSet, profile=Opt(Profile), tiebreak=Str)
    returns = Seq(CSet)
    trusted = ("assumed contract: tiebreak_set returns a strict order (sequence of singletons) of exactly the given set; ValueError iff unknown code or missing profile",)

    def raises_ValueError(r_set, profile, tiebreak):
        return tiebreak != "random" and (profile is None or (tiebreak != "first_place" and tiebreak != "borda"))

    def ensures(r_set, profile, tiebreak, result):
        return lin(result, r_set) and implies(tiebreak == "first_place" and profile is not None, fp_sorted(result, profile))


@contract("utils.py", "elect_cands_from_set_ranking", props=("C01", "C04", "C05", "C10", "C20"))
class elect_cands_from_set_ranking:
    """elect the top m of a set-ranking; s = index of the position at which the m-th seat falls"""
    params = dict(ranking=Seq(CSet), m=Int, profile=Opt(Profile), tiebreak=Opt(Str))
    returns = Tup(Seq(CSet), Seq(CSet), Opt(Tup(CSet, Seq(CSet))))
    locals = dict(elected=Seq(CSet, "list"))

    def raises_ValueError(ranking, m, profile, tiebreak):
        return (m < 1 or m > count(ranking, len(ranking))
                or (count(ranking, first_reach(ranking, m, 0) + 1) > m
                    and (tiebreak is None
                         or (tiebreak != "random" and (profile is None or (tiebreak != "first_place" and tiebreak != "borda"))))))

    def ensures(ranking, m, profile, tiebreak, result):
        return (count(result[0], len(result[0])) == m
                and implies(count(ranking, first_reach(ranking, m, 0) + 1) == m,
                            result[2] is None
                            and result[0] == ranking[:first_reach(ranking, m, 0) + 1]
                            and result[1] == ranking[first_reach(ranking, m, 0) + 1:])
                and implies(count(ranking, first_reach(ranking, m, 0) + 1) != m,
                            result[2] is not None
                            and result[2][0] == ranking[first_reach(ranking, m, 0)]
                            and lin(result[2][1], ranking[first_reach(ranking, m, 0)])
                            and result[0] == ranking[:first_reach(ranking, m, 0)]
                            + result[2][1][:m - count(ranking, first_reach(ranking, m, 0))]
                            and result[1] == result[2][1][m - count(ranking, first_reach(ranking, m, 0)):]
                            + ranking[first_reach(ranking, m, 0) + 1:]))

    def invariant_0(ranking, m, i, num_elected, elected):
        return (0 <= i and i <= len(ranking) and num_elected == count(ranking, i)
                and elected == list(ranking[:i])
                and ((num_elected < m and first_reach(ranking, m, 0) == first_reach(ranking, m, i))
                     or (num_elected == m and i >= 1 and first_reach(ranking, m, 0) == i - 1
                         and count(ranking, i) == m)))

    def decreases_0(ranking, i):
        return len(ranking) - i

    def hint_inv_0(ranking, i):
        return take_snoc(ranking, i - 1)

    def hint_return_a(ranking, i):
        return count_take(ranking, i, i)

    def hint_return_b(ranking, i, m, tiebroken_ranking, num_elected):
        return (count_take(ranking, i, i)
                and count_append(ranking[:i], tiebroken_ranking[:m - num_elected], m - num_elected)
                and count_take(tiebroken_ranking, m - num_elected, m - num_elected)
                and count_singletons(tiebroken_ranking, m - num_elected))

"""Contracts for votekit/utils.py"""
from pyvc.api import *
from specs.base import *


@contract("utils.py", "validate_score_vector", props=("C04", "C20"))
class validate_score_vector:
    params = dict(score_vector=Seq(Real))
    returns = NoneS

    def raises_ValueError(score_vector):
        return not vec_ok(score_vector, len(score_vector))

    def invariant_0(score_vector, _k):
        return vec_ok(score_vector, _k)

    def hint_raise_ValueError(score_vector, i):
        return vec_ok_prefix(score_vector, i + 1, len(score_vector))

"""Contracts for the ranking-rule validators and constructors (C20, C13)"""
from pyvc.api import *
from specs.base import *

ABSTRACT = "elections/election_types/ranking/abstract_ranking.py"
STV_PY = "elections/election_types/ranking/stv.py"


@contract(ABSTRACT, "RankingElection._validate_profile", props=("C20",))
class ranking_validate:
    """TypeError iff some ballot has no (non-empty) ranking -- every ballot, not just the first"""
    params = dict(self=Obj("RankingElection", {}), profile=Profile)
    returns = NoneS

    def raises_TypeError(self, profile):
        return not all_ranked(profile.ballots, len(profile.ballots))

    def invariant_0(profile, _k):
        return all_ranked(profile.ballots, _k)

    def hint_raise_TypeError(profile, _k):
        return all_ranked_prefix(profile.ballots, _k + 1, len(profile.ballots))


@contract(STV_PY, "STV._stv_validate_profile", props=("C20",))
class stv_validate:
    """TypeError iff some ballot has no ranking or a tied position -- every ballot"""
    params = dict(self=Obj("STV", {}), profile=Profile)
    returns = NoneS

    def raises_TypeError(self, profile):
        return not all_untied(profile.ballots, len(profile.ballots))

    def invariant_0(profile, _k):
        return all_untied(profile.ballots, _k)

    def hint_raise_TypeError(profile, _k):
        return all_untied_prefix(profile.ballots, _k + 1, len(profile.ballots))


@contract(STV_PY, "STV.__init__", props=("C20", "C02", "C13"))
class stv_init:
    """TypeError iff a ballot is unranked/tied; otherwise ValueError iff m outside 1..#candidates or unknown
    quota (or the count meets an unbreakable boundary tie); configuration fields are exactly the arguments and
    the threshold is the quota of the initial total weight (C02: fixed at construction)."""
    params = dict(self=Obj("STV", dict(m=Int, transfer=Fn, quota=Str, threshold=Int, simultaneous=Bool, tiebreak=Opt(Str),
                                       _profile=Profile, score_function=Fn, sort_high_low=Bool,
                                       election_states=Seq(StateRef, "list"), length=Int)),
                  profile=Profile, m=Int, transfer=Fn, quota=Str, simultaneous=Bool, tiebreak=Opt(Str))
    returns = NoneS
    modifies = ("m", "transfer", "quota", "threshold", "simultaneous", "tiebreak", "_profile", "score_function",
                "sort_high_low", "election_states", "length")

    def requires(self, profile, m, transfer, quota, simultaneous, tiebreak):
        return profile.total_ballot_wt >= 0

    def raises_TypeError(self, profile, m, transfer, quota, simultaneous, tiebreak):
        return not all_untied(profile.ballots, len(profile.ballots))

    def raises_ValueError(self, profile, m, transfer, quota, simultaneous, tiebreak):
        return (all_untied(profile.ballots, len(profile.ballots))
                and (m <= 0 or m > len(profile.candidates) or (quota != "droop" and quota != "hare")
                     or boundary_tie(profile, m, tiebreak)))

    def ensures(self, profile, m, transfer, quota, simultaneous, tiebreak):
        return (self.m == m and self.transfer is transfer and self.quota == quota and self.simultaneous == simultaneous
                and self.tiebreak == tiebreak and self._profile == profile and self.score_function is first_place_votes
                and self.sort_high_low == True
                and implies(quota == "droop", self.threshold == floor(div(profile.total_ballot_wt, m + 1)) + 1)
                and implies(quota == "hare", self.threshold == floor(div(profile.total_ballot_wt, m))))

    def hint_raise_TypeError(profile):
        return untied_implies_ranked(profile.ballots, len(profile.ballots))


@contract(STV_PY, "IRV.__init__", props=("C13", "C20"))
class irv_init:
    """IRV is STV with one seat: the constructor only delegates with m=1 (default fractional transfer,
    simultaneous election) and the class defines nothing else"""
    params = dict(self=Obj("IRV", {}), profile=Profile, quota=Str, tiebreak=Opt(Str))
    returns = NoneS
    class_defines_only = ("__init__",)

    def requires(self, profile, quota, tiebreak):
        return profile.total_ballot_wt >= 0

    def raises_TypeError(self, profile, quota, tiebreak):
        return not all_untied(profile.ballots, len(profile.ballots))

    def raises_ValueError(self, profile, quota, tiebreak):
        return (all_untied(profile.ballots, len(profile.ballots))
                and (1 > len(profile.candidates) or (quota != "droop" and quota != "hare") or boundary_tie(profile, 1, tiebreak)))

    def ensures(self, profile, quota, tiebreak):
        return (self.m == 1 and self.transfer is fractional_transfer and self.quota == quota and self.simultaneous == True
                and self.tiebreak == tiebreak and self._profile == profile)


STV_SELF = dict(m=Int, transfer=Fn, quota=Str, threshold=Int, simultaneous=Bool, tiebreak=Opt(Str),
                _profile=Profile, score_function=Fn, sort_high_low=Bool, election_states=Seq(StateRef, "list"), length=Int)


@contract(STV_PY, "SequentialRCV.__init__", props=("C13", "C20"))
class seqrcv_init:
    """SequentialRCV is STV whose transfer hands the winner's ballots on at full weight: the constructor only
    delegates (m, quota, simultaneous, tiebreak unchanged) and the class defines nothing else.  The transfer
    argument is the lambda `remove_cand(winner, tuple(ballots))` (its body is checked structurally)."""
    params = dict(self=Obj("SequentialRCV", {}), profile=Profile, m=Int, quota=Str, simultaneous=Bool, tiebreak=Opt(Str))
    returns = NoneS
    class_defines_only = ("__init__",)
    call_keyword_source = {"transfer": "lambda winner, fpv, ballots, threshold: remove_cand(winner, tuple(ballots))"}

    def requires(self, profile, m, quota, simultaneous, tiebreak):
        return profile.total_ballot_wt >= 0

    def raises_TypeError(self, profile, m, quota, simultaneous, tiebreak):
        return not all_untied(profile.ballots, len(profile.ballots))

    def raises_ValueError(self, profile, m, quota, simultaneous, tiebreak):
        return (all_untied(profile.ballots, len(profile.ballots))
                and (m <= 0 or m > len(profile.candidates) or (quota != "droop" and quota != "hare")
                     or boundary_tie(profile, m, tiebreak)))

    def ensures(self, profile, m, quota, simultaneous, tiebreak):
        return (self.m == m and self.quota == quota and self.simultaneous == simultaneous
                and self.tiebreak == tiebreak and self._profile == profile)


PLUR = "elections/election_types/ranking/plurality.py"
EL_SELF = dict(m=Int, tiebreak=Opt(Str), _profile=Profile, score_function=Fn, sort_high_low=Bool,
               election_states=Seq(StateRef, "list"), length=Int)


@contract(PLUR, "Plurality.__init__", props=("C13", "C20"))
class plurality_init:
    """TypeError iff a ballot has no ranking; ValueError only from the count (seat range / boundary tie are
    decided by elect_cands_from_set_ranking, folded into the opaque predicate); fields are the arguments"""
    params = dict(self=Obj("Plurality", EL_SELF), profile=Profile, m=Int, tiebreak=Opt(Str))
    returns = NoneS
    modifies = ("m", "tiebreak", "_profile", "score_function", "sort_high_low", "election_states", "length")

    def raises_TypeError(self, profile, m, tiebreak):
        return not all_ranked(profile.ballots, len(profile.ballots))

    def raises_ValueError(self, profile, m, tiebreak):
        return all_ranked(profile.ballots, len(profile.ballots)) and boundary_tie(profile, m, tiebreak)

    def ensures(self, profile, m, tiebreak):
        return (self.m == m and self.tiebreak == tiebreak and self._profile == profile
                and self.score_function is first_place_votes and self.sort_high_low == True)


@contract(PLUR, "SNTV.__init__", props=("C13", "C20"))
class sntv_init:
    """SNTV is Plurality: pure delegation, nothing else defined"""
    params = dict(self=Obj("SNTV", {}), profile=Profile, m=Int, tiebreak=Opt(Str))
    returns = NoneS
    class_defines_only = ("__init__",)

    def raises_TypeError(self, profile, m, tiebreak):
        return not all_ranked(profile.ballots, len(profile.ballots))

    def raises_ValueError(self, profile, m, tiebreak):
        return all_ranked(profile.ballots, len(profile.ballots)) and boundary_tie(profile, m, tiebreak)

    def ensures(self, profile, m, tiebreak):
        return (self.m == m and self.tiebreak == tiebreak and self._profile == profile
                and self.score_function is first_place_votes and self.sort_high_low == True)


RD = "elections/election_types/ranking/random_dictator.py"
BRD = "elections/election_types/ranking/boosted_random_dictator.py"


@contract(RD, "RandomDictator.__init__", props=("C20",))
class rd_init:
    params = dict(self=Obj("RandomDictator", {}), profile=Profile, m=Int)
    returns = NoneS

    def raises_ValueError(self, profile, m):
        return m <= 0 or m > len(profile.candidates)

    def raises_TypeError(self, profile, m):
        return not (m <= 0 or m > len(profile.candidates)) and not all_ranked(profile.ballots, len(profile.ballots))


@contract(BRD, "BoostedRandomDictator.__init__", props=("C20",))
class brd_init:
    params = dict(self=Obj("BoostedRandomDictator", {}), profile=Profile, m=Int)
    returns = NoneS

    def raises_ValueError(self, profile, m):
        return m <= 0 or m > len(profile.candidates)

    def raises_TypeError(self, profile, m):
        return not (m <= 0 or m > len(profile.candidates)) and not all_ranked(profile.ballots, len(profile.ballots))


ALASKA = "elections/election_types/ranking/alaska.py"


@contract(ALASKA, "Alaska.__init__", props=("C20", "C13"))
class alaska_init:
    """ValueError iff m_1 <= 0, m_2 <= 0 or m_1 < m_2 (stage sizes not ordered), before anything else"""
    params = dict(self=Obj("Alaska", {}), profile=Profile, m_1=Int, m_2=Int, transfer=Fn, quota=Str, simultaneous=Bool,
                  tiebreak=Opt(Str))
    returns = NoneS

    def raises_ValueError(self, profile, m_1, m_2, transfer, quota, simultaneous, tiebreak):
        return (m_1 <= 0 or m_2 <= 0 or m_1 < m_2
                or (all_ranked(profile.ballots, len(profile.ballots)) and boundary_tie(profile, m_2, tiebreak)))

    def raises_TypeError(self, profile, m_1, m_2, transfer, quota, simultaneous, tiebreak):
        return not (m_1 <= 0 or m_2 <= 0 or m_1 < m_2) and not all_ranked(profile.ballots, len(profile.ballots))

    def ensures(self, profile, m_1, m_2, transfer, quota, simultaneous, tiebreak):
        return (self.m_1 == m_1 and self.m_2 == m_2 and self.transfer is transfer and self.quota == quota
                and self.simultaneous == simultaneous and self.tiebreak == tiebreak and self._profile == profile)

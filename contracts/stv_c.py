"""Contracts for votekit/elections/election_types/ranking/stv.py"""
from pyvc.api import *
from specs.base import *

STV_PY = "elections/election_types/ranking/stv.py"


@contract(STV_PY, "STV.get_threshold", props=("C02", "C07", "C20"))
class get_threshold:
    """C02: the threshold is floor(N/(m+1))+1 (droop) or floor(N/m) (hare); C20: unknown quota -> ValueError;
    C07 uses the Droop bound (m+1)*T > N."""
    params = dict(self=Obj("STV", dict(threshold=Int, quota=Str, m=Int)), total_ballot_wt=Real)
    returns = Int

    def requires(self, total_ballot_wt):
        return total_ballot_wt >= 0 and self.m >= 1 and self.threshold >= 0

    def raises_ValueError(self, total_ballot_wt):
        return self.threshold == 0 and self.quota != "droop" and self.quota != "hare"

    def ensures(self, total_ballot_wt, result):
        return (implies(self.threshold != 0, result == self.threshold)
                and implies(self.threshold == 0 and self.quota == "droop",
                            result == floor(div(total_ballot_wt, self.m + 1)) + 1
                            and (self.m + 1) * result > total_ballot_wt and result >= 1)
                and implies(self.threshold == 0 and self.quota == "hare",
                            result == floor(div(total_ballot_wt, self.m))))

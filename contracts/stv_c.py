"""Contracts for votekit/elections/election_types/ranking/stv.py"""
from pyvc.api import *
from specs.base import *

STV_PY = "elections/election_types/ranking/stv.py"


@contract(STV_PY, "STV.get_threshold", props=("C02", "C07", "C20"))
class get_threshold:
    """C02: the threshold is floor(N/(m+1))+1 (droop) or floor(N/m) (hare); C20: unknown quota -> ValueError;
    C07 uses the Droop bound (m+1)*T > N."""
    params = dict(self=Obj("STV", dict(threshold=Int, quota=Str, m=Int)), total_ballot_wt=Real)
    returns = Int

    def requires(self, total_ballot_wt):
        return total_ballot_wt >= 0 and self.m >= 1 and self.threshold >= 0

    def raises_ValueError(self, total_ballot_wt):
        return self.threshold == 0 and self.quota != "droop" and self.quota != "hare"

    def ensures(self, total_ballot_wt, result):
        return (implies(self.threshold != 0, result == self.threshold)
                and implies(self.threshold == 0 and self.quota == "droop",
                            result == floor(div(total_ballot_wt, self.m + 1)) + 1
                            and (self.m + 1) * result > total_ballot_wt and result >= 1)
                and implies(self.threshold == 0 and self.quota == "hare",
                            result == floor(div(total_ballot_wt, self.m))))

from specs.stv import *
from specs.transfers import *
from specs.editing import *

STV_FIELDS = dict(m=Int, threshold=Int, simultaneous=Bool, tiebreak=Opt(Str), transfer=Fn, quota=Str, _profile=Profile,
                  election_states=Seq(StateRef, "list"), score_function=Fn, sort_high_low=Bool)


@contract(STV_PY, "STV._simultaneous_elect_step", props=(), assumed=True)
class sim_step:
    """ASSUMED (its body -- slice stores into a pre-sized list, iteration over a set difference -- is audited round by round
    in the bounded tier): the results are named by opaque functions of (profile, previous state, threshold, transfer)"""
    params = dict(self=Obj("STV", STV_FIELDS), profile=Profile, prev_state=StateRef)
    returns = Tup(Seq(CSet), Profile)
    trusted = ("assumed contract: STV._simultaneous_elect_step (results named by opaque spec functions; audited by bounded/C02)",)

    def ensures(self, profile, prev_state, result):
        return (result[0] == sim_elected(profile, prev_state, self.threshold)
                and result[1] == sim_profile(profile, prev_state, self.threshold, self.transfer))


@contract(STV_PY, "STV._single_elect_step", props=(), assumed=True)
class single_step:
    params = dict(self=Obj("STV", STV_FIELDS), profile=Profile, prev_state=StateRef)
    returns = Tup(Seq(CSet), TBDictS, Profile)
    trusted = ("assumed contract: STV._single_elect_step (results named by opaque spec functions; audited by bounded/C02)",)

    def raises_ValueError(self, profile, prev_state):
        return len(prev_state.remaining[0]) > 1 and self.tiebreak is None

    def ensures(self, profile, prev_state, result):
        return (result[0] == one_elected(profile, prev_state, self.tiebreak)
                and result[2] == one_profile(profile, prev_state, self.threshold, self.transfer, self.tiebreak))


@contract("utils.py", "first_place_votes", props=(), assumed=True)
class fpv_assumed:
    params = dict(profile=Profile, to_float=Bool)
    returns = Dict(Real)
    trusted = ("assumed contract: first_place_votes (result named by the opaque spec function fpv_of; its definition is C04's subject)",)

    def result(profile):
        return fpv_of(profile)

    def ensures(profile, result):
        return frozenset(result.keys()) == frozenset(profile.candidates)


@contract("utils.py", "score_dict_to_ranking", props=(), assumed=True)
class sdr_assumed:
    params = dict(score_dict=Dict(Real), sort_high_low=Bool)
    returns = Seq(CSet)
    trusted = ("assumed contract: score_dict_to_ranking (opaque ranking_of; sorted() / dict-of-lists are outside the subset; audited by bounded/C04)",)

    def result(score_dict):
        return ranking_of(score_dict)

    def ensures(score_dict, result):
        # the ranking partitions the keys into non-empty groups
        return (nonempty_positions(result, len(result)) and count(result, len(result)) == len(score_dict)
                and union_upto(result, len(result)) == frozenset(score_dict.keys()))


@contract(STV_PY, "STV._run_step", props=("C02", "C01", "C10", "C09"), unfold=3)
class stv_run_step:
    """One round of the count is one of three legal steps, chosen by the recorded tallies of the previous round:
    (A) some tally >= threshold: an election round (no one eliminated; who is elected and what is transferred is the elect
        step's contract, simultaneous or one-by-one as configured);
    (B) otherwise, candidates left == seats left: all remaining candidates are elected, the profile is emptied;
    (C) otherwise exactly one candidate of the lowest-tally group prev.remaining[-1] is eliminated; if that group is tied, the
        tie is broken by tiebreak_set(group, initial profile, "first_place") (never by the user's tiebreak option), the
        resolution is recorded and its LAST member is the one eliminated; the ballots move on through remove_cand at full weight.
    With store_states the appended state carries round number + 1, these elected/eliminated/tiebreak records, the first-place
    tallies of the returned profile and the tally order; without it nothing is stored."""
    params = dict(self=Obj("STV", STV_FIELDS), profile=Profile, prev_state=StateRef, store_states=Bool)
    returns = Profile
    forall = dict(k=Seq(CSet))
    pure_unless = "store_states"  # frame (C09): nothing of self is stored outside `if store_states:`
    modifies = ("election_states",)  # the frame callers rely on: every other field keeps its entry value (obligation frame[self.<f> unchanged])

    def requires(self, profile, prev_state, store_states):
        return (self.score_function is first_place_votes and len(self.election_states) >= 1
                and all_nonneg(profile.ballots, len(profile.ballots))
                and distinct(profile.candidates, len(profile.candidates))
                and 0 <= prev_state.round_number and prev_state.round_number < len(self.election_states)
                and len(prev_state.remaining) >= 1
                # the candidates still in the count are candidates of the initial profile (whose first-place tallies break elimination ties)
                and prev_state.remaining[-1] <= frozenset(self._profile.candidates)
                and implies(not (len([c for c in prev_state.scores if prev_state.scores[c] >= self.threshold]) > 0)
                            and not (len(profile.candidates) == self.m - count(
                                cat_elected(self.election_states, prev_state.round_number + 1),
                                len(cat_elected(self.election_states, prev_state.round_number + 1)))),
                            len(prev_state.remaining[-1]) >= 1))

    def raises_ValueError(self, profile, prev_state, store_states):
        return (len([c for c in prev_state.scores if prev_state.scores[c] >= self.threshold]) > 0 and not self.simultaneous
                and len(prev_state.remaining[0]) > 1 and self.tiebreak is None)

    def ensures(self, old_self, profile, prev_state, store_states, result, k):
        return (implies(not store_states, self.election_states == old_self.election_states)
                and implies(store_states, len(self.election_states) == len(old_self.election_states) + 1
                            and self.election_states[:len(old_self.election_states)] == old_self.election_states
                            and self.election_states[-1].round_number == prev_state.round_number + 1
                            and self.election_states[-1].scores == fpv_of(result)
                            and self.election_states[-1].remaining == ranking_of(fpv_of(result)))
                # (A) election round
                and implies(len([c for c in prev_state.scores if prev_state.scores[c] >= old_self.threshold]) > 0,
                            implies(old_self.simultaneous, result == sim_profile(profile, prev_state, old_self.threshold, old_self.transfer))
                            and implies(not old_self.simultaneous,
                                        result == one_profile(profile, prev_state, old_self.threshold, old_self.transfer, old_self.tiebreak))
                            and implies(store_states, self.election_states[-1].eliminated == (frozenset(),)
                                        and implies(old_self.simultaneous,
                                                    self.election_states[-1].elected == sim_elected(profile, prev_state, old_self.threshold)
                                                    and not self.election_states[-1].tiebreaks)
                                        and implies(not old_self.simultaneous,
                                                    self.election_states[-1].elected == one_elected(profile, prev_state, old_self.tiebreak))))
                # (B) default election of everyone left
                and implies(not (len([c for c in prev_state.scores if prev_state.scores[c] >= old_self.threshold]) > 0)
                            and len(profile.candidates) == old_self.m - count(
                                cat_elected(old_self.election_states, prev_state.round_number + 1),
                                len(cat_elected(old_self.election_states, prev_state.round_number + 1))),
                            len(result.ballots) == 0 and len(result.candidates) == 0
                            and implies(store_states, self.election_states[-1].elected == prev_state.remaining
                                        and self.election_states[-1].eliminated == (frozenset(),)
                                        and not self.election_states[-1].tiebreaks))
                # (C) elimination of exactly one lowest-tally candidate
                and implies(not (len([c for c in prev_state.scores if prev_state.scores[c] >= old_self.threshold]) > 0)
                            and not (len(profile.candidates) == old_self.m - count(
                                cat_elected(old_self.election_states, prev_state.round_number + 1),
                                len(cat_elected(old_self.election_states, prev_state.round_number + 1)))),
                            implies(store_states,
                                    self.election_states[-1].elected == (frozenset(),)
                                    and len(self.election_states[-1].eliminated) == 1
                                    and len(self.election_states[-1].eliminated[0]) == 1
                                    and self.election_states[-1].eliminated[0] <= prev_state.remaining[-1]
                                    # its ballots move on at full weight: the returned profile is remove_cand's result for that candidate
                                    and implies(len(keep_cands(profile.candidates, len(profile.candidates), frozenset([the(self.election_states[-1].eliminated[0])]))) > 0,
                                                result.candidates == keep_cands(profile.candidates, len(profile.candidates),
                                                                                frozenset([the(self.election_states[-1].eliminated[0])])))
                                    and wrank(result.ballots, len(result.ballots), k)
                                    == wrank(rc_prefix(profile.ballots, len(profile.ballots), frozenset([the(self.election_states[-1].eliminated[0])])),
                                             len(profile.ballots), k)
                                    and implies(len(prev_state.remaining[-1]) > 1,
                                                bool(self.election_states[-1].tiebreaks)
                                                and self.election_states[-1].tiebreaks == {prev_state.remaining[-1]: tb_value(self.election_states[-1])}
                                                and lin(tb_value(self.election_states[-1]), prev_state.remaining[-1])
                                                and fp_sorted(tb_value(self.election_states[-1]), old_self._profile)
                                                and self.election_states[-1].eliminated[0] == tb_value(self.election_states[-1])[-1])
                                    and implies(len(prev_state.remaining[-1]) == 1, not self.election_states[-1].tiebreaks))))

    def hint_return(self, prev_state):
        return cat_elected_take(self.election_states, prev_state.round_number + 1, prev_state.round_number + 1)

    def hint_raise_ValueError(profile, eliminated_cand):
        return keep_cands_distinct(profile.candidates, len(profile.candidates), frozenset([eliminated_cand]))

"""Contracts for votekit/pref_interval.py -- C15 (machine floats read as reals with one rounding per operation: A-FLOAT)"""
from pyvc.api import *
from specs.base import *

PI_FIELDS = dict(interval=Dict(Float), candidates=CSet, zero_cands=CSet, non_zero_cands=CSet)


@contract("pref_interval.py", "PreferenceInterval._remove_zero_support_cands", props=("C15",))
class remove_zero_support:
    """on a fresh interval (both support sets still empty): the zero-support candidates are set aside in zero_cands, the interval keeps
    exactly the candidates with positive support at their given values, non_zero_cands are its keys; otherwise nothing changes"""
    params = dict(self=Obj("PreferenceInterval", PI_FIELDS))
    returns = NoneS
    modifies = ("interval", "zero_cands", "non_zero_cands")

    def witnesses():
        from votekit.pref_interval import PreferenceInterval
        out = []
        for iv, z, nz in (({"A": 2.0, "B": 0, "C": 6.0}, frozenset(), frozenset()), ({"A": 1.0, "C": 3.0}, frozenset("B"), frozenset("AC"))):
            o = object.__new__(PreferenceInterval)
            o.interval, o.candidates, o.zero_cands, o.non_zero_cands = dict(iv), frozenset("ABC"), z, nz
            out.append(dict(self=o))
        return out

    def ensures(self, old_self):
        return (implies(len(old_self.zero_cands) == 0 and len(old_self.non_zero_cands) == 0,
                        self.zero_cands == frozenset([c for c, s in old_self.interval.items() if s == 0])
                        and self.interval == {c: s for c, s in old_self.interval.items() if s > 0}
                        and self.non_zero_cands == frozenset(self.interval.keys()))
                and implies(not (len(old_self.zero_cands) == 0 and len(old_self.non_zero_cands) == 0),
                            self.interval == old_self.interval and self.zero_cands == old_self.zero_cands
                            and self.non_zero_cands == old_self.non_zero_cands)
                and self.candidates == old_self.candidates)


@contract("pref_interval.py", "PreferenceInterval._normalize", props=("C15",))
class normalize:
    """the supports are divided by their sum; ZeroDivisionError exactly when the sum is zero; keys unchanged"""
    params = dict(self=Obj("PreferenceInterval", PI_FIELDS))
    returns = NoneS
    modifies = ("interval",)

    def witnesses():
        from votekit.pref_interval import PreferenceInterval
        out = []
        for iv, z, nz in (({"A": 2.0, "B": 0, "C": 6.0}, frozenset(), frozenset()), ({"A": 1.0, "C": 3.0}, frozenset("B"), frozenset("AC"))):
            o = object.__new__(PreferenceInterval)
            o.interval, o.candidates, o.zero_cands, o.non_zero_cands = dict(iv), frozenset("ABC"), z, nz
            out.append(dict(self=o))
        return out

    def raises_ZeroDivisionError(self):
        return dsum(self.interval) == 0

    def ensures(self, old_self):
        return (self.interval == {c: s / dsum(old_self.interval) for c, s in old_self.interval.items()}
                and self.zero_cands == old_self.zero_cands and self.non_zero_cands == old_self.non_zero_cands
                and self.candidates == old_self.candidates)


@contract("pref_interval.py", "PreferenceInterval.__init__", props=("C15",))
class interval_init:
    """a preference interval is the given supports rescaled to sum to one with the zero-support candidates set aside: candidates = all
    given names, zero_cands = those with support 0, the stored interval = the positive supports divided by their sum;
    ZeroDivisionError exactly when the positive supports sum to zero (none is positive)"""
    params = dict(self=Obj("PreferenceInterval", {}), interval=Dict(Float))
    returns = NoneS

    def witnesses():
        from votekit.pref_interval import PreferenceInterval
        return [dict(self=object.__new__(PreferenceInterval), interval={"A": 2.0, "B": 0, "C": 6.0}),
                dict(self=object.__new__(PreferenceInterval), interval={"A": 0.25})]

    def raises_ZeroDivisionError(interval):
        return dsum({c: s for c, s in interval.items() if s > 0}) == 0

    def ensures(self, interval):
        return (self.candidates == frozenset(interval.keys())
                and self.zero_cands == frozenset([c for c, s in interval.items() if s == 0])
                and self.non_zero_cands == frozenset([c for c, s in interval.items() if s > 0])
                and self.interval == {c: s / dsum({c2: s2 for c2, s2 in interval.items() if s2 > 0}) for c, s in interval.items() if s > 0})

"""Contracts for votekit/elections/transfers.py (C03, C02, C07)"""
from pyvc.api import *
from specs.base import *
from specs.transfers import *

TR = "elections/transfers.py"


@contract(TR, "fractional_transfer", props=("C03", "C02", "C07", "C20"), unfold=4)
class fractional_transfer:
    """For every continuing (non-empty) ranking k the returned ballots carry exactly the sum, over the input ballots whose
    ranking becomes k once the winner is taken out (order of the others kept, emptied positions dropped), of
    weight*(tally-threshold)/tally if the ballot is led by the winner alone and of the full weight otherwise;
    TypeError iff some ballot has no ranking.  The tally is an exact rational (STV passes Fractions)."""
    params = dict(winner=Str, fpv=Real, ballots=Seq(Ballot), threshold=Int)
    returns = Seq(Ballot)
    forall = dict(k=Seq(CSet))
    locals = dict(transfered_ballots=Seq(Ballot, "list"))

    def requires(winner, fpv, ballots, threshold):
        return fpv != 0

    def raises_TypeError(winner, fpv, ballots, threshold):
        return not all_ranked(ballots, len(ballots))

    def ensures(winner, fpv, ballots, threshold, result, k):
        return implies(len(k) > 0,
                       wrank(result, len(result), k) == twr(ballots, len(ballots), winner, div(fpv - threshold, fpv), k))

    def invariant_0(winner, fpv, ballots, threshold, transfered_ballots, _k):
        return (len(transfered_ballots) == len(ballots) and all_ranked(ballots, _k)
                and transfered_ballots[:_k] == list(ft_prefix(ballots, _k, winner, div(fpv - threshold, fpv))))

    def comp_0(ballot, winner):
        return strip(ballot.ranking, len(ballot.ranking), winner)

    # comp_1 is the inner `[c for c in s if c != winner]` over a set: consumed by frozenset(), no summary needed
    def comp_2(new_ranking):
        return nonempty_only(new_ranking, len(new_ranking))

    def comp_3(transfered_ballots):
        return keep_live(transfered_ballots, len(transfered_ballots))

    def hint_raise_TypeError(ballots, _k):
        return all_ranked_prefix(ballots, _k + 1, len(ballots))

    @staticmethod
    def witnesses():
        from votekit.ballot import Ballot
        A, B, C = frozenset("A"), frozenset("B"), frozenset("C")
        bs = (Ballot(ranking=(A, B), weight=Fraction(3)), Ballot(ranking=(A,), weight=Fraction(1)), Ballot(ranking=(B, A, C), weight=Fraction(1, 2)),
              Ballot(ranking=(A, B), weight=Fraction(1)))
        return [dict(winner="A", fpv=Fraction(5), ballots=bs, threshold=2, k=(B,)),
                dict(winner="A", fpv=Fraction(5), ballots=bs, threshold=2, k=(B, C))]

    def hint_return(winner, fpv, ballots, threshold, transfered_ballots, k):
        return (wrank_keep_live(transfered_ballots, len(transfered_ballots), k)
                and wlive_ft_prefix(ballots, len(ballots), winner, div(fpv - threshold, fpv), k))

"""Contracts for votekit/ballot.py (C11)"""
from pyvc.api import *
from specs.condense import beq
from specs.base import *


@contract("ballot.py", "Ballot.__eq__", props=("C11", "C08"))
class ballot_eq:
    """equality is exactly: ids agree (a left operand without id matches any), rankings, weights and scores are equal,
    voter sets agree (a left operand without voter set matches any).  On ballots without id and voter set -- the
    weightless keys condense_ballots builds -- it is therefore symmetric content equality."""
    params = dict(self=Ballot, other=Ballot)
    returns = Bool

    def ensures(self, other, result):
        return (result == beq(self, other)  # beq (specs/condense.py): the definition the Ballot-keyed dict model (S-DICT) looks keys up with
                and result == ((self.id is None or self.id == other.id) and self.ranking == other.ranking
                               and self.weight == other.weight
                               and (self.voter_set is None or self.voter_set == other.voter_set)
                               and self.scores == other.scores)
                and implies(self.id is None and other.id is None and self.voter_set is None and other.voter_set is None,
                            result == (self.ranking == other.ranking and self.scores == other.scores and self.weight == other.weight)))

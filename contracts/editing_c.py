"""Contracts for remove_cand (utils.py) -- C12, C03"""
from pyvc.api import *
from specs.base import *
from specs.transfers import *
from specs.editing import *


@contract("utils.py", "remove_cand", props=("C12", "C03"), when=("Seq", "Profile"), unfold=4)
class remove_cand_list_profile:
    """remove_cand(list of candidates, profile): the candidate list keeps the non-removed candidates in order; for every ranking k
    the result carries exactly the weight of the input ballots whose ranking becomes k when the removed candidates are taken out
    (positions keep their order and grouping, emptied positions disappear) -- each written ballot is rc_ballot(input); ballots left
    without ranking and scores become zero-weight ballots, kept only with leave_zero_weight_ballots.  Weights are non-negative."""
    params = dict(removed=Seq(Str, "list"), profile_or_ballots=Profile, condense=Bool, leave_zero_weight_ballots=Bool)
    returns = Profile
    forall = dict(k=Seq(CSet))
    locals = dict(scrubbed_ballots=Seq(Ballot, "list"), new_ranking=Seq(CSet, "list"), new_scores=Dict(Real), clean_profile=Profile)

    def requires(removed, profile_or_ballots, condense, leave_zero_weight_ballots):
        return all_nonneg(profile_or_ballots.ballots, len(profile_or_ballots.ballots))

    def raises_ValueError(removed, profile_or_ballots, condense, leave_zero_weight_ballots):
        # the candidate list of the input is duplicate-free (validated at construction), hence so is its filtered copy
        return not distinct(keep_cands(profile_or_ballots.candidates, len(profile_or_ballots.candidates), frozenset(removed)),
                            len(keep_cands(profile_or_ballots.candidates, len(profile_or_ballots.candidates), frozenset(removed)))) \
            and len(keep_cands(profile_or_ballots.candidates, len(profile_or_ballots.candidates), frozenset(removed))) > 0

    def ensures(removed, profile_or_ballots, condense, leave_zero_weight_ballots, result, k):
        return (implies(len(keep_cands(profile_or_ballots.candidates, len(profile_or_ballots.candidates), frozenset(removed))) > 0,
                        result.candidates == keep_cands(profile_or_ballots.candidates, len(profile_or_ballots.candidates), frozenset(removed)))
                and wrank(result.ballots, len(result.ballots), k)
                == wrank(rc_prefix(profile_or_ballots.ballots, len(profile_or_ballots.ballots), frozenset(removed)), len(profile_or_ballots.ballots), k))

    def invariant_0(removed, ballots, scrubbed_ballots, _k):
        return len(scrubbed_ballots) == len(ballots) and scrubbed_ballots[:_k] == list(rc_prefix(ballots, _k, frozenset(removed)))

    def invariant_1(removed, ballot, new_ranking, _k):
        return new_ranking == list(scrubR(ballot.ranking, _k, frozenset(removed)))

    def comp_1(scrubbed_ballots):
        return keep_positive(scrubbed_ballots, len(scrubbed_ballots))

    def comp_2(profile_or_ballots, removed):
        return keep_cands(profile_or_ballots.candidates, len(profile_or_ballots.candidates), frozenset(removed))

    def comp_3(profile_or_ballots, removed):
        return keep_cands(profile_or_ballots.candidates, len(profile_or_ballots.candidates), frozenset(removed))

    def hint_return(removed, ballots, scrubbed_ballots, k):
        return (wrank_keep_positive(scrubbed_ballots, len(scrubbed_ballots), k) and rc_prefix_len(ballots, len(ballots), frozenset(removed))
                and rc_prefix_nonneg(ballots, len(ballots), frozenset(removed)))


@contract("utils.py", "remove_cand", props=("C12", "C03"), when=("Str", "Profile"), unfold=4)
class remove_cand_str_profile:
    """remove_cand(single candidate name, profile) -- the name is wrapped into a one-element list, then as for a list: the candidate list keeps the non-removed candidates in order; for every ranking k
    the result carries exactly the weight of the input ballots whose ranking becomes k when the removed candidates are taken out
    (positions keep their order and grouping, emptied positions disappear) -- each written ballot is rc_ballot(input); ballots left
    without ranking and scores become zero-weight ballots, kept only with leave_zero_weight_ballots.  Weights are non-negative."""
    params = dict(removed=Str, profile_or_ballots=Profile, condense=Bool, leave_zero_weight_ballots=Bool)
    returns = Profile
    forall = dict(k=Seq(CSet))
    locals = dict(scrubbed_ballots=Seq(Ballot, "list"), new_ranking=Seq(CSet, "list"), new_scores=Dict(Real), clean_profile=Profile)

    def requires(removed, profile_or_ballots, condense, leave_zero_weight_ballots):
        return all_nonneg(profile_or_ballots.ballots, len(profile_or_ballots.ballots))

    def raises_ValueError(removed, profile_or_ballots, condense, leave_zero_weight_ballots):
        # the candidate list of the input is duplicate-free (validated at construction), hence so is its filtered copy
        return not distinct(keep_cands(profile_or_ballots.candidates, len(profile_or_ballots.candidates), frozenset([removed])),
                            len(keep_cands(profile_or_ballots.candidates, len(profile_or_ballots.candidates), frozenset([removed])))) \
            and len(keep_cands(profile_or_ballots.candidates, len(profile_or_ballots.candidates), frozenset([removed]))) > 0

    def ensures(removed, profile_or_ballots, condense, leave_zero_weight_ballots, result, k):
        return (implies(len(keep_cands(profile_or_ballots.candidates, len(profile_or_ballots.candidates), frozenset([removed]))) > 0,
                        result.candidates == keep_cands(profile_or_ballots.candidates, len(profile_or_ballots.candidates), frozenset([removed])))
                and wrank(result.ballots, len(result.ballots), k)
                == wrank(rc_prefix(profile_or_ballots.ballots, len(profile_or_ballots.ballots), frozenset([removed])), len(profile_or_ballots.ballots), k))

    def invariant_0(removed, ballots, scrubbed_ballots, _k):
        return len(scrubbed_ballots) == len(ballots) and scrubbed_ballots[:_k] == list(rc_prefix(ballots, _k, frozenset(removed)))

    def invariant_1(removed, ballot, new_ranking, _k):
        return new_ranking == list(scrubR(ballot.ranking, _k, frozenset(removed)))

    def comp_1(scrubbed_ballots):
        return keep_positive(scrubbed_ballots, len(scrubbed_ballots))

    def comp_2(profile_or_ballots, removed):
        return keep_cands(profile_or_ballots.candidates, len(profile_or_ballots.candidates), frozenset(removed))

    def comp_3(profile_or_ballots, removed):
        return keep_cands(profile_or_ballots.candidates, len(profile_or_ballots.candidates), frozenset(removed))

    def hint_return(removed, ballots, scrubbed_ballots, k):
        return (wrank_keep_positive(scrubbed_ballots, len(scrubbed_ballots), k) and rc_prefix_len(ballots, len(ballots), frozenset(removed))
                and rc_prefix_nonneg(ballots, len(ballots), frozenset(removed)))


@contract("utils.py", "remove_cand", props=("C12", "C03"), when=("Seq", "Seq"), unfold=4)
class remove_cand_list_tuple:
    """remove_cand(list of candidates, tuple of ballots) -- the form the STV elect steps and SequentialRCV use: for every ranking k
    the result carries exactly the weight of the input ballots whose ranking becomes k when the removed candidates are taken out
    (positions keep their order and grouping, emptied positions disappear) -- each written ballot is rc_ballot(input); ballots left
    without ranking and scores become zero-weight ballots, kept only with leave_zero_weight_ballots.  Weights are non-negative."""
    params = dict(removed=Seq(Str, "list"), profile_or_ballots=Seq(Ballot), condense=Bool, leave_zero_weight_ballots=Bool)
    returns = Seq(Ballot)
    forall = dict(k=Seq(CSet))
    locals = dict(scrubbed_ballots=Seq(Ballot, "list"), new_ranking=Seq(CSet, "list"), new_scores=Dict(Real), clean_profile=Opt(Profile))

    def requires(removed, profile_or_ballots, condense, leave_zero_weight_ballots):
        return all_nonneg(profile_or_ballots, len(profile_or_ballots))

    def ensures(removed, profile_or_ballots, condense, leave_zero_weight_ballots, result, k):
        return (wrank(result, len(result), k)
                == wrank(rc_prefix(profile_or_ballots, len(profile_or_ballots), frozenset(removed)), len(profile_or_ballots), k))

    def invariant_0(removed, ballots, scrubbed_ballots, _k):
        return len(scrubbed_ballots) == len(ballots) and scrubbed_ballots[:_k] == list(rc_prefix(ballots, _k, frozenset(removed)))

    def invariant_1(removed, ballot, new_ranking, _k):
        return new_ranking == list(scrubR(ballot.ranking, _k, frozenset(removed)))

    def comp_4(scrubbed_ballots):
        return keep_positive(scrubbed_ballots, len(scrubbed_ballots))

    def hint_return(removed, ballots, scrubbed_ballots, k):
        return (wrank_keep_positive(scrubbed_ballots, len(scrubbed_ballots), k) and rc_prefix_len(ballots, len(ballots), frozenset(removed))
                and rc_prefix_nonneg(ballots, len(ballots), frozenset(removed)))



@contract("utils.py", "remove_cand", props=("C12", "C03"), when=("Str", "Seq"), unfold=4)
class remove_cand_str_tuple:
    """remove_cand(single candidate name, tuple of ballots) -- the form the STV elect steps and SequentialRCV use: for every ranking k
    the result carries exactly the weight of the input ballots whose ranking becomes k when the removed candidates are taken out
    (positions keep their order and grouping, emptied positions disappear) -- each written ballot is rc_ballot(input); ballots left
    without ranking and scores become zero-weight ballots, kept only with leave_zero_weight_ballots.  Weights are non-negative."""
    params = dict(removed=Str, profile_or_ballots=Seq(Ballot), condense=Bool, leave_zero_weight_ballots=Bool)
    returns = Seq(Ballot)
    forall = dict(k=Seq(CSet))
    locals = dict(scrubbed_ballots=Seq(Ballot, "list"), new_ranking=Seq(CSet, "list"), new_scores=Dict(Real), clean_profile=Opt(Profile))

    def requires(removed, profile_or_ballots, condense, leave_zero_weight_ballots):
        return all_nonneg(profile_or_ballots, len(profile_or_ballots))

    def ensures(removed, profile_or_ballots, condense, leave_zero_weight_ballots, result, k):
        return (wrank(result, len(result), k)
                == wrank(rc_prefix(profile_or_ballots, len(profile_or_ballots), frozenset([removed])), len(profile_or_ballots), k))

    def invariant_0(removed, ballots, scrubbed_ballots, _k):
        return len(scrubbed_ballots) == len(ballots) and scrubbed_ballots[:_k] == list(rc_prefix(ballots, _k, frozenset(removed)))

    def invariant_1(removed, ballot, new_ranking, _k):
        return new_ranking == list(scrubR(ballot.ranking, _k, frozenset(removed)))

    def comp_4(scrubbed_ballots):
        return keep_positive(scrubbed_ballots, len(scrubbed_ballots))

    def hint_return(removed, ballots, scrubbed_ballots, k):
        return (wrank_keep_positive(scrubbed_ballots, len(scrubbed_ballots), k) and rc_prefix_len(ballots, len(ballots), frozenset(removed))
                and rc_prefix_nonneg(ballots, len(ballots), frozenset(removed)))



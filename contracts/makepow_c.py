"""Contract for name_BradleyTerry._make_pow (ballot_generator.py) -- C15 (floats read as reals: A-FLOAT)"""
from pyvc.api import *
from specs.base import *
from specs.btpow import *


@contract("ballot_generator.py", "name_BradleyTerry._make_pow", props=("C15",), float_mode="reals")
class make_pow:
    """the unnormalised Bradley-Terry weight of an ordering with interval lengths x_0, ..., x_{m-1}: the product of
    x_i ** (m - i - 1) over i < m - 1 (each candidate's length once for every candidate ranked below it); nothing is modified"""
    params = dict(self=Obj("name_BradleyTerry", dict()), lst=Seq(Float, "list"))
    returns = Float
    modifies = ()
    locals = dict(ret=Float)

    def witnesses():
        import types
        return [dict(self=types.SimpleNamespace(), lst=[0.5, 0.25, 0.25]), dict(self=types.SimpleNamespace(), lst=[0.2]),
                dict(self=types.SimpleNamespace(), lst=[]), dict(self=types.SimpleNamespace(), lst=[0.1, 0.2, 0.3, 0.4])]

    def ensures(self, lst, result):
        return result == mkpow(lst, len(lst), len(lst))

    def invariant_0(self, lst, ret, m, _k):
        return ret == mkpow(lst, _k, m) and m == len(lst)

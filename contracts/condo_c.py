"""Contract for CondoBorda._run_step (elections/election_types/ranking/condo_borda.py) against the ASSUMED contracts of the pairwise
comparison graph object (contracts/domsets_c.py) and the proved elect_cands_from_set_ranking / remove_cand -- C06, C01, C09"""
from pyvc.api import *
from specs.base import *
from specs.stv import *
from specs.transfers import *
from specs.editing import *
from specs.tiers import *

R = "elections/election_types/ranking/"
CB_FIELDS = dict(m=Int, _profile=Profile, election_states=Seq(StateRef, "list"), score_function=Opt(Fn), sort_high_low=Bool)


@contract(R + "condo_borda.py", "CondoBorda._run_step", props=("C06", "C01", "C09"), unfold=3)
class condo_borda_run_step:
    """CondoBorda elects m candidates taking whole dominating tiers in order: with T = dominating_tiers() of the graph built from the
    profile, the round's elected / remaining groups are exactly what elect_cands_from_set_ranking (proved) makes of T with
    tiebreak='borda' -- whole tiers while they fit; a tier straddling the last seat is resolved by a recorded strict order of exactly
    that tier, which the round obeys (that this order is by higher Borda score is tiebreak_set's contract, C10) --; ValueError iff m
    is out of range; the returned profile is the input with the elected candidates removed; one state appended iff store_states."""
    params = dict(self=Obj("CondoBorda", CB_FIELDS), profile=Profile, prev_state=StateRef, store_states=Bool)
    returns = Profile
    forall = dict(k=Seq(CSet))
    pure_unless = "store_states"
    modifies = ("election_states",)

    def witnesses():
        from votekit.ballot import Ballot
        from votekit.pref_profile import PreferenceProfile
        from votekit.elections import CondoBorda, ElectionState
        from votekit.utils import borda_scores
        A, B, C = frozenset("A"), frozenset("B"), frozenset("C")
        p = PreferenceProfile(ballots=(Ballot(ranking=(A, B, C), weight=Fraction(3)), Ballot(ranking=(B, A), weight=Fraction(2)),
                                       Ballot(ranking=(C, A, B), weight=Fraction(1, 2))), candidates=("A", "B", "C"))
        cyc = PreferenceProfile(ballots=(Ballot(ranking=(A, B, C), weight=Fraction(2)), Ballot(ranking=(B, C, A), weight=Fraction(1)),
                                         Ballot(ranking=(C, A, B), weight=Fraction(1))), candidates=("A", "B", "C"))
        out = []
        for q, m in ((p, 1), (p, 2), (cyc, 1), (cyc, 2), (p, 4)):
            for ss in (True, False):
                o = object.__new__(CondoBorda)
                ps = ElectionState(remaining=(frozenset(q.candidates),))
                # (the initial state is already recorded: the clauses read election_states[-1] eagerly under CPython)
                o.m, o._profile, o.election_states, o.score_function, o.sort_high_low = m, q, [ps], borda_scores, True
                out.append(dict(self=o, profile=q, prev_state=ps, store_states=ss,
                                k=(frozenset("B"), frozenset("C"))))
        return out

    def requires(self, profile, prev_state, store_states):
        return (all_nonneg(profile.ballots, len(profile.ballots)) and distinct(profile.candidates, len(profile.candidates))
                # the graph ranks candidates of the profile (the Borda tiebreak reads their scores from it)
                and frozenset(filled(profile).candidates) <= frozenset(profile.candidates))

    def raises_TypeError(self, profile, prev_state, store_states):
        return not all_truthy_rankings(profile.ballots, len(profile.ballots))

    def raises_ValueError(self, profile, prev_state, store_states):
        return self.m < 1 or self.m > count(tiers_of(filled(profile)), len(tiers_of(filled(profile))))

    def ensures(self, old_self, profile, prev_state, store_states, result, k):
        return (implies(not store_states, self.election_states == old_self.election_states)
                and implies(store_states, len(self.election_states) == len(old_self.election_states) + 1
                            and self.election_states[:len(old_self.election_states)] == old_self.election_states
                            and self.election_states[-1].round_number == prev_state.round_number + 1
                            and count(self.election_states[-1].elected, len(self.election_states[-1].elected)) == old_self.m
                            # whole tiers fill the seats exactly: the first tiers are elected, the rest remains, nothing recorded
                            and implies(count(tiers_of(filled(profile)), first_reach(tiers_of(filled(profile)), old_self.m, 0) + 1) == old_self.m,
                                        self.election_states[-1].elected == tiers_of(filled(profile))[:first_reach(tiers_of(filled(profile)), old_self.m, 0) + 1]
                                        and self.election_states[-1].remaining == tiers_of(filled(profile))[first_reach(tiers_of(filled(profile)), old_self.m, 0) + 1:]
                                        and not self.election_states[-1].tiebreaks)
                            # a tier straddles the last seat: recorded with a strict order of exactly that tier, which the round obeys
                            and implies(count(tiers_of(filled(profile)), first_reach(tiers_of(filled(profile)), old_self.m, 0) + 1) != old_self.m,
                                        bool(self.election_states[-1].tiebreaks)
                                        and lin(tb_value(self.election_states[-1]), tiers_of(filled(profile))[first_reach(tiers_of(filled(profile)), old_self.m, 0)])
                                        and self.election_states[-1].elected == tiers_of(filled(profile))[:first_reach(tiers_of(filled(profile)), old_self.m, 0)]
                                        + tb_value(self.election_states[-1])[:old_self.m - count(tiers_of(filled(profile)), first_reach(tiers_of(filled(profile)), old_self.m, 0))]
                                        and self.election_states[-1].remaining
                                        == tb_value(self.election_states[-1])[old_self.m - count(tiers_of(filled(profile)), first_reach(tiers_of(filled(profile)), old_self.m, 0)):]
                                        + tiers_of(filled(profile))[first_reach(tiers_of(filled(profile)), old_self.m, 0) + 1:]))
                and implies(store_states,
                            wrank(result.ballots, len(result.ballots), k)
                            == wrank(rc_prefix(profile.ballots, len(profile.ballots),
                                               union_upto(self.election_states[-1].elected, len(self.election_states[-1].elected))), len(profile.ballots), k)))

    def hint_raise_ValueError(self, profile, elected):
        return keep_cands_distinct(profile.candidates, len(profile.candidates), union_upto(elected, len(elected)))

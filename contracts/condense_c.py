"""Contract for PreferenceProfile.condense_ballots (pref_profile.py) -- C11"""
from pyvc.api import *
from specs.base import *
from specs.transfers import wrank
from specs.condense import *
from specs.eqprof import cdist, cb_cdist


@contract("pref_profile.py", "PreferenceProfile.condense_ballots", props=("C11", "C12", "C03"), unfold=3)
class condense_ballots:
    """condensing keeps the candidate list and, for every content kb, gives the written ballots of that content exactly the
    total weight the input ballots of that content had -- content = ranking alone (rk; what the ranking-based callers use) for
    every profile, content = (ranking, scores) for profiles whose score cards hold no zero entry (the Ballot validator's
    guarantee, wf); the written ballots then have pairwise different content.  The accumulator dict is modelled as ordered
    key/value sequences with lookup through the proved contract of Ballot.__eq__ (S-DICT)."""
    params = dict(self=Profile)
    returns = Profile
    forall = dict(kb=Ballot, rk=Bool, k=Seq(CSet), a=Int, b=Int, sv=Seq(Real), x=Str, C=CSet)
    locals = dict(weight_accumulator=BDict, new_ballot_list=Seq(Ballot, "list"), i=Int)

    def witnesses():
        from votekit.ballot import Ballot
        from votekit.pref_profile import PreferenceProfile
        A, B, C = frozenset("A"), frozenset("B"), frozenset("C")
        bs = (Ballot(ranking=(A, B), weight=Fraction(3)), Ballot(ranking=(A, B), scores={"A": 1}, weight=Fraction(1)), Ballot(ranking=(B,), weight=Fraction(1, 2)),
              Ballot(ranking=(A, B), weight=Fraction(2)), Ballot(scores={"A": 1}, weight=Fraction(1)), Ballot(ranking=(A, B), scores={"A": 1}, weight=Fraction(5)))
        p = PreferenceProfile(ballots=bs, candidates=("A", "B", "C"))
        return [dict(self=p, kb=Ballot(ranking=(A, B), weight=Fraction(0)), rk=rk, k=(A, B), a=0, b=2, sv=(Fraction(3), Fraction(2), Fraction(1)), x="B",
                     C=frozenset("ABC")) for rk in (True, False)]

    def requires(self):
        # data-structure invariant of a constructed profile: a duplicate-free candidate list
        return distinct(self.candidates, len(self.candidates))

    def ensures(self, result, kb, rk, k, a, b, sv, x, C):
        return (implies(len(self.candidates) > 0 or len(self.ballots) == 0, result.candidates == self.candidates)
                and distinct(result.candidates, len(result.candidates))
                and wrank(result.ballots, len(result.ballots), k) == wrank(self.ballots, len(self.ballots), k)
                # every additive functional of the rankings is preserved (pts is uninterpreted in this proof): positional scores
                and wpts(result.ballots, len(result.ballots), sv, x) == wpts(self.ballots, len(self.ballots), sv, x)
                # every written ranking is an input ranking: a property all input rankings have (rk_ok, uninterpreted here) holds of all written ones
                and implies(all_rk_ok(self.ballots, len(self.ballots), C), all_rk_ok(result.ballots, len(result.ballots), C))
                and implies(rk or all_wf(self.ballots, len(self.ballots)),
                            wcont(result.ballots, len(result.ballots), kb, rk) == wcont(self.ballots, len(self.ballots), kb, rk))
                and implies(all_wf(self.ballots, len(self.ballots)) and 0 <= a and a < b and b < len(result.ballots),
                            not cmatch(result.ballots[a], result.ballots[b], False))
                and implies(all_wf(self.ballots, len(self.ballots)), cdist(result.ballots, len(result.ballots))))

    def invariant_0(self, weight_accumulator, kb, rk, k, sv, x, C, _k):
        return (len(bd_keys(weight_accumulator)) == len(bd_vals(weight_accumulator)) and len(weight_accumulator) <= _k
                and all_wf(bd_keys(weight_accumulator), len(weight_accumulator))
                and kdist(bd_keys(weight_accumulator), len(weight_accumulator))
                and implies(all_wf(self.ballots, len(self.ballots)), key_ok(bd_keys(weight_accumulator), len(weight_accumulator)))
                and implies(rk or all_wf(self.ballots, len(self.ballots)),
                            acc(bd_keys(weight_accumulator), bd_vals(weight_accumulator), len(weight_accumulator), kb, rk)
                            == wcont(self.ballots, _k, kb, rk))
                and acc(bd_keys(weight_accumulator), bd_vals(weight_accumulator), len(weight_accumulator), Ballot(ranking=k), True)
                == wcont(self.ballots, _k, Ballot(ranking=k), True)
                and accp(bd_keys(weight_accumulator), bd_vals(weight_accumulator), len(weight_accumulator), sv, x) == wpts(self.ballots, _k, sv, x)
                and implies(all_rk_ok(self.ballots, len(self.ballots), C), all_rk_ok(bd_keys(weight_accumulator), len(weight_accumulator), C)))

    def hint_inv_0(self, _pre_weight_accumulator, weightless_ballot, ballot, kb, rk, k, sv, x, C, _k):
        return (bfind_range(bd_keys(_pre_weight_accumulator), len(_pre_weight_accumulator), weightless_ballot)
                and bfind_app(bd_keys(_pre_weight_accumulator), weightless_ballot, len(_pre_weight_accumulator), weightless_ballot)
                and key_ok_app(bd_keys(_pre_weight_accumulator), weightless_ballot, len(_pre_weight_accumulator))
                and all_wf_app(bd_keys(_pre_weight_accumulator), weightless_ballot, len(_pre_weight_accumulator))
                and kdist_app(bd_keys(_pre_weight_accumulator), weightless_ballot, len(_pre_weight_accumulator))
                and all_wf_nth(self.ballots, len(self.ballots), _k)
                and acc_app(bd_keys(_pre_weight_accumulator), bd_vals(_pre_weight_accumulator), weightless_ballot, Fraction(0),
                            len(_pre_weight_accumulator), kb, rk)
                and acc_app(bd_keys(_pre_weight_accumulator), bd_vals(_pre_weight_accumulator), weightless_ballot, Fraction(0),
                            len(_pre_weight_accumulator), Ballot(ranking=k), True)
                and supd_nth(bd_vals(_pre_weight_accumulator), bfind(bd_keys(_pre_weight_accumulator), len(_pre_weight_accumulator), weightless_ballot),
                             bd_vals(_pre_weight_accumulator)[bfind(bd_keys(_pre_weight_accumulator), len(_pre_weight_accumulator), weightless_ballot)] + ballot.weight, 0)
                and supd_nth(bd_vals(_pre_weight_accumulator) + (Fraction(0),), len(_pre_weight_accumulator), Fraction(0) + ballot.weight, 0)
                and acc_upd(bd_keys(_pre_weight_accumulator), bd_vals(_pre_weight_accumulator),
                            bfind(bd_keys(_pre_weight_accumulator), len(_pre_weight_accumulator), weightless_ballot),
                            bd_vals(_pre_weight_accumulator)[bfind(bd_keys(_pre_weight_accumulator), len(_pre_weight_accumulator), weightless_ballot)] + ballot.weight,
                            len(_pre_weight_accumulator), kb, rk)
                and acc_upd(bd_keys(_pre_weight_accumulator), bd_vals(_pre_weight_accumulator),
                            bfind(bd_keys(_pre_weight_accumulator), len(_pre_weight_accumulator), weightless_ballot),
                            bd_vals(_pre_weight_accumulator)[bfind(bd_keys(_pre_weight_accumulator), len(_pre_weight_accumulator), weightless_ballot)] + ballot.weight,
                            len(_pre_weight_accumulator), Ballot(ranking=k), True)
                and acc_upd(bd_keys(_pre_weight_accumulator) + (weightless_ballot,), bd_vals(_pre_weight_accumulator) + (Fraction(0),),
                            len(_pre_weight_accumulator), Fraction(0) + ballot.weight, len(_pre_weight_accumulator) + 1, kb, rk)
                and acc_upd(bd_keys(_pre_weight_accumulator) + (weightless_ballot,), bd_vals(_pre_weight_accumulator) + (Fraction(0),),
                            len(_pre_weight_accumulator), Fraction(0) + ballot.weight, len(_pre_weight_accumulator) + 1, Ballot(ranking=k), True)
                and all_rk_ok_app(bd_keys(_pre_weight_accumulator), weightless_ballot, len(_pre_weight_accumulator), C)
                and all_rk_ok_nth(self.ballots, len(self.ballots), C, _k)
                and accp_app(bd_keys(_pre_weight_accumulator), bd_vals(_pre_weight_accumulator), weightless_ballot, Fraction(0),
                             len(_pre_weight_accumulator), sv, x)
                and accp_upd(bd_keys(_pre_weight_accumulator), bd_vals(_pre_weight_accumulator),
                             bfind(bd_keys(_pre_weight_accumulator), len(_pre_weight_accumulator), weightless_ballot),
                             bd_vals(_pre_weight_accumulator)[bfind(bd_keys(_pre_weight_accumulator), len(_pre_weight_accumulator), weightless_ballot)] + ballot.weight,
                             len(_pre_weight_accumulator), sv, x)
                and accp_upd(bd_keys(_pre_weight_accumulator) + (weightless_ballot,), bd_vals(_pre_weight_accumulator) + (Fraction(0),),
                             len(_pre_weight_accumulator), Fraction(0) + ballot.weight, len(_pre_weight_accumulator) + 1, sv, x))

    def invariant_1(weight_accumulator, new_ballot_list, i, _k):
        return (i == _k and len(new_ballot_list) == len(weight_accumulator)
                and new_ballot_list[:_k] == list(cb_prefix(bd_keys(weight_accumulator), bd_vals(weight_accumulator), _k)))

    def hint_return(self, weight_accumulator, kb, rk, k, a, b, sv, x, C):
        return (cb_prefix_len(bd_keys(weight_accumulator), bd_vals(weight_accumulator), len(weight_accumulator))
                and wcont_cb_prefix(bd_keys(weight_accumulator), bd_vals(weight_accumulator), len(weight_accumulator), kb, rk)
                and wcont_cb_prefix(bd_keys(weight_accumulator), bd_vals(weight_accumulator), len(weight_accumulator), Ballot(ranking=k), True)
                and cb_distinct(bd_keys(weight_accumulator), bd_vals(weight_accumulator), len(weight_accumulator), a, b)
                and cb_cdist(bd_keys(weight_accumulator), bd_vals(weight_accumulator), len(weight_accumulator))
                and wpts_cb_prefix(bd_keys(weight_accumulator), bd_vals(weight_accumulator), len(weight_accumulator), sv, x)
                and cb_prefix_ok(bd_keys(weight_accumulator), bd_vals(weight_accumulator), len(weight_accumulator), C)
                and wcont_wrank(self.ballots, len(self.ballots), k)
                and wcont_wrank(cb_prefix(bd_keys(weight_accumulator), bd_vals(weight_accumulator), len(weight_accumulator)), len(weight_accumulator), k))

"""Contract for RandomDictator._run_step (random_dictator.py) -- C17, C01, C10"""
from pyvc.api import *
from specs.base import *
from specs.stv import *
from specs.transfers import *
from specs.editing import *
from specs.dictator import *

RD_FIELDS = dict(m=Int, _profile=Profile, election_states=Seq(StateRef, "list"), score_function=Fn, sort_high_low=Bool)


@contract("elections/election_types/ranking/random_dictator.py", "RandomDictator._run_step", props=("C17", "C01", "C10", "C09"), unfold=3)
class random_dictator_step:
    """the dictator ballot is drawn by random.choices from the profile's ballots IN THEIR ORDER with exactly the ballots' weights
    (one draw, k=1) -- so each ballot is drawn with probability weight/total (A-LIB); a drawn ballot without ranking ends the round
    with the empty profile; otherwise exactly one candidate of the drawn ballot's first position is elected (a tied first position is
    broken by a recorded random strict order of exactly that position), the returned profile is the input with that candidate
    removed, and with store_states exactly one state (next round number, that winner) is appended; nothing is stored otherwise."""
    params = dict(self=Obj("RandomDictator", RD_FIELDS), profile=Profile, prev_state=StateRef, store_states=Bool)
    returns = Profile
    forall = dict(k=Seq(CSet))
    pure_unless = "store_states"
    modifies = ("election_states",)  # the frame callers rely on: every other field keeps its entry value (obligation frame[self.<f> unchanged])

    def requires(self, profile, prev_state, store_states):
        return (len(profile.ballots) > 0 and wsum(profile.ballots, len(profile.ballots)) > 0
                and all_nonneg(profile.ballots, len(profile.ballots)) and distinct(profile.candidates, len(profile.candidates))
                and first_nonempty(profile.ballots, len(profile.ballots))
                and self.score_function is first_place_votes)

    def callsite_random_choices(profile, population, weights):
        return population == profile.ballots and weights == weights_of(profile.ballots, len(profile.ballots))

    def comp_0(ballots):
        return weights_of(ballots, len(ballots))

    def hint_comp_0(ballots):
        return weights_of_len(ballots, len(ballots)) and weights_of_sum(ballots, len(ballots))

    def hint_assign_random_ballot(profile, _draw):
        return first_nonempty_nth(profile.ballots, len(profile.ballots), _draw)

    def hint_assign_tiebroken_ranking(tiebroken_ranking):
        return singletons_prefix(tiebroken_ranking, 1, len(tiebroken_ranking))

    def hint_raise_ValueError(profile, winning_cand):
        return keep_cands_distinct(profile.candidates, len(profile.candidates), frozenset([winning_cand]))

    def ensures(self, old_self, profile, prev_state, store_states, result, k):
        return (implies(not store_states, self.election_states == old_self.election_states)
                and implies(store_states and len(self.election_states) == len(old_self.election_states) + 1,
                            self.election_states[:len(old_self.election_states)] == old_self.election_states
                            and self.election_states[-1].round_number == prev_state.round_number + 1
                            and len(self.election_states[-1].elected) == 1 and len(self.election_states[-1].elected[0]) == 1
                            and wrank(result.ballots, len(result.ballots), k)
                            == wrank(rc_prefix(profile.ballots, len(profile.ballots), self.election_states[-1].elected[0]), len(profile.ballots), k))
                and (len(self.election_states) == len(old_self.election_states) or len(self.election_states) == len(old_self.election_states) + 1))

"""Contract for STV._is_finished (stv.py) -- C01: the count stops exactly when m candidates have been elected in total"""
from pyvc.api import *
from specs.base import *
from contracts.stv_c import STV_PY, STV_FIELDS


@contract(STV_PY, "STV._is_finished", props=("C01", "C02"))
class stv_is_finished:
    """finished iff the candidates elected over all recorded rounds (get_elected(): the concatenated `elected` records) number
    exactly m -- so a finished STV / IRV / SequentialRCV count has exactly m winners; nothing is modified"""
    params = dict(self=Obj("STV", STV_FIELDS))
    returns = Bool
    modifies = ()

    def requires(self):
        return len(self.election_states) >= 1

    def ensures(self, result):
        return result == (count(cat_elected(self.election_states, len(self.election_states)),
                                len(cat_elected(self.election_states, len(self.election_states)))) == self.m)

"""Contract for PreferenceProfile.to_ranking_dict (pref_profile.py) -- C11"""
from pyvc.api import *
from specs.base import *
from specs.condense import supd, supd_nth
from specs.rankdict import *


@contract("pref_profile.py", "PreferenceProfile.to_ranking_dict", props=("C11",), when=("Profile", "proved"))
class to_ranking_dict_c:
    """(standardize=False) the dictionary gives every ranking exactly the total weight of the ballots carrying it; ballots without a
    ranking are filed under (frozenset(),).  The dict keyed by rankings is the ordered key/value model with structural key equality."""
    params = dict(self=Profile, standardize=Bool)
    returns = RDict
    forall = dict(k=Seq(CSet))
    locals = dict(di=RDict)

    def witnesses():
        from votekit.ballot import Ballot
        from votekit.pref_profile import PreferenceProfile
        A, B = frozenset("A"), frozenset("B")
        p = PreferenceProfile(ballots=(Ballot(ranking=(A, B), weight=Fraction(3)), Ballot(weight=Fraction(2)), Ballot(ranking=(B,), weight=Fraction(1, 2)),
                                       Ballot(ranking=(A, B), scores={"A": 1}, weight=Fraction(1))))
        return [dict(self=p, standardize=False, k=(A, B)), dict(self=p, standardize=False, k=(frozenset(),))]

    def requires(self, standardize):
        return not standardize

    def ensures(self, standardize, result, k):
        return (len(bd_keys(result)) == len(bd_vals(result))
                and racc(bd_keys(result), bd_vals(result), len(result), k) == wkey(self.ballots, len(self.ballots), k))

    def invariant_0(self, di, k, _k):
        return (len(bd_keys(di)) == len(bd_vals(di))
                and racc(bd_keys(di), bd_vals(di), len(di), k) == wkey(self.ballots, _k, k))

    def hint_inv_0(_pre_di, ranking, weight, k):
        return (rfind_range(bd_keys(_pre_di), len(_pre_di), ranking)
                and racc_app(bd_keys(_pre_di), bd_vals(_pre_di), ranking, weight, len(_pre_di), k)
                and supd_nth(bd_vals(_pre_di), rfind(bd_keys(_pre_di), len(_pre_di), ranking),
                             bd_vals(_pre_di)[rfind(bd_keys(_pre_di), len(_pre_di), ranking)] + weight, 0)
                and racc_upd(bd_keys(_pre_di), bd_vals(_pre_di), rfind(bd_keys(_pre_di), len(_pre_di), ranking),
                             bd_vals(_pre_di)[rfind(bd_keys(_pre_di), len(_pre_di), ranking)] + weight, len(_pre_di), k))

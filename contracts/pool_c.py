"""Contract for BallotGenerator.ballot_pool_to_profile (ballot_generator.py) -- C14"""
from pyvc.api import *
from specs.base import *
from specs.condense import supd, supd_nth
from specs.tiebreak import singl
from specs.dictator import ssum_left
from specs.pool import *


@contract("ballot_generator.py", "BallotGenerator.ballot_pool_to_profile", props=("C14",), unfold=3)
class ballot_pool_to_profile_c:
    """the generators' common last step: the pool of sampled rankings becomes a profile whose total weight is exactly the number of
    sampled ballots (one unit per pool entry, equal rankings merged by a dict keyed by the ranking tuple), with the given candidate
    list, every ballot an untied ranking (one candidate per position) with the tuple's candidates in order"""
    params = dict(ballot_pool=Seq(Seq(Str), "list"), candidates=Seq(Str, "list"))
    returns = Profile
    locals = dict(ranking_counts=SDict, ballot_list=Seq(Ballot, "list"))

    def witnesses():
        return [dict(ballot_pool=[("A", "B"), ("B",), ("A", "B"), ("C", "A", "B")], candidates=["A", "B", "C"])]

    def requires(ballot_pool, candidates):
        return len(candidates) > 0 and distinct(candidates, len(candidates))

    def ensures(ballot_pool, candidates, result):
        return (wsum(result.ballots, len(result.ballots)) == len(ballot_pool) and list(result.candidates) == list(candidates)
                and len(result.ballots) <= len(ballot_pool))

    def invariant_0(ranking_counts, _k):
        return (len(bd_keys(ranking_counts)) == len(bd_vals(ranking_counts)) and len(ranking_counts) <= _k
                and ssum(bd_vals(ranking_counts), len(ranking_counts)) == _k)

    def hint_inv_0(_pre_ranking_counts, tuple_rank):
        return (sfind_range(bd_keys(_pre_ranking_counts), len(_pre_ranking_counts), tuple_rank)
                and ssum_left(bd_vals(_pre_ranking_counts), (Fraction(1),), len(_pre_ranking_counts))
                and supd_nth(bd_vals(_pre_ranking_counts), sfind(bd_keys(_pre_ranking_counts), len(_pre_ranking_counts), tuple_rank),
                             bd_vals(_pre_ranking_counts)[sfind(bd_keys(_pre_ranking_counts), len(_pre_ranking_counts), tuple_rank)] + 1, 0)
                and ssum_supd(bd_vals(_pre_ranking_counts), sfind(bd_keys(_pre_ranking_counts), len(_pre_ranking_counts), tuple_rank),
                              bd_vals(_pre_ranking_counts)[sfind(bd_keys(_pre_ranking_counts), len(_pre_ranking_counts), tuple_rank)] + 1,
                              len(_pre_ranking_counts)))

    def invariant_1(ranking_counts, ballot_list, _k):
        return ballot_list == list(pool_prefix(bd_keys(ranking_counts), bd_vals(ranking_counts), _k))

    def comp_0(ranking):
        return singl(ranking, len(ranking))

    def hint_return(ranking_counts):
        return (wsum_pool(bd_keys(ranking_counts), bd_vals(ranking_counts), len(ranking_counts))
                and pool_prefix_len(bd_keys(ranking_counts), bd_vals(ranking_counts), len(ranking_counts)))

"""Contracts for votekit/cleaning.py -- C12"""
from pyvc.api import *
from specs.base import *
from specs.transfers import wrank
from specs.cleaning import *


@contract("cleaning.py", "remove_empty_ballots", props=("C12",))
class remove_empty_ballots_c:
    """the ballots without a (non-empty) ranking are dropped, all others are kept in order with their weights: every non-empty ranking keeps
    its weight; with keep_candidates the candidate list is the input's"""
    params = dict(pp=Profile, keep_candidates=Bool)
    returns = Profile
    forall = dict(k=Seq(CSet))

    def witnesses():
        from votekit.ballot import Ballot
        from votekit.pref_profile import PreferenceProfile
        A, B = frozenset("A"), frozenset("B")
        p = PreferenceProfile(ballots=(Ballot(ranking=(A, B), weight=Fraction(3)), Ballot(weight=Fraction(2)), Ballot(ranking=(B,), weight=Fraction(1, 2)),
                                       Ballot(scores={"A": 1}, weight=Fraction(1))), candidates=("A", "B", "C"))
        return [dict(pp=p, keep_candidates=True, k=(A, B)), dict(pp=p, keep_candidates=False, k=(B,))]

    def requires(pp, keep_candidates):
        return distinct(pp.candidates, len(pp.candidates))

    def comp_0(pp):
        return keep_ranked(pp.ballots, len(pp.ballots))

    def ensures(pp, keep_candidates, result, k):
        return (result.ballots == keep_ranked(pp.ballots, len(pp.ballots))
                and implies(len(k) > 0, wrank(result.ballots, len(result.ballots), k) == wrank(pp.ballots, len(pp.ballots), k))
                and implies(keep_candidates and len(pp.candidates) > 0, result.candidates == pp.candidates))

    def hint_return(pp, k):
        return wrank_keep_ranked(pp.ballots, len(pp.ballots), k)

"""Contract for PreferenceProfile.__eq__ (pref_profile.py) -- C11"""
from pyvc.api import *
from specs.base import *
from specs.condense import *
from specs.eqprof import *


@contract("pref_profile.py", "PreferenceProfile.__eq__", props=("C11", "C08"), when=("Profile", "Profile"), unfold=3)
class profile_eq:
    """soundness of profile equality: two profiles (score cards without zero entries -- the validator's guarantee) that compare equal give
    every (ranking, scores) content the same total weight.  (The converse fails on the unchanged tree for zero-weight ballots: known
    finding K-C11-eq-zero-weight-ballot; it is checked for positive weights in the bounded tier.)"""
    params = dict(self=Profile, other=Profile)
    returns = Bool
    forall = dict(kb=Ballot)

    def witnesses():
        from votekit.ballot import Ballot
        from votekit.pref_profile import PreferenceProfile
        A, B = frozenset("A"), frozenset("B")
        p = PreferenceProfile(ballots=(Ballot(ranking=(A, B), weight=Fraction(3)), Ballot(ranking=(B,), scores={"A": 1}, weight=Fraction(1, 2)), Ballot(ranking=(A, B), weight=Fraction(1))))
        q = PreferenceProfile(ballots=(Ballot(ranking=(B,), scores={"A": 1}, weight=Fraction(1, 2)), Ballot(ranking=(A, B), weight=Fraction(4))))
        r = PreferenceProfile(ballots=(Ballot(ranking=(A, B), weight=Fraction(4)),))
        return [dict(self=p, other=q, kb=Ballot(ranking=(A, B), weight=Fraction(0))), dict(self=p, other=r, kb=Ballot(ranking=(B,), scores={"A": 1}))]

    def requires(self, other):
        return (distinct(self.candidates, len(self.candidates)) and distinct(other.candidates, len(other.candidates))
                and all_wf(self.ballots, len(self.ballots)) and all_wf(other.ballots, len(other.ballots)))

    def ensures(self, other, result, kb):
        return implies(result, wcont(self.ballots, len(self.ballots), kb, False) == wcont(other.ballots, len(other.ballots), kb, False))

    def invariant_0(pp_1, pp_2, _k):
        return allin(pp_1.ballots, _k, pp_2.ballots)

    def invariant_1(pp_1, pp_2, _k):
        return allin(pp_1.ballots, len(pp_1.ballots), pp_2.ballots) and allin(pp_2.ballots, _k, pp_1.ballots)

    def hint_return(pp_1, pp_2, kb):
        return eq_sound(pp_1.ballots, pp_2.ballots, kb)

"""Contracts for PreferenceProfile.__eq__ / __add__ (pref_profile.py) -- C11"""
from pyvc.api import *
from specs.base import *
from specs.transfers import wrank
from specs.condense import *
from specs.profile_ops import *


@contract("pref_profile.py", "PreferenceProfile.__add__", props=("C11",), when=("Profile", "Profile"))
class profile_add:
    """adding two profiles adds, for every content, the weights the two profiles give it (the result lists both ballot tuples; the
    condensed copy the code computes is discarded)"""
    params = dict(self=Profile, other=Profile)
    returns = Profile
    forall = dict(kb=Ballot, rk=Bool)

    def witnesses():
        from votekit.ballot import Ballot
        from votekit.pref_profile import PreferenceProfile
        A, B = frozenset("A"), frozenset("B")
        p = PreferenceProfile(ballots=(Ballot(ranking=(A, B), weight=Fraction(3)), Ballot(ranking=(B,), scores={"A": 1}, weight=Fraction(1, 2))))
        q = PreferenceProfile(ballots=(Ballot(ranking=(A, B), weight=Fraction(2)), Ballot(scores={"A": 1}, weight=Fraction(1))))
        return [dict(self=p, other=q, kb=Ballot(ranking=(A, B), weight=Fraction(0)), rk=rk) for rk in (True, False)]

    def ensures(self, other, result, kb, rk):
        return (wcont(result.ballots, len(result.ballots), kb, rk)
                == wcont(self.ballots, len(self.ballots), kb, rk) + wcont(other.ballots, len(other.ballots), kb, rk))

    def hint_return(self, other, kb, rk):
        return wcont_concat(self.ballots, other.ballots, len(other.ballots), kb, rk)

"""Contracts for metrics/distances.py -- C19 (floats read as reals: A-FLOAT)"""
from pyvc.api import *
from specs.base import *
from specs.lp import *


@contract("metrics/distances.py", "profiles_to_ndarrys", props=(), assumed=True)
class profiles_to_ndarrys_assumed:
    params = dict(profiles=Seq(Profile, "list"))
    returns = Seq(Seq(Float, "list"), "ndarray2")
    trusted = ("assumed contract: profiles_to_ndarrys returns a rectangular array with one column per profile (columns named by the opaque "
               "spec function nd_cols; numpy, dict union and sorted() over rankings are outside the subset; its content -- the normalised "
               "ranking-weight distribution over the jointly cast rankings -- is audited by bounded/C19)",
               "numpy indexing arr[:, k] returns column k (A-LIB)")

    def result(profiles):
        return nd_cols(profiles)

    def ensures(profiles, result):
        return len(result) == len(profiles) and rect(result, len(result))


def _wit():
    from votekit.ballot import Ballot
    from votekit.pref_profile import PreferenceProfile
    A, B, C = frozenset("A"), frozenset("B"), frozenset("C")
    p1 = PreferenceProfile(ballots=(Ballot(ranking=(A, B, C), weight=Fraction(3)), Ballot(ranking=(B, A), weight=Fraction(1))))
    p2 = PreferenceProfile(ballots=(Ballot(ranking=(A, B, C), weight=Fraction(1)), Ballot(ranking=(C,), weight=Fraction(1, 2)), Ballot(ranking=(B, A), weight=Fraction(1))))
    return p1, p2


@contract("metrics/distances.py", "lp_dist", props=("C19",), float_mode="reals", when=("Profile", "Profile", "Num"))
class lp_dist_int:
    """integer p >= 1: the result is (sum over the rows of |a_i - b_i| ** p) ** (1 / p) for the two columns a, b of
    profiles_to_ndarrys([pp1, pp2]) -- the p-norm of the difference of the two distributions (that this formula is a metric on
    distributions is Lean lemma L19)"""
    params = dict(pp1=Profile, pp2=Profile, p_value=Int)
    returns = Float
    locals = dict(sum=Float)

    def witnesses():
        p1, p2 = _wit()
        return [dict(pp1=p1, pp2=p2, p_value=1), dict(pp1=p1, pp2=p2, p_value=2), dict(pp1=p2, pp2=p1, p_value=3), dict(pp1=p1, pp2=p1, p_value=2)]

    def requires(pp1, pp2, p_value):
        return p_value >= 1

    def ensures(pp1, pp2, p_value, result):
        return result == lpsum(nd_cols([pp1, pp2])[0], nd_cols([pp1, pp2])[1], len(nd_cols([pp1, pp2])[0]), p_value) ** (1 / p_value)

    def invariant_0(pp1, pp2, p_value, sum, electA, electB, _k):
        return sum == lpsum(electA, electB, _k, p_value)


@contract("metrics/distances.py", "lp_dist", props=("C19",), float_mode="reals", when=("Profile", "Profile", "Str"), implicit_raises=("ValueError",))
class lp_dist_inf:
    """p_value == 'inf': the result is the maximum of |a_i - b_i| over the rows (an upper bound that is attained); any other string:
    ValueError (also from max() when the array has no row)"""
    params = dict(pp1=Profile, pp2=Profile, p_value=Str)
    returns = Float
    forall = dict(i=Int)

    def witnesses():
        p1, p2 = _wit()
        return [dict(pp1=p1, pp2=p2, p_value="inf", i=0), dict(pp1=p2, pp2=p1, p_value="inf", i=2), dict(pp1=p2, pp2=p1, p_value="inf", i=1)]

    def raises_ValueError(pp1, pp2, p_value):
        return p_value != "inf" or len(nd_cols([pp1, pp2])[0]) == 0

    def ensures(pp1, pp2, p_value, result, i):
        return (implies(0 <= i and i < len(nd_cols([pp1, pp2])[0]), abs(nd_cols([pp1, pp2])[0][i] - nd_cols([pp1, pp2])[1][i]) <= result)
                and attained(nd_cols([pp1, pp2])[0], nd_cols([pp1, pp2])[1], len(nd_cols([pp1, pp2])[0]), result))

    def hint_return(electA, electB, _argmax, result):
        return attained_at(electA, electB, _argmax, len(electA), result)

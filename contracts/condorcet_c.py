"""Contracts for PairwiseComparisonGraph.has_condorcet_winner / get_condorcet_winner against the assumed dominating_tiers contract -- C06"""
from pyvc.api import *
from specs.base import *
from specs.tiers import *
from contracts.domsets_c import PCG, PCG_FIELDS


def _pcg_wit():
    from votekit.ballot import Ballot
    from votekit.pref_profile import PreferenceProfile
    from votekit.graphs import PairwiseComparisonGraph
    A, B, C = frozenset("A"), frozenset("B"), frozenset("C")
    p = PreferenceProfile(ballots=(Ballot(ranking=(A, B, C), weight=Fraction(3)), Ballot(ranking=(B, A), weight=Fraction(2)),
                                   Ballot(ranking=(C, A, B), weight=Fraction(1, 2))), candidates=("A", "B", "C"))
    cyc = PreferenceProfile(ballots=(Ballot(ranking=(A, B, C), weight=Fraction(1)), Ballot(ranking=(B, C, A), weight=Fraction(1)),
                                     Ballot(ranking=(C, A, B), weight=Fraction(1))), candidates=("A", "B", "C"))
    return [dict(self=PairwiseComparisonGraph(p)), dict(self=PairwiseComparisonGraph(cyc))]


@contract(PCG, "PairwiseComparisonGraph.has_condorcet_winner", props=("C06",))
class has_condorcet_winner:
    """True exactly when the top tier that dominating_tiers() returns is a single candidate (with Lean L06: exactly when a Condorcet
    winner exists -- the top reach-size tier is the Smith set); nothing is modified"""
    params = dict(self=Obj("PairwiseComparisonGraph", PCG_FIELDS))
    returns = Bool
    modifies = ()
    witnesses = _pcg_wit

    def requires(self):
        return len(self.candidates) >= 1

    def ensures(self, result):
        return result == (len(tiers_of(self.profile)[0]) == 1)


@contract(PCG, "PairwiseComparisonGraph.get_condorcet_winner", props=("C06",))
class get_condorcet_winner:
    """the one member of the top tier when that tier is a single candidate, ValueError otherwise; nothing is modified"""
    params = dict(self=Obj("PairwiseComparisonGraph", PCG_FIELDS))
    returns = Str
    modifies = ()
    witnesses = _pcg_wit

    def requires(self):
        return len(self.candidates) >= 1

    def raises_ValueError(self):
        return len(tiers_of(self.profile)[0]) != 1

    def ensures(self, result):
        return tiers_of(self.profile)[0] == frozenset([result])

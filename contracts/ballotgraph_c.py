"""Contracts for graphs/ballot_graph.py -- C19"""
from pyvc.api import *
from specs.base import *


@contract("graphs/ballot_graph.py", "BallotGraph.fix_short_ballot", props=("C19",))
class fix_short_ballot_c:
    """the short ballot is kept as the prefix, followed by every candidate it does not list exactly once (in the arbitrary order of
    the set enumeration: proved for every enumeration, S-SET); nothing of the graph object is touched"""
    params = dict(self=Obj("BallotGraph", dict()), ballot=Seq(Str, "list"), candidates=Seq(Str, "list"))
    returns = Seq(Str, "list")
    modifies = ()
    forall = dict(c=Str, i=Int, j=Int)

    def witnesses():
        import types
        return [dict(self=types.SimpleNamespace(), ballot=["B"], candidates=["A", "B", "C"], c="A", i=1, j=2),
                dict(self=types.SimpleNamespace(), ballot=["B", "A"], candidates=["A", "B", "C"], c="C", i=0, j=2),
                dict(self=types.SimpleNamespace(), ballot=[], candidates=["A", "B"], c="B", i=0, j=1)]

    def ensures(self, ballot, candidates, result, c, i, j):
        # `not A or B` instead of implies(A, B): CPython evaluates the witnesses with short-circuiting, so B may index
        return (len(result) >= len(ballot)
                and (not (0 <= i and i < len(ballot)) or result[i] == ballot[i])
                and (not (len(ballot) <= i and i < len(result)) or (result[i] in candidates and result[i] not in ballot))
                and (not (len(ballot) <= i and i < j and j < len(result)) or result[i] != result[j])
                and (not (c in candidates and c not in ballot) or c in result))

    def hint_return(ballot, result, i, j):
        return (distinct_at(result[len(ballot):], i - len(ballot), j - len(ballot), len(result) - len(ballot))
                and nth_in(result[len(ballot):], i - len(ballot)))

"""Contract for Election.get_step (models.py) -- C09"""
from pyvc.api import *
from specs.base import *


@contract("models.py", "Election.get_step", props=("C09",), implicit_raises=("IndexError",))
class get_step:
    """IndexError iff the round is out of range; otherwise the pair (profile replayed up to that round -- get_profile's contract --,
    the state recorded for that round, negative indices counting from the end); nothing is modified"""
    params = dict(self=Obj("Election", dict(election_states=Seq(StateRef, "list"), _profile=Profile)), round_number=Int)
    returns = Tup(Profile, StateRef)
    modifies = ()

    def requires(self, round_number):
        return len(self.election_states) >= 1

    def raises_IndexError(self, round_number):
        return round_number < -len(self.election_states) or round_number > len(self.election_states) - 1

    def ensures(self, old_self, round_number, result):
        return (result[0] == replay(self._profile, self.election_states, round_number if round_number >= 0 else round_number + len(self.election_states))
                and result[1] == self.election_states[round_number if round_number >= 0 else round_number + len(self.election_states)]
                and self.election_states == old_self.election_states and self._profile == old_self._profile)

"""Contracts for the whole run of the single-shot rules: Election._run_election (models.py) with the receiver's own _is_finished /
_run_step -- C01 (termination with exactly m winners).  Registered under receiver keys no caller looks up ("<Class>/run"), so the
constructors keep their (assumed) abstract run contract; these proofs stand on their own."""
from pyvc.api import *
from specs.base import *
from specs.stv import *
from specs.transfers import *
from specs.editing import *
from contracts.single_shot_c import PL_FIELDS, BORDA_FIELDS, GR_FIELDS


R = "elections/election_types/ranking/"


@contract(R + "plurality.py", "Plurality._is_finished", props=("C01",))
class plurality_is_finished:
    """a single-shot rule is finished exactly when two states (initial + the round) are recorded; nothing is modified"""
    params = dict(self=Obj("Plurality", PL_FIELDS))
    returns = Bool
    modifies = ()

    def ensures(self, result):
        return result == (len(self.election_states) == 2)


@contract(R + "borda.py", "Borda._is_finished", props=("C01",))
class borda_is_finished:
    """a single-shot rule is finished exactly when two states (initial + the round) are recorded; nothing is modified"""
    params = dict(self=Obj("Borda", BORDA_FIELDS))
    returns = Bool
    modifies = ()

    def ensures(self, result):
        return result == (len(self.election_states) == 2)


@contract("elections/election_types/scores/rating.py", "GeneralRating._is_finished", props=("C01", "C05"))
class rating_is_finished:
    """a single-shot rule is finished exactly when two states (initial + the round) are recorded; nothing is modified"""
    params = dict(self=Obj("GeneralRating", GR_FIELDS))
    returns = Bool
    modifies = ()

    def ensures(self, result):
        return result == (len(self.election_states) == 2)


@contract("models.py", "Election._run_election", props=("C01",), receiver=("Plurality/run",), unfold=3)
class run_election_plurality:
    """Plurality / SNTV: from a freshly constructed election (no state recorded yet) the run records the initial state -- the ranking
    that score_dict_to_ranking makes of the score function's tallies -- then exactly ONE round, and stops: two states, the last one
    electing exactly m candidates.  The loop terminates (variant 2 - number of states).  ValueError exactly when m is out of range or
    a tie straddles the last seat and cannot be broken."""
    params = dict(self=Obj("Plurality", PL_FIELDS))
    returns = NoneS
    modifies = ("election_states",)

    def witnesses():
        from votekit.ballot import Ballot
        from votekit.pref_profile import PreferenceProfile
        from votekit.elections import Plurality
        from votekit.utils import first_place_votes
        A, B, C = frozenset("A"), frozenset("B"), frozenset("C")
        p = PreferenceProfile(ballots=(Ballot(ranking=(A, B, C), weight=Fraction(3)), Ballot(ranking=(B, A), weight=Fraction(2)),
                                       Ballot(ranking=(C,), weight=Fraction(2))), candidates=("A", "B", "C"))
        out = []
        for m, tb in ((1, None), (2, None), (2, "random"), (3, None)):
            o = object.__new__(Plurality)
            o.m, o.tiebreak, o._profile, o.election_states, o.score_function, o.sort_high_low = m, tb, p, [], first_place_votes, True
            out.append(dict(self=o))
        return out

    def requires(self):
        return (len(self.election_states) == 0 and self.score_function is not None
                and all_nonneg(self._profile.ballots, len(self._profile.ballots))
                and distinct(self._profile.candidates, len(self._profile.candidates))
                # the score function tallies exactly the profile's candidates (first_place_votes does: proved in C04)
                and frozenset(score_by(self.score_function, self._profile).keys()) == frozenset(self._profile.candidates))

    def raises_ValueError(self):
        return (self.m < 1 or self.m > count(ranking_of(score_by(self.score_function, self._profile)), len(ranking_of(score_by(self.score_function, self._profile))))
                or (count(ranking_of(score_by(self.score_function, self._profile)),
                          first_reach(ranking_of(score_by(self.score_function, self._profile)), self.m, 0) + 1) > self.m
                    and (self.tiebreak is None or (self.tiebreak != "random" and self.tiebreak != "first_place" and self.tiebreak != "borda"))))

    def ensures(self, old_self):
        return (len(self.election_states) == 2
                and self.election_states[0].remaining == ranking_of(score_by(old_self.score_function, old_self._profile))
                and self.election_states[1].round_number == 1
                and count(self.election_states[1].elected, len(self.election_states[1].elected)) == old_self.m)

    def invariant_0(self, profile):
        return (1 <= len(self.election_states) and len(self.election_states) <= 2
                and self.election_states[0].remaining == ranking_of(score_by(self.score_function, self._profile))
                and implies(len(self.election_states) == 1, profile == self._profile)
                and implies(len(self.election_states) == 2,
                            self.election_states[1].round_number == 1
                            and count(self.election_states[1].elected, len(self.election_states[1].elected)) == self.m
                            # the round went through: none of its ValueError conditions held for the initial ranking
                            and not (self.m < 1 or self.m > count(self.election_states[0].remaining, len(self.election_states[0].remaining))
                                     or (count(self.election_states[0].remaining, first_reach(self.election_states[0].remaining, self.m, 0) + 1) > self.m
                                         and (self.tiebreak is None or (self.tiebreak != "random" and self.tiebreak != "first_place" and self.tiebreak != "borda"))))))

    def decreases_0(self):
        return 2 - len(self.election_states)


@contract("models.py", "Election._run_election", props=("C01",), receiver=("Borda/run",), unfold=3)
class run_election_borda:
    """Borda (same text as for Plurality: the run is inherited from Election): from a freshly constructed election (no state recorded yet) the run records the initial state -- the ranking
    that score_dict_to_ranking makes of the score function's tallies -- then exactly ONE round, and stops: two states, the last one
    electing exactly m candidates.  The loop terminates (variant 2 - number of states).  ValueError exactly when m is out of range or
    a tie straddles the last seat and cannot be broken."""
    params = dict(self=Obj("Borda", BORDA_FIELDS))
    returns = NoneS
    modifies = ("election_states",)

    def witnesses():
        from functools import partial
        from votekit.ballot import Ballot
        from votekit.pref_profile import PreferenceProfile
        from votekit.elections import Borda
        from votekit.utils import score_profile_from_rankings
        A, B, C = frozenset("A"), frozenset("B"), frozenset("C")
        p = PreferenceProfile(ballots=(Ballot(ranking=(A, B, C), weight=Fraction(3)), Ballot(ranking=(B, A, C), weight=Fraction(3)),
                                       Ballot(ranking=(C, A, B), weight=Fraction(1, 2))), candidates=("A", "B", "C"))
        out = []
        for m, tb in ((1, None), (2, None), (1, "random"), (3, None)):
            o = object.__new__(Borda)
            o.m, o.tiebreak, o._profile, o.election_states, o.sort_high_low, o.score_vector = m, tb, p, [], True, (3, 2, 1)
            o.score_function = partial(score_profile_from_rankings, score_vector=(3, 2, 1), to_float=False)
            out.append(dict(self=o))
        return out

    def requires(self):
        return (len(self.election_states) == 0 and self.score_function is not None
                and all_nonneg(self._profile.ballots, len(self._profile.ballots))
                and distinct(self._profile.candidates, len(self._profile.candidates))
                # the score function tallies exactly the profile's candidates (first_place_votes does: proved in C04)
                and frozenset(score_by(self.score_function, self._profile).keys()) == frozenset(self._profile.candidates))

    def raises_ValueError(self):
        return (self.m < 1 or self.m > count(ranking_of(score_by(self.score_function, self._profile)), len(ranking_of(score_by(self.score_function, self._profile))))
                or (count(ranking_of(score_by(self.score_function, self._profile)),
                          first_reach(ranking_of(score_by(self.score_function, self._profile)), self.m, 0) + 1) > self.m
                    and (self.tiebreak is None or (self.tiebreak != "random" and self.tiebreak != "first_place" and self.tiebreak != "borda"))))

    def ensures(self, old_self):
        return (len(self.election_states) == 2
                and self.election_states[0].remaining == ranking_of(score_by(old_self.score_function, old_self._profile))
                and self.election_states[1].round_number == 1
                and count(self.election_states[1].elected, len(self.election_states[1].elected)) == old_self.m)

    def invariant_0(self, profile):
        return (1 <= len(self.election_states) and len(self.election_states) <= 2
                and self.election_states[0].remaining == ranking_of(score_by(self.score_function, self._profile))
                and implies(len(self.election_states) == 1, profile == self._profile)
                and implies(len(self.election_states) == 2,
                            self.election_states[1].round_number == 1
                            and count(self.election_states[1].elected, len(self.election_states[1].elected)) == self.m
                            # the round went through: none of its ValueError conditions held for the initial ranking
                            and not (self.m < 1 or self.m > count(self.election_states[0].remaining, len(self.election_states[0].remaining))
                                     or (count(self.election_states[0].remaining, first_reach(self.election_states[0].remaining, self.m, 0) + 1) > self.m
                                         and (self.tiebreak is None or (self.tiebreak != "random" and self.tiebreak != "first_place" and self.tiebreak != "borda"))))))

    def decreases_0(self):
        return 2 - len(self.election_states)


@contract("models.py", "Election._run_election", props=("C01", "C05"), receiver=("GeneralRating/run",), unfold=3)
class run_election_rating:
    """GeneralRating (same text as for Plurality: the run is inherited from Election): from a freshly constructed election (no state recorded yet) the run records the initial state -- the ranking
    that score_dict_to_ranking makes of the score function's tallies -- then exactly ONE round, and stops: two states, the last one
    electing exactly m candidates.  The loop terminates (variant 2 - number of states).  ValueError exactly when m is out of range or
    a tie straddles the last seat and cannot be broken."""
    params = dict(self=Obj("GeneralRating", GR_FIELDS))
    returns = NoneS
    modifies = ("election_states",)

    def witnesses():
        from votekit.ballot import Ballot
        from votekit.pref_profile import PreferenceProfile
        from votekit.elections import GeneralRating
        from votekit.utils import score_profile_from_ballot_scores
        p = PreferenceProfile(ballots=(Ballot(scores={"A": 2, "B": 1}, weight=Fraction(3)), Ballot(scores={"B": 2, "C": 1}, weight=Fraction(2)),
                                       Ballot(scores={"C": 1}, weight=Fraction(1, 2))), candidates=("A", "B", "C"))
        out = []
        for m, tb in ((1, None), (2, None), (2, "random"), (3, None)):
            o = object.__new__(GeneralRating)
            o.m, o.tiebreak, o._profile, o.election_states, o.sort_high_low, o.L, o.k = m, tb, p, [], True, 2, None
            o.score_function = score_profile_from_ballot_scores
            out.append(dict(self=o))
        return out

    def requires(self):
        return (len(self.election_states) == 0 and self.score_function is not None
                and all_nonneg(self._profile.ballots, len(self._profile.ballots))
                and distinct(self._profile.candidates, len(self._profile.candidates))
                # the score function tallies exactly the profile's candidates (first_place_votes does: proved in C04)
                and frozenset(score_by(self.score_function, self._profile).keys()) == frozenset(self._profile.candidates))

    def raises_ValueError(self):
        return (self.m < 1 or self.m > count(ranking_of(score_by(self.score_function, self._profile)), len(ranking_of(score_by(self.score_function, self._profile))))
                or (count(ranking_of(score_by(self.score_function, self._profile)),
                          first_reach(ranking_of(score_by(self.score_function, self._profile)), self.m, 0) + 1) > self.m
                    and (self.tiebreak is None or (self.tiebreak != "random" and self.tiebreak != "first_place" and self.tiebreak != "borda"))))

    def ensures(self, old_self):
        return (len(self.election_states) == 2
                and self.election_states[0].remaining == ranking_of(score_by(old_self.score_function, old_self._profile))
                and self.election_states[1].round_number == 1
                and count(self.election_states[1].elected, len(self.election_states[1].elected)) == old_self.m)

    def invariant_0(self, profile):
        return (1 <= len(self.election_states) and len(self.election_states) <= 2
                and self.election_states[0].remaining == ranking_of(score_by(self.score_function, self._profile))
                and implies(len(self.election_states) == 1, profile == self._profile)
                and implies(len(self.election_states) == 2,
                            self.election_states[1].round_number == 1
                            and count(self.election_states[1].elected, len(self.election_states[1].elected)) == self.m
                            # the round went through: none of its ValueError conditions held for the initial ranking
                            and not (self.m < 1 or self.m > count(self.election_states[0].remaining, len(self.election_states[0].remaining))
                                     or (count(self.election_states[0].remaining, first_reach(self.election_states[0].remaining, self.m, 0) + 1) > self.m
                                         and (self.tiebreak is None or (self.tiebreak != "random" and self.tiebreak != "first_place" and self.tiebreak != "borda"))))))

    def decreases_0(self):
        return 2 - len(self.election_states)

"""Contracts for the scoring functions of utils.py -- C05 (score ballots), C04 (mentions)"""
from pyvc.api import *
from specs.base import *
from specs.scoring import *


@contract("utils.py", "score_profile_from_ballot_scores", props=("C05",), when=("Profile",))
class score_from_ballot_scores:
    """exact mode (to_float=False): every listed candidate's total is the sum over the ballots of weight x the score the ballot
    gives it (0 if none); the result's keys are exactly the profile's candidates; TypeError exactly when some ballot has no
    (non-empty) score card.  Requires every scored candidate to be listed (else the real code raises KeyError)."""
    params = dict(profile=Profile, to_float=Bool)
    returns = Dict(Real)
    forall = dict(x=Str)
    locals = dict(scores=Dict(Real))

    def witnesses():
        from votekit.ballot import Ballot
        from votekit.pref_profile import PreferenceProfile
        p = PreferenceProfile(ballots=(Ballot(scores={"A": 2, "B": Fraction(1, 2)}, weight=Fraction(3)), Ballot(scores={"B": 1}, weight=Fraction(1, 2))),
                              candidates=("A", "B", "C"))
        return [dict(profile=p, to_float=False, x="B"), dict(profile=p, to_float=False, x="C")]

    def requires(profile, to_float):
        return not to_float and scored_listed(profile.ballots, len(profile.ballots), frozenset(profile.candidates))

    def raises_TypeError(profile, to_float):
        return not all_scored(profile.ballots, len(profile.ballots))

    def ensures(profile, to_float, result, x):
        return (frozenset(result.keys()) == frozenset(profile.candidates)
                and implies(x in profile.candidates, result[x] == stot(profile.ballots, len(profile.ballots), x)))

    def invariant_0(profile, scores, x, _k):
        return (frozenset(scores.keys()) == frozenset(profile.candidates) and all_scored(profile.ballots, _k)
                and implies(x in profile.candidates, scores[x] == stot(profile.ballots, _k, x)))

    def hint_body_0(profile, _k):
        return scored_listed_nth(profile.ballots, len(profile.ballots), frozenset(profile.candidates), _k)

    def hint_raise_TypeError(profile, _k):
        return all_scored_prefix(profile.ballots, _k + 1, len(profile.ballots))


@contract("utils.py", "mentions", props=("C04",), when=("Profile",))
class mentions_c:
    """exact mode: every listed candidate's total is the sum over the ballots of the ballot's weight for each position that lists
    it; keys are exactly the profile's candidates; TypeError exactly when some ballot has no (non-empty) ranking.  Requires every
    ranked candidate to be listed (else the real code raises KeyError)."""
    params = dict(profile=Profile, to_float=Bool)
    returns = Dict(Real)
    forall = dict(x=Str)
    locals = dict(mentions=Dict(Real))

    def witnesses():
        from votekit.ballot import Ballot
        from votekit.pref_profile import PreferenceProfile
        A, B, C = frozenset("A"), frozenset("B"), frozenset("C")
        p = PreferenceProfile(ballots=(Ballot(ranking=(A, B), weight=Fraction(3)), Ballot(ranking=(frozenset("BC"),), weight=Fraction(1, 2)),
                                       Ballot(ranking=(A, B), weight=Fraction(2))), candidates=("A", "B", "C"))
        return [dict(profile=p, to_float=False, x="B"), dict(profile=p, to_float=False, x="C")]

    def requires(profile, to_float):
        return not to_float and ranked_listed(profile.ballots, len(profile.ballots), frozenset(profile.candidates))

    def raises_TypeError(profile, to_float):
        return not all_ranked_ne(profile.ballots, len(profile.ballots))

    def ensures(profile, to_float, result, x):
        return (frozenset(result.keys()) == frozenset(profile.candidates)
                and implies(x in profile.candidates, result[x] == mtot(profile.ballots, len(profile.ballots), x)))

    def invariant_0(profile, mentions, x, _k):
        return (frozenset(mentions.keys()) == frozenset(profile.candidates) and all_ranked_ne(profile.ballots, _k)
                and implies(x in profile.candidates, mentions[x] == mtot(profile.ballots, _k, x)))

    def invariant_1(profile, mentions, ballot, x, _k0, _k):
        return (frozenset(mentions.keys()) == frozenset(profile.candidates)
                and implies(x in profile.candidates, mentions[x] == mtot(profile.ballots, _k0, x) + occ(ballot.ranking, _k, x) * ballot.weight))

    def hint_body_0(profile, _k):
        return ranked_listed_nth(profile.ballots, len(profile.ballots), frozenset(profile.candidates), _k)

    def hint_body_1(profile, ballot, _k):
        return pos_listed_nth(ballot.ranking, len(ballot.ranking), frozenset(profile.candidates), _k)

    def hint_raise_TypeError(profile, _k):
        return all_ranked_ne_prefix(profile.ballots, _k + 1, len(profile.ballots))


@contract("utils.py", "add_missing_cands", props=("C04", "C12"), unfold=3)
class add_missing_cands_c:
    """the candidate set is kept; for every ranking k the result carries exactly the weight of the input ballots whose ranking,
    with the unlisted candidates appended as one last tied position, is k (condensed); TypeError exactly when a ballot has no
    (non-empty) ranking"""
    params = dict(profile=Profile)
    returns = Profile
    forall = dict(k=Seq(CSet), sv=Seq(Real), x=Str)
    locals = dict(new_ballots=Seq(Ballot, "list"), candidates=CSet)

    def witnesses():
        from votekit.ballot import Ballot
        from votekit.pref_profile import PreferenceProfile
        A, B, C = frozenset("A"), frozenset("B"), frozenset("C")
        p = PreferenceProfile(ballots=(Ballot(ranking=(A, B), weight=Fraction(3)), Ballot(ranking=(frozenset("BC"),), weight=Fraction(1, 2)),
                                       Ballot(ranking=(A, B), weight=Fraction(2))), candidates=("A", "B", "C"))
        return [dict(profile=p, k=(A, B, frozenset("C")), sv=(Fraction(3), Fraction(2), Fraction(1)), x="C"),
                dict(profile=p, k=(frozenset("BC"), A), sv=(Fraction(1), Fraction(0)), x="B")]

    def raises_TypeError(profile):
        return not all_ranked(profile.ballots, len(profile.ballots))

    def ensures(profile, result, k, sv, x):
        return (implies(len(profile.candidates) > 0, frozenset(result.candidates) == frozenset(profile.candidates))
                and distinct(result.candidates, len(result.candidates))
                and wrank(result.ballots, len(result.ballots), k)
                == wrank(amc_prefix(profile.ballots, len(profile.ballots), frozenset(profile.candidates)), len(profile.ballots), k)
                and wpts(result.ballots, len(result.ballots), sv, x)
                == wpts(amc_prefix(profile.ballots, len(profile.ballots), frozenset(profile.candidates)), len(profile.ballots), sv, x)
                and implies(all_rk_ok(profile.ballots, len(profile.ballots), frozenset(profile.candidates)),
                            all_rk_ok(result.ballots, len(result.ballots), frozenset(profile.candidates))))

    def invariant_0(profile, new_ballots, candidates, _k):
        return (len(new_ballots) == len(profile.ballots) and all_ranked(profile.ballots, _k)
                and new_ballots[:_k] == list(amc_prefix(profile.ballots, _k, candidates)))

    def hint_return(profile, candidates):
        return amc_prefix_len(profile.ballots, len(profile.ballots), candidates) and amc_prefix_ok(profile.ballots, len(profile.ballots), candidates)

    def hint_raise_TypeError(profile, _k):
        return all_ranked_prefix(profile.ballots, _k + 1, len(profile.ballots))


@contract("utils.py", "score_profile_from_rankings", props=("C04",), when=("Profile", "Seq"), unfold=3, reveal=("pts", "rk_ok"))
class score_from_rankings:
    """exact mode (to_float=False, vector of exact numbers): ValueError iff the vector has a negative entry or increases; TypeError
    iff some ballot has no (non-empty) ranking; otherwise the keys are the profile's candidates and every candidate's score is the
    sum over the ballots of weight x the points of its position -- a position of t tied candidates starting at place a gives each
    of them the average of the (zero-padded) vector's entries a..a+t-1 -- on the ballots completed by add_missing_cands (the
    unlisted candidates tied in one last position).  Requires listed candidates only on the ballots and no empty position."""
    params = dict(profile=Profile, score_vector=Seq(Real), to_float=Bool)
    returns = Dict(Real)
    forall = dict(x=Str)
    locals = dict(scores=Dict(Real), current_ind=Int, local_score_vector=Seq(Real))

    def requires(profile, score_vector, to_float):
        return (not to_float and len(profile.candidates) > 0 and distinct(profile.candidates, len(profile.candidates))
                # ranked ballots are well-formed: non-empty positions, listed candidates only (else the real code raises TypeError / KeyError)
                and implies(all_ranked(profile.ballots, len(profile.ballots)),
                            all_rk_ok(profile.ballots, len(profile.ballots), frozenset(profile.candidates))))

    def witnesses():
        from votekit.ballot import Ballot
        from votekit.pref_profile import PreferenceProfile
        A, B, C = frozenset("A"), frozenset("B"), frozenset("C")
        p = PreferenceProfile(ballots=(Ballot(ranking=(A, B), weight=Fraction(3)), Ballot(ranking=(frozenset("BC"),), weight=Fraction(1, 2)),
                                       Ballot(ranking=(A, B), weight=Fraction(2))), candidates=("A", "B", "C"))
        return [dict(profile=p, score_vector=[Fraction(3), Fraction(2), Fraction(1)], to_float=False, x="B"),
                dict(profile=p, score_vector=[Fraction(1)], to_float=False, x="C")]

    def raises_ValueError(profile, score_vector, to_float):
        return not vec_ok(score_vector, len(score_vector))

    def raises_TypeError(profile, score_vector, to_float):
        return vec_ok(score_vector, len(score_vector)) and not all_ranked(profile.ballots, len(profile.ballots))

    def ensures(profile, score_vector, to_float, result, x):
        return (frozenset(result.keys()) == frozenset(profile.candidates)
                and implies(x in profile.candidates,
                            result[x] == wpts(amc_prefix(profile.ballots, len(profile.ballots), frozenset(profile.candidates)), len(profile.ballots),
                                              padded(score_vector, len(profile.candidates)), x)))

    def invariant_0(profile, score_vector, scores, x, _k):
        # here `profile` is the completed profile and `score_vector` the zero-padded vector (both names are re-bound by the code)
        return (frozenset(scores.keys()) == frozenset(profile.candidates)
                and implies(x in profile.candidates, scores[x] == wpts(profile.ballots, _k, score_vector, x)))

    def hint_body_0(profile, _k):
        return all_rk_ok_nth(profile.ballots, len(profile.ballots), frozenset(profile.candidates), _k)

    def invariant_1(profile, score_vector, scores, ballot, current_ind, x, _k0, _k):
        return (frozenset(scores.keys()) == frozenset(profile.candidates) and current_ind == count(ballot.ranking, _k)
                and current_ind >= 0
                and implies(x in profile.candidates,
                            scores[x] == wpts(profile.ballots, _k0, score_vector, x) + wpos(ballot.ranking, _k, score_vector, x, ballot.weight)))

    def hint_body_1(profile, ballot, _k):
        return npos_listed_nth(ballot.ranking, len(ballot.ranking), frozenset(profile.candidates), _k)

    def hint_inv_1(score_vector, local_score_vector, position_size, _pre_current_ind):
        return alloc_unfold(score_vector, _pre_current_ind, position_size, local_score_vector)

    def hint_inv_0(score_vector, ballot, x):
        return wpos_linear(ballot.ranking, len(ballot.ranking), score_vector, x, ballot.weight)

"""Contract for PreferenceProfile.to_ballot_dict (pref_profile.py) -- C11"""
from pyvc.api import *
from specs.base import *
from specs.condense import *


@contract("pref_profile.py", "PreferenceProfile.to_ballot_dict", props=("C11",), when=("Profile", "proved"), unfold=3)
class to_ballot_dict_c:
    """(standardize=False) the dictionary keyed by (weight-1) ballots gives every content -- ranking alone, or (ranking, scores) for score
    cards without zero entries -- exactly the total weight of the ballots of that content: the entries whose key has the content carry
    that total (dict keyed by Ballot: ordered key/value model looked up through the proved Ballot.__eq__)."""
    params = dict(self=Profile, standardize=Bool)
    returns = BDict
    forall = dict(kb=Ballot, rk=Bool)
    locals = dict(di=BDict)

    def witnesses():
        from votekit.ballot import Ballot
        from votekit.pref_profile import PreferenceProfile
        A, B = frozenset("A"), frozenset("B")
        p = PreferenceProfile(ballots=(Ballot(ranking=(A, B), weight=Fraction(3)), Ballot(ranking=(A, B), scores={"A": 1}, weight=Fraction(1)), Ballot(ranking=(B,), weight=Fraction(1, 2)),
                                       Ballot(ranking=(A, B), weight=Fraction(2)), Ballot(scores={"A": 1}, weight=Fraction(1))))
        return [dict(self=p, standardize=False, kb=Ballot(ranking=(A, B)), rk=rk) for rk in (True, False)]

    def requires(self, standardize):
        return not standardize

    def ensures(self, standardize, result, kb, rk):
        return (len(bd_keys(result)) == len(bd_vals(result))
                and implies(rk or all_wf(self.ballots, len(self.ballots)),
                            acc(bd_keys(result), bd_vals(result), len(result), kb, rk) == wcont(self.ballots, len(self.ballots), kb, rk)))

    def invariant_0(self, di, kb, rk, _k):
        return (len(bd_keys(di)) == len(bd_vals(di))
                and implies(rk or all_wf(self.ballots, len(self.ballots)),
                            acc(bd_keys(di), bd_vals(di), len(di), kb, rk) == wcont(self.ballots, _k, kb, rk)))

    def hint_inv_0(self, _pre_di, weightless_ballot, weight, kb, rk, _k):
        return (bfind_range(bd_keys(_pre_di), len(_pre_di), weightless_ballot)
                and all_wf_nth(self.ballots, len(self.ballots), _k)
                and acc_app(bd_keys(_pre_di), bd_vals(_pre_di), weightless_ballot, weight, len(_pre_di), kb, rk)
                and supd_nth(bd_vals(_pre_di), bfind(bd_keys(_pre_di), len(_pre_di), weightless_ballot),
                             bd_vals(_pre_di)[bfind(bd_keys(_pre_di), len(_pre_di), weightless_ballot)] + weight, 0)
                and acc_upd(bd_keys(_pre_di), bd_vals(_pre_di), bfind(bd_keys(_pre_di), len(_pre_di), weightless_ballot),
                            bd_vals(_pre_di)[bfind(bd_keys(_pre_di), len(_pre_di), weightless_ballot)] + weight, len(_pre_di), kb, rk))

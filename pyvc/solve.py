"""Discharge obligations: SMT-LIB2 text per obligation, portfolio of solver CLIs in a pool.

Verdicts: discharged (unsat by some solver, none says sat), refuted (sat), unknown.
Disagreement (sat vs unsat) is reported as 'inconsistent' (checker defect, exit 3).
"""
from __future__ import annotations
import os
import subprocess
import tempfile
import time
import z3
from concurrent.futures import ThreadPoolExecutor
from . import sorts as S

SOLVERS = [
    ("z3-5.1", ["z3-new", "-smt2", "-T:{T}"]),
    ("cvc5-1.0", ["/usr/bin/cvc5", "--lang=smt2", "--strings-exp", "--tlimit={TMS}"]),
    ("z3-4.8", ["/usr/bin/z3", "-smt2", "-T:{T}"]),
]
TIMEOUT = int(os.environ.get("PYVC_TIMEOUT", "90"))  # typical query: 10-300 ms; the slowest on the unchanged tree: ~5 s unloaded


def _symbols(e, acc, seen):
    """names of uninterpreted constants/functions in e"""
    stack = [e]
    while stack:
        x = stack.pop()
        i = x.get_id()
        if i in seen:
            continue
        seen.add(i)
        if z3.is_quantifier(x):
            stack.append(x.body())
            continue
        if z3.is_app(x):
            d = x.decl()
            if d.kind() == z3.Z3_OP_UNINTERPRETED:
                acc.add(d.name())
            stack.extend(x.children())


def _has_quantifier(e):
    stack = [e]
    seen = set()
    while stack:
        x = stack.pop()
        if x.get_id() in seen:
            continue
        seen.add(x.get_id())
        if z3.is_quantifier(x):
            return True
        if z3.is_app(x):
            if x.decl().kind() == z3.Z3_OP_UNINTERPRETED and x.decl().name().startswith("seq_rev_"):
                return True
            stack.extend(x.children())
    return False


def relevant_facts(hyps, goal, facts):
    """cone of influence over shared uninterpreted symbols"""
    syms = set()
    seen = set()
    for h in hyps:
        _symbols(h, syms, seen)
    _symbols(goal, syms, seen)
    fsyms = []
    for f in facts:
        a = set()
        _symbols(f, a, set())
        fsyms.append(a)
    chosen = [False] * len(facts)
    generic = {"card", "fl"}
    changed = True
    while changed:
        changed = False
        for i, a in enumerate(fsyms):
            if not chosen[i] and (a - generic) & syms:
                chosen[i] = True
                syms |= a
                changed = True
    out = []
    ids = set()
    for i, f in enumerate(facts):
        if chosen[i] and f.get_id() not in ids:
            ids.add(f.get_id())
            out.append(f)
    return out


def _has_forall(e):
    """contains a ForAll / Exists binder (lambda terms do not count)"""
    stack = [e]
    seen = set()
    while stack:
        x = stack.pop()
        if x.get_id() in seen:
            continue
        seen.add(x.get_id())
        if z3.is_quantifier(x):
            if not x.is_lambda():
                return True
            stack.append(x.body())
        elif z3.is_app(x):
            stack.extend(x.children())
    return False


def _const_names(terms):
    """names of the uninterpreted constants occurring in the terms"""
    seen, names, stack = set(), set(), list(terms)
    while stack:
        x = stack.pop()
        if x.get_id() in seen:
            continue
        seen.add(x.get_id())
        if z3.is_quantifier(x):
            stack.append(x.body())
        elif z3.is_app(x):
            if x.num_args() == 0 and x.decl().kind() == z3.Z3_OP_UNINTERPRETED:
                names.add(x.decl().name())
            stack.extend(x.children())
    return names


def query_text(ob, relaxed=False):
    s = z3.Solver()
    facts = relevant_facts(ob.hyps, ob.goal, list(ob.facts))
    if ob.expect_sat:
        # facts are definitional axioms (conservative extensions): dropping the quantified ones preserves
        # satisfiability of the path condition and keeps the cover query decidable for the solvers
        facts = [f for f in facts if not _has_quantifier(f)]
    for h in ob.hyps:
        if relaxed and _has_forall(h):
            continue  # relaxed cover: universally quantified conjuncts (set inclusions, callee postconditions with ghosts) are left out
        s.add(h)
    for f in facts:
        s.add(f)
    for d in S.str_distinct_facts(_const_names(list(ob.hyps) + list(facts) + [ob.goal])):
        s.add(d)
    if not ob.expect_sat:
        s.add(z3.Not(ob.goal))
    txt = s.to_smt2()
    txt = txt.replace("(set-info :status unknown)", "(set-logic ALL)")
    # z3's simplifier splits seq.nth into in-bounds / out-of-bounds variants; both are seq.nth
    txt = txt.replace("seq.nth_i", "seq.nth").replace("seq.nth_u", "seq.nth")
    ob.nfacts = len(facts)
    return txt


def run_one(text, timeout=TIMEOUT, want_all=False, cover=False, cache_unknown=False):
    """portfolio: all solvers start together on the same SMT-LIB text; the first definitive answer wins
    (with want_all every solver is awaited, to detect disagreement).  returns (verdict, backend, seconds, details)"""
    # PYVC_QUERY_CACHE (set ONLY by tools/seed_eval.py, never by a registered check): definitive answers are memoised by the
    # hash of the complete query text, so that evaluating 120 seeded defects does not re-solve the unchanged functions' queries
    cdir = os.environ.get("PYVC_QUERY_CACHE")
    if cdir:
        import hashlib, json as _json
        key = os.path.join(cdir, hashlib.sha256((("C" if cover else "P") + text).encode()).hexdigest() + ".json")
        if os.path.exists(key):
            try:
                v = _json.load(open(key))
                return v[0], v[1], 0.0, [("cache", v[0], 0.0)]
            except Exception:
                pass
        out = _run_one(text, timeout, want_all, cover)
        if out[0] in ("sat", "unsat") or (cache_unknown and out[0] == "unknown"):  # open per-path covers are informational: memoised too (tooling only)
            try:
                os.makedirs(cdir, exist_ok=True)
                _json.dump([out[0], (out[1] or "") + " (cached)"], open(key + ".tmp", "w"))
                os.replace(key + ".tmp", key)
            except Exception:
                pass
        return out
    return _run_one(text, timeout, want_all, cover)


def _run_one(text, timeout=TIMEOUT, want_all=False, cover=False):
    fd, path = tempfile.mkstemp(suffix=".smt2", prefix="pyvc_")
    with os.fdopen(fd, "w") as f:
        f.write(text)
    t0 = time.time()
    procs = []
    results = []
    try:
        for name, cmd in SOLVERS:
            c = [a.replace("{T}", str(timeout)).replace("{TMS}", str(timeout * 1000)) for a in cmd] + [path]
            try:
                procs.append((name, subprocess.Popen(c, stdout=subprocess.PIPE, stderr=subprocess.DEVNULL, text=True), time.time()))
            except OSError:
                results.append((name, "unknown", 0.0))
        pending = list(procs)
        deadline = t0 + timeout + 5
        decided = False
        while pending and time.time() < deadline and not (decided and not want_all):
            for item in list(pending):
                name, p, t1 = item
                if p.poll() is not None:
                    out = (p.stdout.read() or "").strip().splitlines()
                    ans = out[0].strip() if out else "unknown"
                    if ans not in ("sat", "unsat"):
                        ans = "unknown"
                    if ans == "sat" and name.startswith("z3-4") and "(lambda" in text and not cover:
                        # z3 4.8.12 does not treat lambda terms extensionally: it reports `sat` on valid goals that need
                        # (lambda x. t) = (lambda x. t') from t = t' (observed on dict-restriction terms).  Its `unsat` is kept, and so is
                        # its `sat` on COVER queries (vacuity guards: a spurious model there can only weaken the guard, it cannot turn
                        # into a verdict or an alarm; contracts with native witnesses do not depend on it).
                        ans = "unknown"
                    results.append((name, ans, time.time() - t1))
                    pending.remove(item)
                    if ans in ("sat", "unsat"):
                        decided = True
            if pending and not (decided and not want_all):
                time.sleep(0.01)
        for name, p, t1 in pending:
            try:
                p.kill()
                p.wait(timeout=2)
            except Exception:
                pass
            results.append((name, "unknown", time.time() - t1))
    finally:
        os.unlink(path)
    answers = {a for _, a, _ in results if a != "unknown"}
    if len(answers) > 1:
        return "inconsistent", None, time.time() - t0, results
    if "unsat" in answers:
        nm = next(n for n, a, _ in results if a == "unsat")
        return "unsat", nm, time.time() - t0, results
    if "sat" in answers:
        nm = next(n for n, a, _ in results if a == "sat")
        return "sat", nm, time.time() - t0, results
    return "unknown", None, time.time() - t0, results


def discharge(obligations, jobs=None, want_all=False):
    jobs = jobs or int(os.environ.get("PYVC_JOBS", "6"))
    texts = [query_text(ob) for ob in obligations]
    with ThreadPoolExecutor(max_workers=jobs) as pool:
        # covers (satisfiability of a path condition) are vacuity guards with a native-witness fallback: a shorter budget suffices
        # (the precondition's cover is THE vacuity guard and gets the long budget; per-path covers are informational)
        cover_t = int(os.environ.get("PYVC_COVER_TIMEOUT", "30"))
        req_t = int(os.environ.get("PYVC_REQUIRES_COVER_TIMEOUT", "150"))

        def budget(ob):
            if not ob.expect_sat:
                return TIMEOUT
            return req_t if "cover-requires" in ob.name else cover_t
        outs = list(pool.map(lambda p: run_one(p[0], timeout=budget(p[1]), want_all=want_all, cover=p[1].expect_sat,
                                               cache_unknown=p[1].expect_sat and "cover-requires" not in p[1].name), zip(texts, obligations)))
    # covers the solvers left open: second attempt without the universally quantified hypotheses (a weaker vacuity guard, recorded as such)
    redo = [i for i, (ob, o) in enumerate(zip(obligations, outs))
            if ob.expect_sat and "cover-requires" in ob.name and o[0] == "unknown" and any(_has_forall(h) for h in ob.hyps)]
    if redo:
        texts2 = [query_text(obligations[i], relaxed=True) for i in redo]  # z3py is not thread-safe: texts are built here, solvers run as processes
        with ThreadPoolExecutor(max_workers=jobs) as pool:
            outs2 = list(pool.map(lambda p: run_one(p[0], timeout=budget(obligations[p[1]]), cover=True), zip(texts2, redo)))
        for i, o2 in zip(redo, outs2):
            if o2[0] == "sat":
                outs[i] = ("sat", (o2[1] or "") + " [relaxed: quantified hypotheses left out]", outs[i][2] + o2[2], o2[3])
    for ob, (verdict, backend, secs, details) in zip(obligations, outs):
        ob.backend, ob.time, ob.details = backend, secs, details
        if verdict == "inconsistent":
            ob.status = "inconsistent"
        elif ob.expect_sat:
            ob.status = {"sat": "discharged", "unsat": "refuted", "unknown": "unknown"}[verdict]
        else:
            ob.status = {"unsat": "discharged", "sat": "refuted", "unknown": "unknown"}[verdict]
    return obligations


def model_of(ob, timeout_ms=20000):
    """in-process z3 model of a refuted obligation (for replay)"""
    s = z3.Solver()
    s.set("timeout", timeout_ms)
    for h in ob.hyps:
        s.add(h)
    for f in relevant_facts(ob.hyps, ob.goal, list(ob.facts)):
        s.add(f)
    for d in S.str_distinct_facts():
        s.add(d)
    s.add(z3.Not(ob.goal))
    if s.check() == z3.sat:
        return s.model()
    return None

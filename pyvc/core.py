"""PyVC core: symbolic execution of real VoteKit source (read with `ast` on every run)
into verification conditions.  See DESIGN.md section 2.

The executor walks the function's AST statement by statement.  Branches on symbolic
conditions fork the path; loops are cut by the invariants of the sidecar contract; calls
to functions that have a contract are replaced by that contract (precondition becomes an
obligation, postcondition an assumption, `raises` clauses fork exceptional exits).  Every
partial operation (indexing, key lookup, division, None dereference, unbound local) emits a
`no-other-exception` obligation.
"""
from __future__ import annotations
import ast
import os
import z3
from . import sorts as S
from .sorts import (V, VNum, VBool, VStr, VSet, VSeq, VOpt, VDict, VTup, VRec, VObj, VFunc, VNone, NONE,
                    VPyList, VTBDict, VBDict)
from .sorts import VLDict

REPO = os.environ.get("VERIF_REPO", "/repo")
SRC = os.path.join(REPO, "src", "votekit")


class OutOfReach(Exception):
    """construct outside the supported subset: the function gets no proof obligations"""


class Obligation:
    def __init__(self, name, kind, hyps, goal, where="", info=None):
        self.name, self.kind, self.hyps, self.goal, self.where = name, kind, list(hyps), goal, where
        self.info = info or {}
        self.status = None  # discharged | refuted | unknown
        self.backend = None
        self.time = 0.0
        self.model = None
        self.expect_sat = kind in ("cover", "canary")


class Facts(list):
    """definitional axiom instances known on a path (+ the set of spec applications already unfolded)"""

    def __init__(self, it=(), unfolded=None):
        super().__init__(it)
        self.unfolded = set(unfolded or ())

    def copy(self):
        return Facts(self, self.unfolded)


class State:
    def __init__(self, env=None, pc=None, facts=None):
        self.env = env if env is not None else {}
        self.pc = pc if pc is not None else []
        if facts is None:
            facts = Facts()
        elif not isinstance(facts, Facts):
            facts = Facts(facts)
        self.facts = facts

    def fork(self):
        env = {}
        memo = {}
        for k, v in self.env.items():
            env[k] = _copy_obj(v, memo)
        return State(env, list(self.pc), self.facts.copy())

    def assume(self, b):
        if isinstance(b, bool):
            b = z3.BoolVal(b)
        self.pc.append(b)


def _copy_obj(v, memo):
    if isinstance(v, VObj):
        if id(v) in memo:
            return memo[id(v)]
        n = VObj(v.cls, {})
        memo[id(v)] = n
        n.fields = {k: _copy_obj(x, memo) for k, x in v.fields.items()}
        return n
    if isinstance(v, VPyList):
        return VPyList([_copy_obj(x, memo) for x in v.items])
    return v


# ------------------------------------------------------------------ source access
_mod_cache: dict[str, ast.Module] = {}


def module_ast(relpath: str) -> ast.Module:
    p = os.path.join(SRC, relpath)
    if p not in _mod_cache:
        with open(p) as f:
            _mod_cache[p] = ast.parse(f.read(), filename=p)
    return _mod_cache[p]


def find_def(relpath: str, qualname: str):
    """look up function/method node by qualified name ('f' or 'Class.method')"""
    mod = module_ast(relpath)
    parts = qualname.split(".")
    body = mod.body
    node = None
    for p in parts:
        node = None
        for n in body:
            if isinstance(n, (ast.FunctionDef, ast.ClassDef)) and n.name == p:
                node = n
                break
        if node is None:
            return None
        body = node.body
    return node


def find_class(relpath: str, name: str):
    n = find_def(relpath, name)
    return n if isinstance(n, ast.ClassDef) else None


def loops_of(fn: ast.FunctionDef):
    """loops in source order (the ordinal used by `invariant_<k>`); nested defs excluded"""
    out = []

    def visit(n):
        for c in ast.iter_child_nodes(n):
            if isinstance(c, (ast.FunctionDef, ast.Lambda, ast.ClassDef)):
                continue
            if isinstance(c, (ast.For, ast.While)):
                out.append(c)
            visit(c)

    visit(fn)
    return out


def assigned_names(nodes):
    """names (and self.<field> as 'self.<field>') possibly assigned in the statements"""
    names = set()

    class Vis(ast.NodeVisitor):
        def visit_FunctionDef(self, n):
            pass

        def visit_Lambda(self, n):
            pass

        def visit_Name(self, n):
            if isinstance(n.ctx, (ast.Store, ast.Del)):
                names.add(n.id)

        def visit_Attribute(self, n):
            if isinstance(n.ctx, ast.Store) and isinstance(n.value, ast.Name):
                names.add(f"{n.value.id}.{n.attr}")
            self.generic_visit(n)

        def visit_Subscript(self, n):
            if isinstance(n.ctx, ast.Store):
                b = n.value
                while isinstance(b, (ast.Subscript, ast.Attribute)):
                    b = b.value
                if isinstance(b, ast.Name):
                    names.add(b.id)
            self.generic_visit(n)

        def visit_Call(self, n):
            # mutating method calls on a local: x.append / x.pop / x.update / x.extend
            f = n.func
            if isinstance(f, ast.Attribute) and f.attr in ("append", "pop", "extend", "update", "add", "remove", "insert", "clear", "sort", "reverse"):
                b = f.value
                while isinstance(b, ast.Subscript):
                    b = b.value
                if isinstance(b, ast.Name):
                    names.add(b.id)
                elif isinstance(b, ast.Attribute) and isinstance(b.value, ast.Name):
                    names.add(f"{b.value.id}.{b.attr}")
            self.generic_visit(n)

    for n in nodes:
        Vis().visit(n)
    return names


# ------------------------------------------------------------------ helpers on values
def to_real(v: VNum):
    return z3.ToReal(v.term) if v.kind == "int" else v.term


def num_join(a: VNum, b: VNum):
    if a.kind == "int" and b.kind == "int":
        return a.term, b.term, "int"
    k = "float" if "float" in (a.kind, b.kind) else "real"
    return to_real(a), to_real(b), k


def mk_int(n):
    return VNum(z3.IntVal(n), "int")


def is_concrete_int(v):
    return isinstance(v, VNum) and v.kind == "int" and z3.is_int_value(z3.simplify(v.term))


def concrete_int(v):
    return z3.simplify(v.term).as_long()


class Ctx:
    """verification context of one function under contract"""

    def __init__(self, fname, registry, mode="code"):
        self.fname = fname
        self.registry = registry
        self.obligations: list[Obligation] = []
        self.mode = mode
        self.counter = 0
        self.ghost_log = []
        self.elementwise = []  # (bound Int variable, body) of element-wise facts; instantiated at the contract's ghost positions before the postcondition

    def oblige(self, st: State, goal, kind, where, guards=(), info=None):
        self.counter += 1
        name = f"{self.fname}/{kind}#{self.counter}"
        hyps = list(st.pc) + list(guards)
        ob = Obligation(name, kind, hyps, goal, where, info)
        ob.facts = st.facts  # shared list of definitional axiom instances (valid in every state)
        self.obligations.append(ob)
        return ob


EXC_NAMES = ("ValueError", "TypeError", "IndexError", "KeyError", "ZeroDivisionError", "UnboundLocalError",
             "AttributeError", "AssertionError", "Exception")


class Raise(Exception):
    pass


class Exec:
    """symbolic executor for one function body"""

    def __init__(self, ctx: Ctx, relpath: str, contract=None, spec_mode=False):
        self.ctx = ctx
        self.relpath = relpath
        self.contract = contract
        self.spec_mode = spec_mode
        self.guards: list = []
        self.pending_exits: list = []  # (cond, excname) raised by contracted callees in the current statement
        self.loop_nodes = []
        self.unfold_depth = 0
        self.max_unfold = 2
        self.float_mode = getattr(contract, "float_mode", "exact") if contract else "exact"

    def local_sort(self, name):
        fs = getattr(self, "fn_stack", None)
        if not fs:
            return None
        info = fs[-1][1]
        if info is None:
            return None
        return getattr(info.cls, "locals", {}).get(name)

    # ---------------------------------------------------------------- obligations
    def need(self, st, cond, exc, node, what=""):
        """partial operation: `cond` must hold or `exc` escapes"""
        if self.spec_mode:
            return
        if isinstance(cond, bool):
            if cond:
                return
            cond = z3.BoolVal(False)
        where = f"{self.relpath}:{getattr(node, 'lineno', '?')}"
        # if the contract's raises table allows this exception, the implicit raise becomes a path
        allowed = self.contract and exc in getattr(self.contract, "implicit_raises", ())
        if allowed:
            self.pending_exits.append((z3.And(*(self.guards + [z3.Not(cond)])) if self.guards else z3.Not(cond), exc, where))
            return
        self.ctx.oblige(st, cond, f"no-{exc}", where, self.guards, {"what": what})

    # ---------------------------------------------------------------- truthiness / equality
    def truth(self, v: V):
        if isinstance(v, VTruthy):
            return v.term
        if isinstance(v, VBool):
            return v.term
        if isinstance(v, VNum):
            return v.term != 0
        if isinstance(v, VNone):
            return z3.BoolVal(False)
        if isinstance(v, VOpt):
            return z3.And(z3.Not(v.isnone), self.truth(v.val))
        if isinstance(v, VSeq):
            return z3.Length(v.term) > 0
        if isinstance(v, VSet):
            return v.term != S.EMPTY_SET
        if isinstance(v, VDict):
            return v.keys != S.EMPTY_SET
        if isinstance(v, VTBDict):
            return v.has
        if isinstance(v, VBDict):
            return z3.Length(v.keys) > 0
        if isinstance(v, VTup):
            return z3.BoolVal(len(v.items) > 0)
        if isinstance(v, VPyList):
            return z3.BoolVal(len(v.items) > 0)
        if isinstance(v, (VRec, VObj, VFunc)):
            return z3.BoolVal(True)
        if isinstance(v, VStr):
            # S-STR: option strings and candidate names are non-empty
            return z3.BoolVal(True)
        raise OutOfReach(f"truth of {v!r}")

    def as_seq(self, v: V, hint: S.Sort | None = None) -> VSeq:
        if isinstance(v, VSeq):
            return v
        if isinstance(v, VTup) or isinstance(v, VPyList):
            items = v.items
            if not items:
                if hint is None:
                    raise OutOfReach("empty tuple of unknown element sort")
                return VSeq(z3.Empty(z3.SeqSort(hint.z3())), hint)
            es = S.sort_of(items[0])
            if es is S.Int and hint in (S.Real, S.Float) and all(isinstance(it, VNum) for it in items):
                es = hint  # a list of ints joined with / passed as a sequence of exact numbers
            t = None
            for it in items:
                u = z3.Unit(self.term_of(it, es))
                t = u if t is None else z3.Concat(t, u)
            return VSeq(t, es)
        raise OutOfReach(f"as_seq of {v!r}")

    def term_of(self, v: V, sort: S.Sort):
        if sort is S.Real or sort is S.Float:
            if isinstance(v, VNum):
                return to_real(v)
        if sort is S.Int and isinstance(v, VNum) and v.kind == "int":
            return v.term
        if isinstance(v, (VBool, VStr, VSet, VRec)):
            return v.term
        if isinstance(v, VSeq):
            return v.term
        if isinstance(v, VTup) and isinstance(sort, S.Seq):
            return self.as_seq(v, sort.elem).term
        raise OutOfReach(f"term_of {v!r} as {sort}")

    def eq(self, a: V, b: V):
        if isinstance(a, VNone) and isinstance(b, VNone):
            return z3.BoolVal(True)
        if isinstance(a, VNone):
            a, b = b, a
        if isinstance(b, VNone):
            if isinstance(a, VOpt):
                return a.isnone
            if isinstance(a, VOpaque):
                return a.term == (S.ID_NONE if a.what == "id" else S.VS_NONE)
            return z3.BoolVal(False)
        if isinstance(a, VOpaque) and isinstance(b, VOpaque):
            return a.term == b.term
        if isinstance(a, VOpt) and isinstance(b, VOpt):
            return z3.Or(z3.And(a.isnone, b.isnone), z3.And(z3.Not(a.isnone), z3.Not(b.isnone), self.eq(a.val, b.val)))
        if isinstance(a, VOpt):
            return z3.And(z3.Not(a.isnone), self.eq(a.val, b))
        if isinstance(b, VOpt):
            return z3.And(z3.Not(b.isnone), self.eq(a, b.val))
        if isinstance(a, VNum) and isinstance(b, VNum):
            x, y, _ = num_join(a, b)
            return x == y
        if isinstance(a, VBool) and isinstance(b, VBool):
            return a.term == b.term
        if isinstance(a, VStr) and isinstance(b, VStr):
            return a.term == b.term
        if isinstance(a, VSet) and isinstance(b, VSet):
            return a.term == b.term
        if isinstance(a, (VSeq, VTup)) and isinstance(b, (VSeq, VTup)):
            if isinstance(a, VTup) and isinstance(b, VTup):
                if len(a.items) != len(b.items):
                    return z3.BoolVal(False)
                return z3.And(*[self.eq(x, y) for x, y in zip(a.items, b.items)]) if a.items else z3.BoolVal(True)
            sa = a if isinstance(a, VSeq) else None
            sb = b if isinstance(b, VSeq) else None
            hint = (sa or sb).elem
            sa = sa or self.as_seq(a, hint)
            sb = sb or self.as_seq(b, hint)
            return sa.term == sb.term
        if isinstance(a, VRec) and isinstance(b, VRec):
            if a.cls == "Ballot" and not self.spec_mode:
                raise OutOfReach("Ballot == Ballot in code needs the Ballot.__eq__ contract")
            return a.term == b.term
        if isinstance(a, VFunc) and isinstance(b, VFunc):
            return a.term == b.term
        if isinstance(a, VTBDict) and isinstance(b, VTBDict):
            return z3.And(a.has == b.has, z3.Implies(a.has, z3.And(a.key == b.key, a.val == b.val)))
        if isinstance(a, VDict) and isinstance(b, VDict):
            # equal key sets and equal values on the keys (values off the key set are irrelevant)
            # equal key sets and equal values on the keys (values off the key set are irrelevant): the restrictions to the keys are equal
            ra = S.lam(lambda c: z3.If(a.keys[c], a.vals[c], z3.RealVal(0)), a.keys, a.vals)
            rb = S.lam(lambda c: z3.If(b.keys[c], b.vals[c], z3.RealVal(0)), b.keys, b.vals)
            return z3.And(a.keys == b.keys, ra == rb)
        # different python types never compare equal
        return z3.BoolVal(False)

    # ---------------------------------------------------------------- facts about sets
    def card_of(self, st: State, t):
        c = S.card(t)
        st.facts.append(z3.And(c >= 0, (c == 0) == (t == S.EMPTY_SET)))
        return c

    def singleton(self, st, c):
        t = z3.Store(S.EMPTY_SET, c, True)
        st.facts.append(S.card(t) == 1)
        return t

    def enum_of(self, st: State, t) -> VSeq:
        """demonic enumeration of a set (fresh at each iteration site, S-SET)"""
        e = z3.Const(S.fresh_name("enum"), S.SeqStr)
        c = self.card_of(st, t)
        st.facts.append(z3.Length(e) == c)
        # the first element is a member; a singleton set is exactly {first element}
        st.facts.append(z3.Implies(c > 0, z3.Select(t, e[0])))
        st.facts.append(z3.Implies(c == 1, t == z3.Store(S.EMPTY_SET, e[0], True)))
        # S-SET: the enumeration is duplicate-free and lists exactly the members
        from .calls import apply_spec
        if self.ctx.registry is not None and "distinct" in self.ctx.registry.specs:
            d = apply_spec(self, self.ctx.registry.specs["distinct"], [VSeq(e, S.Str, "list"), VNum(z3.Length(e), "int")], st)
            st.facts.append(d.term)
        st.facts.append(S.lam(lambda x: z3.Contains(e, z3.Unit(x)), e) == t)
        if self.ctx.registry is not None and "elems" in self.ctx.registry.specs:
            el = apply_spec(self, self.ctx.registry.specs["elems"], [VSeq(e, S.Str, "list"), VNum(z3.Length(e), "int")], st)
            st.facts.append(el.term == t)  # the same statement through the recursive spec function (usable by induction lemmas)
        return VSeq(e, S.Str, "list"), e

    # ---------------------------------------------------------------- expressions
    def eval(self, node: ast.AST, st: State) -> V:
        m = getattr(self, "e_" + type(node).__name__, None)
        if m is None:
            raise OutOfReach(f"expression {type(node).__name__} at line {getattr(node, 'lineno', '?')}")
        return m(node, st)

    def e_Constant(self, n, st):
        v = n.value
        if v is None:
            return NONE
        if isinstance(v, bool):
            return VBool(z3.BoolVal(v))
        if isinstance(v, int):
            return mk_int(v)
        if isinstance(v, float):
            return VNum(z3.RealVal(repr(v)), "float")
        if isinstance(v, str):
            return VStr(S.str_const(v))
        raise OutOfReach(f"constant {v!r}")

    def e_JoinedStr(self, n, st):  # f-strings only occur in messages
        return VStr(S.str_const("<fstring>"))

    def e_Name(self, n, st):
        if n.id in st.env:
            v = st.env[n.id]
            if v is UNBOUND:
                self.need(st, False, "UnboundLocalError", n, n.id)
                raise Raise()
            if isinstance(v, MaybeUnbound):
                self.need(st, v.bound, "UnboundLocalError", n, n.id)
                return v.val
            return v
        g = self.global_name(n.id)
        if g is not None:
            return g
        raise OutOfReach(f"name {n.id}")

    def global_name(self, name):
        if name in ("True", "False"):
            return VBool(name == "True")
        from . import builtins_model as B
        if name in B.BUILTINS:
            return VFunc(name, impl=B.BUILTINS[name])
        if name in EXC_NAMES or name in ("str", "list", "tuple", "int", "float", "dict"):
            return VFunc(name)
        sp = self.ctx.registry.specs.get(name) if self.ctx.registry else None
        if sp is not None:
            return VFunc(name, impl=sp)
        # repo-level function / class visible in the module under verification
        for rel in (self.relpath, getattr(self, "fallback_relpath", None)):
            if rel is None or not os.path.exists(os.path.join(SRC, rel)):
                continue
            tgt = self.ctx.registry.resolve_global(rel, name) if self.ctx.registry else None
            if tgt is not None:
                return tgt
        return None

    def e_Tuple(self, n, st):
        items = [self.eval(e, st) for e in n.elts]
        return self.mk_tuple(items, "tuple")

    def e_List(self, n, st):
        items = [self.eval(e, st) for e in n.elts]
        return self.mk_tuple(items, "list")

    def mk_tuple(self, items, kind):
        if items and all(isinstance(i, (VSet,)) for i in items) or items and all(isinstance(i, VStr) for i in items) \
                or items and all(isinstance(i, VNum) for i in items) \
                or items and all(isinstance(i, VRec) for i in items) and len({i.cls for i in items}) == 1:  # records of ONE class only
            if all(isinstance(i, VNum) for i in items):
                k = "int" if all(i.kind == "int" for i in items) else "real"
                es = S.Int if k == "int" else S.Real
            else:
                es = S.sort_of(items[0])
            t = None
            for it in items:
                u = z3.Unit(self.term_of(it, es))
                t = u if t is None else z3.Concat(t, u)
            return VSeq(t, es, kind)
        return VTup(items)

    def e_Set(self, n, st):
        t = S.EMPTY_SET
        for e in n.elts:
            v = self.eval(e, st)
            if not isinstance(v, VStr):
                raise OutOfReach("set display of non-strings")
            t = z3.Store(t, v.term, True)
        if len(n.elts) == 1:
            st.facts.append(S.card(t) == 1)
        return VSet(t)

    def e_Dict(self, n, st):
        if not n.keys:
            return VTBDict(z3.BoolVal(False), S.EMPTY_SET, z3.Empty(S.SeqCSet))  # {} (used for tiebreak records)
        if len(n.keys) == 1 and n.keys[0] is not None:
            k = self.eval(n.keys[0], st)
            v = self.eval(n.values[0], st)
            if isinstance(k, VSet) and isinstance(v, (VSeq, VTup)):
                return VTBDict(z3.BoolVal(True), k.term, self.as_seq(v, S.CSet).term)
        raise OutOfReach("dict display")

    def e_UnaryOp(self, n, st):
        v = self.eval(n.operand, st)
        if isinstance(n.op, ast.Not):
            return VBool(z3.Not(self.truth(v)))
        if isinstance(n.op, ast.USub) and isinstance(v, VNum):
            return VNum(-v.term, v.kind)
        if isinstance(n.op, ast.UAdd) and isinstance(v, VNum):
            return v
        raise OutOfReach("unary op")

    def e_BoolOp(self, n, st):
        # python and/or return operands; we support them in boolean positions and for
        # `x or default` with Optional x
        vals = []
        pushed = 0
        try:
            for i, e in enumerate(n.values):
                v = self.eval(e, st)
                vals.append(v)
                if i < len(n.values) - 1:
                    t = self.truth(v)
                    ts = z3.simplify(t)
                    if (isinstance(n.op, ast.And) and z3.is_false(ts)) or (isinstance(n.op, ast.Or) and z3.is_true(ts)):
                        break  # short circuit decided statically: later operands are not evaluated
                    self.guards.append(t if isinstance(n.op, ast.And) else z3.Not(t))
                    pushed += 1
        finally:
            for _ in range(pushed):
                self.guards.pop()
        if all(isinstance(v, VBool) for v in vals):
            ts = [v.term for v in vals]
            return VBool(z3.And(*ts) if isinstance(n.op, ast.And) else z3.Or(*ts))
        # general: fold with ite on truthiness
        try:
            res = vals[-1]
            for v in reversed(vals[:-1]):
                t = self.truth(v)
                if isinstance(n.op, ast.And):
                    res = self.ite(t, res, v)
                else:
                    res = self.ite(t, v, res)
            return res
        except OutOfReach:
            # operands of different python types: only the truth value of the result is representable
            ts = [self.truth(v) for v in vals]
            return VTruthy(z3.And(*ts) if isinstance(n.op, ast.And) else z3.Or(*ts))

    def ite(self, c, a: V, b: V) -> V:
        if z3.is_true(c):
            return a
        if z3.is_false(c):
            return b
        if isinstance(a, VBool) and isinstance(b, VBool):
            return VBool(z3.If(c, a.term, b.term))
        if isinstance(a, VNum) and isinstance(b, VNum):
            x, y, k = num_join(a, b)
            return VNum(z3.If(c, x, y), k)
        if isinstance(a, VStr) and isinstance(b, VStr):
            return VStr(z3.If(c, a.term, b.term))
        if isinstance(a, VSet) and isinstance(b, VSet):
            return VSet(z3.If(c, a.term, b.term))
        if isinstance(a, (VSeq, VTup)) and isinstance(b, (VSeq, VTup)) and (isinstance(a, VSeq) or isinstance(b, VSeq)):
            hint = a.elem if isinstance(a, VSeq) else b.elem
            a, b = self.as_seq(a, hint), self.as_seq(b, hint)
            return VSeq(z3.If(c, a.term, b.term), a.elem, a.kind)
        if isinstance(a, VTup) and isinstance(b, VTup) and len(a.items) == len(b.items):
            return VTup([self.ite(c, x, y) for x, y in zip(a.items, b.items)])
        if isinstance(a, VRec) and isinstance(b, VRec) and a.cls == b.cls:
            return VRec(z3.If(c, a.term, b.term), a.cls)
        if isinstance(a, VNone) and isinstance(b, VNone):
            return NONE
        if isinstance(a, VTBDict) and isinstance(b, VTBDict):
            return VTBDict(z3.If(c, a.has, b.has), z3.If(c, a.key, b.key), z3.If(c, a.val, b.val))
        if isinstance(a, VDict) and isinstance(b, VDict):
            return VDict(z3.If(c, a.keys, b.keys), z3.If(c, a.vals, b.vals), a.val)
        # optionals
        if isinstance(a, VNone) and not isinstance(b, VOpt):
            return VOpt(c, b)
        if isinstance(b, VNone) and not isinstance(a, VOpt):
            return VOpt(z3.Not(c), a)
        if isinstance(a, VOpt) or isinstance(b, VOpt):
            ao = a if isinstance(a, VOpt) else VOpt(z3.BoolVal(isinstance(a, VNone)), a if not isinstance(a, VNone) else (b.val if isinstance(b, VOpt) else b))
            bo = b if isinstance(b, VOpt) else VOpt(z3.BoolVal(isinstance(b, VNone)), b if not isinstance(b, VNone) else ao.val)
            return VOpt(z3.If(c, ao.isnone, bo.isnone), self.ite(c, ao.val, bo.val))
        raise OutOfReach(f"ite of {a!r} / {b!r}")

    def e_IfExp(self, n, st):
        c = self.truth(self.eval(n.test, st))
        self.guards.append(c)
        try:
            a = self.eval(n.body, st)
        finally:
            self.guards.pop()
        self.guards.append(z3.Not(c))
        try:
            b = self.eval(n.orelse, st)
        finally:
            self.guards.pop()
        return self.ite(c, a, b)

    def e_Compare(self, n, st):
        left = self.eval(n.left, st)
        res = []
        for op, rn in zip(n.ops, n.comparators):
            right = self.eval(rn, st)
            res.append(self.compare(op, left, right, st, n))
            left = right
        return VBool(z3.And(*res) if len(res) > 1 else res[0])

    def compare(self, op, a, b, st, node):
        if isinstance(op, ast.Eq):
            return self.eq(a, b)
        if isinstance(op, ast.NotEq):
            return z3.Not(self.eq(a, b))
        if isinstance(op, ast.Is):
            return self.eq(a, b) if isinstance(b, VNone) or isinstance(a, VNone) else self._is(a, b)
        if isinstance(op, ast.IsNot):
            return z3.Not(self.eq(a, b)) if isinstance(b, VNone) or isinstance(a, VNone) else z3.Not(self._is(a, b))
        if isinstance(op, (ast.In, ast.NotIn)):
            r = self.contains(b, a, st)
            return r if isinstance(op, ast.In) else z3.Not(r)
        if isinstance(a, VSet) and isinstance(b, VSet) and isinstance(op, (ast.LtE, ast.GtE)):
            if isinstance(op, ast.GtE):
                a, b = b, a
            c = z3.Const(S.fresh_name("sc"), S.PyStr)
            return z3.ForAll([c], z3.Implies(a.term[c], b.term[c]))
        if isinstance(a, VOpt) and not self.spec_mode:
            self.need(st, z3.Not(a.isnone), "TypeError", node, "comparison with None")
            a = a.val
        if isinstance(b, VOpt) and not self.spec_mode:
            self.need(st, z3.Not(b.isnone), "TypeError", node, "comparison with None")
            b = b.val
        if isinstance(a, VOpt):
            a = a.val
        if isinstance(b, VOpt):
            b = b.val
        if isinstance(a, VBool):
            a = VNum(z3.If(a.term, 1, 0), "int")
        if isinstance(b, VBool):
            b = VNum(z3.If(b.term, 1, 0), "int")
        if isinstance(a, VNum) and isinstance(b, VNum):
            x, y, _ = num_join(a, b)
            if isinstance(op, ast.Lt):
                return x < y
            if isinstance(op, ast.LtE):
                return x <= y
            if isinstance(op, ast.Gt):
                return x > y
            if isinstance(op, ast.GtE):
                return x >= y
        raise OutOfReach(f"comparison {type(op).__name__} on {a!r},{b!r}")

    def _is(self, a, b):
        if isinstance(a, VFunc) and isinstance(b, VFunc):
            return a.term == b.term
        return self.eq(a, b)

    def contains(self, container, item, st):
        if isinstance(container, VSet) and isinstance(item, VStr):
            return container.term[item.term]
        if isinstance(container, (VDict, VLDict)) and isinstance(item, VStr):
            return container.keys[item.term]
        if isinstance(container, VSeq) and container.elem is S.Ballot and isinstance(item, VRec) and item.cls == "Ballot" and not self.spec_mode:
            # `b in ballots` in code: some element e with e.__eq__(b) (the element is the left operand, as CPython's sequence search compares)
            from .calls import apply_spec
            sp = self.ctx.registry.specs["bfind"]
            return apply_spec(self, sp, [container, VNum(z3.Length(container.term), "int"), item], st).term >= 0
        if isinstance(container, VSeq):
            it = self.term_of(item, container.elem)
            return z3.Contains(container.term, z3.Unit(it))
        if isinstance(container, (VTup, VPyList)):
            return z3.Or(*[self.eq(item, x) for x in container.items]) if container.items else z3.BoolVal(False)
        if isinstance(container, VOpt):
            return self.contains(container.val, item, st)
        if isinstance(container, VBDict) and container.kelem == "ballot" and isinstance(item, VRec) and item.cls == "Ballot":
            return self.bfind(st, container, item).term >= 0
        if isinstance(container, VBDict) and container.kelem == "strseq" and isinstance(item, (VSeq, VTup, VPyList)):
            return self.bfind(st, container, self.as_seq(item, S.Str)).term >= 0
        if isinstance(container, VBDict) and container.kelem == "rankseq" and isinstance(item, (VSeq, VTup, VPyList, VOpt)):
            return self.bfind(st, container, self.rank_key(item)).term >= 0
        raise OutOfReach(f"membership in {container!r}")

    def rank_key(self, item):
        """a ranking used as a dict key (a value known not to be None on this path)"""
        if isinstance(item, VOpt):
            item = item.val
        return self.as_seq(item, S.CSet)

    def bfind(self, st, d, key):
        """index of the first stored key k with k.__eq__(probe) (stored key is the left operand, S-DICT), -1 if none;
        `beq` is the specification of Ballot.__eq__ (proved equal to the real method's contract)"""
        from .calls import apply_spec
        if d.kelem == "rankseq":
            sp = self.ctx.registry.specs["rfind"]
            return apply_spec(self, sp, [VSeq(d.keys, S.Seq(S.CSet)), VNum(z3.Length(d.keys), "int"), key], st)
        if d.kelem == "strseq":
            # keys are tuples of strings: found = first stored key equal to the probe (tuple equality is structural)
            sp = self.ctx.registry.specs["sfind"]
            return apply_spec(self, sp, [VSeq(d.keys, S.Seq(S.Str)), VNum(z3.Length(d.keys), "int"), key], st)
        sp = self.ctx.registry.specs["bfind"]
        return apply_spec(self, sp, [VSeq(d.keys, S.Ballot), VNum(z3.Length(d.keys), "int"), key], st)

    def e_BinOp(self, n, st):
        a = self.eval(n.left, st)
        b = self.eval(n.right, st)
        return self.binop(n.op, a, b, st, n)

    def binop(self, op, a, b, st, node):
        if isinstance(a, VBool):
            a = VNum(z3.If(a.term, 1, 0), "int")
        if isinstance(b, VBool):
            b = VNum(z3.If(b.term, 1, 0), "int")
        if isinstance(a, VNum) and isinstance(b, VNum):
            x, y, k = num_join(a, b)
            if isinstance(op, ast.Add):
                return VNum(x + y, k)
            if isinstance(op, ast.Sub):
                return VNum(x - y, k)
            if isinstance(op, ast.Mult):
                return VNum(x * y, k)
            if isinstance(op, ast.Div):
                self.need(st, y != 0, "ZeroDivisionError", node, "division")
                q = to_real(a) / to_real(b)
                if a.kind == "int" and b.kind == "int" or k == "float":
                    return self.mk_float(st, q)
                return VNum(q, "real")
            if isinstance(op, ast.Mod):
                self.need(st, y != 0, "ZeroDivisionError", node, "modulo")
                if k == "int":
                    # python: result has the sign of the divisor; z3 mod is non-negative for any divisor
                    return VNum(z3.If(y > 0, x % y, -((-x) % (-y))), "int")
                raise OutOfReach("real modulo")
            if isinstance(op, ast.FloorDiv) and k == "int":
                self.need(st, y != 0, "ZeroDivisionError", node, "floor division")
                return VNum(z3.If(y > 0, x / y, (-x) / (-y)), "int")
            if isinstance(op, ast.Pow):
                from .builtins_model import rpow
                return VNum(rpow(to_real(a), to_real(b)), "float" if k != "int" else "int") if k != "int" else self._ipow(a, b)
        if isinstance(a, (VSeq, VTup)) and isinstance(b, (VSeq, VTup)) and isinstance(op, ast.Add):
            if isinstance(a, VTup) and isinstance(b, VTup):
                return VTup(a.items + b.items)
            hint = a.elem if isinstance(a, VSeq) else b.elem
            if isinstance(a, VSeq) and isinstance(b, VSeq) and {a.elem, b.elem} == {S.Int, S.Real}:
                hint = S.Real  # a literal list of ints joined with a sequence of exact numbers
                a, b = (self.int_seq_to_real(a), b) if a.elem is S.Int else (a, self.int_seq_to_real(b))
            sa, sb = self.as_seq(a, hint), self.as_seq(b, hint)
            return VSeq(z3.Concat(sa.term, sb.term), sa.elem, sa.kind)
        if isinstance(a, VSeq) and isinstance(b, VNum) and isinstance(op, ast.Mult):
            return self.replicate(st, a, b)
        if isinstance(a, VPyList) and len(a.items) == 1 and isinstance(b, VNum) and isinstance(op, ast.Mult):
            sq = self.as_seq(a)
            return self.replicate(st, VSeq(sq.term, sq.elem, "list"), b)
        if isinstance(a, VSet) and isinstance(b, VSet) and isinstance(op, (ast.BitOr, ast.BitAnd, ast.Sub)):
            if isinstance(op, ast.BitOr):
                return VSet(S.lam(lambda c: z3.Or(a.term[c], b.term[c]), a.term, b.term))
            if isinstance(op, ast.BitAnd):
                return VSet(S.lam(lambda c: z3.And(a.term[c], b.term[c]), a.term, b.term))
            return VSet(S.lam(lambda c: z3.And(a.term[c], z3.Not(b.term[c])), a.term, b.term))
        if isinstance(a, VDict) and isinstance(b, VDict) and isinstance(op, ast.BitOr):
            raise OutOfReach("dict union")
        raise OutOfReach(f"binop {type(op).__name__} on {a!r},{b!r}")

    def _ipow(self, a, b):
        if is_concrete_int(b) and 0 <= concrete_int(b) <= 4:
            t = z3.IntVal(1)
            for _ in range(concrete_int(b)):
                t = t * a.term
            return VNum(t, "int")
        raise OutOfReach("integer power")

    def mk_float(self, st, q):
        if self.float_mode == "reals":
            return VNum(q, "float")
        t = S.fl(q)
        # exactness mode axioms (S-FLOAT): exact on half-integers of moderate size, relative error bound
        st.facts.append(z3.Implies(z3.And(z3.IsInt(q * 2), q < 2 ** 52, q > -(2 ** 52)), t == q))
        st.facts.append(z3.And(t - q <= z3.If(q >= 0, q, -q) / (2 ** 53), q - t <= z3.If(q >= 0, q, -q) / (2 ** 53)))
        return VNum(t, "float")

    def int_seq_to_real(self, v: VSeq):
        """a literal sequence of ints [i1, ..., ik] as a sequence of exact numbers"""
        def units(t):
            if z3.is_app(t) and t.decl().kind() == z3.Z3_OP_SEQ_UNIT:
                return [t.children()[0]]
            if z3.is_app(t) and t.decl().kind() == z3.Z3_OP_SEQ_CONCAT:
                out = []
                for c in t.children():
                    out += units(c)
                return out
            if z3.is_app(t) and t.decl().kind() == z3.Z3_OP_SEQ_EMPTY:
                return []
            raise OutOfReach("symbolic int sequence joined with a real sequence")
        us = [z3.Unit(z3.ToReal(u)) for u in units(v.term)]
        t = z3.Empty(z3.SeqSort(z3.RealSort())) if not us else (us[0] if len(us) == 1 else z3.Concat(*us))
        return VSeq(t, S.Real, v.kind)

    def replicate(self, st, a: VSeq, n: VNum):
        from .builtins_model import rep_fn
        simp = z3.simplify(z3.Length(a.term))
        sp = self.ctx.registry.specs.get("repl") if self.ctx.registry else None
        if sp is not None and z3.is_int_value(simp) and simp.as_long() == 1 and a.elem in (S.Int, S.Real):
            # [x] * n for a number x: the n-fold repetition, as a sequence of exact numbers (spec function repl)
            from .calls import apply_spec
            x0 = z3.simplify(a.term[0])
            x0 = z3.ToReal(x0) if x0.sort() == z3.IntSort() else x0
            v = apply_spec(self, sp, [VNum(z3.simplify(x0), "real"), n], st)
            return VSeq(v.term, S.Real, a.kind)
        r = z3.Const(S.fresh_name("rep"), a.term.sort())
        nn = z3.If(n.term > 0, n.term, 0)
        st.facts.append(z3.Length(r) == nn * z3.Length(a.term))
        v = VSeq(r, a.elem, a.kind)
        if z3.is_int_value(simp) and simp.as_long() == 1:
            v.rep_of = z3.simplify(a.term[0])  # every element equals this one; instantiated on indexing
        return v

    def e_Attribute(self, n, st):
        base = self.eval(n.value, st)
        return self.getattr(base, n.attr, st, n)

    def getattr(self, base, attr, st, node):
        if isinstance(base, VOpt):
            self.need(st, z3.Not(base.isnone), "AttributeError", node, f"None.{attr}")
            base = base.val
        if isinstance(base, VObj):
            if attr in base.fields:
                return base.fields[attr]
            m = self.ctx.registry.resolve_method(base.cls, attr) if self.ctx.registry else None
            if m is not None:
                return VFunc(f"{m[1]}", node=m[2], module=m[0], bound=base)
            raise OutOfReach(f"attribute {base.cls}.{attr}")
        if isinstance(base, VRec) and base.cls == "Ballot":
            B = S.BallotS
            t = base.term
            if attr == "ranking":
                return VOpt(B.b_rnone(t), VSeq(B.b_ranking(t), S.CSet))
            if attr == "weight":
                return VNum(B.b_weight(t), "real")
            if attr == "scores":
                return VOpt(B.b_snone(t), VDict(B.b_skeys(t), B.b_svals(t)))
            if attr == "id":
                return VOpaque(B.b_id(t), "id")
            if attr == "voter_set":
                return VOpaque(B.b_vs(t), "vs")
        if isinstance(base, VRec) and base.cls == "StateRef":
            t = base.term
            if attr == "elected":
                return VSeq(S.st_elected(t), S.CSet)
            if attr == "eliminated":
                return VSeq(S.st_eliminated(t), S.CSet)
            if attr == "remaining":
                return VSeq(S.st_remaining(t), S.CSet)
            if attr == "round_number":
                return VNum(S.st_round(t), "int")
            if attr == "scores":
                return VDict(S.st_skeys(t), S.st_svals(t))
            if attr == "tiebreaks":
                return VTBDict(S.st_tb_has(t), S.st_tb_key(t), S.st_tb_val(t))
        if isinstance(base, VRec) and base.cls == "Profile":
            P = S.ProfileS
            t = base.term
            if attr == "ballots":
                return VSeq(P.p_ballots(t), S.Ballot)
            if attr == "candidates":
                return VSeq(P.p_candidates(t), S.Str)
            if attr == "total_ballot_wt":
                return VNum(P.p_total(t), "real")
            if attr == "num_ballots":
                return VNum(P.p_num(t), "int")
        if isinstance(base, (VSeq, VDict, VSet)):
            return VFunc(attr, bound=base)  # method reference, resolved at call
        if isinstance(base, VModule):
            return base.get(attr, self)
        raise OutOfReach(f"attribute .{attr} of {base!r}")

    def e_Subscript(self, n, st):
        base = self.eval(n.value, st)
        if isinstance(base, VOpt):
            self.need(st, z3.Not(base.isnone), "TypeError", n, "None is not subscriptable")
            base = base.val
        if isinstance(n.slice, ast.Slice):
            return self.slice(base, n.slice, st)
        if isinstance(n.slice, ast.Tuple) and isinstance(base, VSeq) and base.kind == "ndarray2":
            # numpy 2-d array modelled as its sequence of columns: arr[:, k] is column k (A-LIB); nothing else is modelled
            el = n.slice.elts
            if len(el) == 2 and isinstance(el[0], ast.Slice) and el[0].lower is None and el[0].upper is None and el[0].step is None:
                return self.index(base, self.eval(el[1], st), st, n)
            raise OutOfReach("numpy indexing other than arr[:, k]")
        idx = self.eval(n.slice, st)
        return self.index(base, idx, st, n)

    def norm_index(self, seqlen, i):
        return z3.If(i < 0, i + seqlen, i)

    def known(self, st, cond):
        """cheap entailment test pc |= cond (used only to simplify terms; `False` is always safe)"""
        c = z3.simplify(cond)
        if z3.is_true(c):
            return True
        if z3.is_false(c):
            return False
        s = z3.Solver()
        s.set("timeout", 300)
        s.add(*st.pc)
        s.add(*self.guards)
        s.add(z3.Not(c))
        return s.check() == z3.unsat

    def pyindex(self, st, L, i):
        """python index normalisation, simplified when the sign is known on this path"""
        if self.known(st, i >= 0):
            return i
        if self.known(st, i < 0):
            return i + L
        return z3.If(i < 0, i + L, i)

    def clamp(self, st, L, x):
        """python slice bound clamping"""
        if self.known(st, z3.And(x >= 0, x <= L)):
            return x
        y = self.pyindex(st, L, x)
        return z3.If(y < 0, 0, z3.If(y > L, L, y))

    def index(self, base, idx, st, node):
        if isinstance(base, VSeq) and isinstance(idx, VNum):
            L = z3.Length(base.term)
            i = idx.term
            self.need(st, z3.And(i >= -L, i < L), "IndexError", node, "sequence index")
            j = z3.simplify(self.pyindex(st, L, i))
            el = base.term[j]
            self.seq_index_facts(st, base.term, j, el)
            if getattr(base, "rep_of", None) is not None:
                st.facts.append(z3.Implies(z3.And(j >= 0, j < L), el == base.rep_of))
            v = S.wrap(base.elem, el)
            if isinstance(v, VSet):
                self.card_of(st, el)
            return v
        if isinstance(base, (VTup, VPyList)) and is_concrete_int(idx):
            k = concrete_int(idx)
            if not (-len(base.items) <= k < len(base.items)):
                self.need(st, False, "IndexError", node, "tuple index")
                raise Raise()
            return base.items[k]
        if isinstance(base, VBDict) and (isinstance(idx, VRec) or base.kelem in ("strseq", "rankseq")):
            if base.kelem == "strseq":
                idx = self.as_seq(idx, S.Str)
            if base.kelem == "rankseq":
                idx = self.rank_key(idx)
            f = self.bfind(st, base, idx).term
            self.need(st, f >= 0, "KeyError", node, "dict key (Ballot)")
            return VNum(base.vals[f], "real")
        if isinstance(base, VLDict) and isinstance(idx, VStr):
            self.need(st, base.keys[idx.term], "KeyError", node, "dict key")
            return VSeq(base.vals[idx.term], S.Ballot, "list")
        if isinstance(base, VDict) and isinstance(idx, VStr):
            self.need(st, base.keys[idx.term], "KeyError", node, "dict key")
            return VNum(base.vals[idx.term], "real" if base.val is S.Real else ("int" if base.val is S.Int else "float"))
        raise OutOfReach(f"subscript of {base!r} by {idx!r}")

    def seq_index_facts(self, st, t, j, el, depth=0):
        """valid facts of the sequence theory that the solvers do not always find themselves:
        indexing into a concatenation / a slice"""
        if depth > 3 or not z3.is_app(t):
            return
        k = t.decl().kind()
        if k == z3.Z3_OP_SEQ_CONCAT:
            off = z3.IntVal(0)
            parts = t.children()
            for p in parts:
                lp = z3.Length(p)
                inner = p[j - off]
                st.facts.append(z3.Implies(z3.And(j >= off, j < off + lp), el == inner))
                self.seq_index_facts(st, p, z3.simplify(j - off), inner, depth + 1)
                off = off + lp
        elif k == z3.Z3_OP_SEQ_EXTRACT:
            src, o, ln = t.children()
            inner = src[o + j]
            st.facts.append(z3.Implies(z3.And(j >= 0, j < ln, o >= 0, o + j < z3.Length(src)), el == inner))
            self.seq_index_facts(st, src, z3.simplify(o + j), inner, depth + 1)
        elif k == z3.Z3_OP_SEQ_UNIT:
            st.facts.append(z3.Implies(j == 0, el == t.children()[0]))

    def rev(self, st, v: VSeq) -> VSeq:
        """reversed sequence: uninterpreted function per sort with its defining axioms"""
        key = str(v.term.sort())
        fn = _REV.get(key)
        if fn is None:
            fn = z3.Function("seq_rev_" + "".join(ch if ch.isalnum() else "_" for ch in key), v.term.sort(), v.term.sort())
            _REV[key] = fn
        r = fn(v.term)
        L = z3.Length(v.term)
        i = z3.Int(S.fresh_name("ri"))
        st.facts.append(z3.Length(r) == L)
        st.facts.append(z3.ForAll([i], z3.Implies(z3.And(i >= 0, i < L), r[i] == v.term[L - 1 - i])))
        return VSeq(r, v.elem, v.kind)

    def slice(self, base, sl: ast.Slice, st):
        if sl.step is not None:
            stp = self.eval(sl.step, st)
            if not (is_concrete_int(stp) and concrete_int(stp) == -1 and sl.upper is None):
                raise OutOfReach("slice step")
            if isinstance(base, (VTup, VPyList)):
                base = self.as_seq(base)
            if not isinstance(base, VSeq):
                raise OutOfReach("reverse slice of non-sequence")
            if sl.lower is None:
                return self.rev(st, base)
            lo = self.eval(sl.lower, st).term
            L = z3.Length(base.term)
            if not self.known(st, z3.And(lo >= 0, lo < L)):
                raise OutOfReach("reverse slice with a start that is not known to be a valid non-negative index")
            return self.rev(st, VSeq(z3.Extract(base.term, z3.IntVal(0), z3.simplify(lo + 1)), base.elem, base.kind))
        if isinstance(base, VTup):
            lo = self.eval(sl.lower, st) if sl.lower else None
            hi = self.eval(sl.upper, st) if sl.upper else None
            if (lo is None or is_concrete_int(lo)) and (hi is None or is_concrete_int(hi)):
                return VTup(base.items[(concrete_int(lo) if lo else None):(concrete_int(hi) if hi else None)])
            base = self.as_seq(base)
        if not isinstance(base, VSeq):
            raise OutOfReach("slice of non-sequence")
        L = z3.Length(base.term)
        lo = self.clamp(st, L, self.eval(sl.lower, st).term) if sl.lower else z3.IntVal(0)
        hi = self.clamp(st, L, self.eval(sl.upper, st).term) if sl.upper else L
        n = hi - lo if self.known(st, hi >= lo) else z3.If(hi - lo > 0, hi - lo, 0)
        lo_s, n_s = z3.simplify(lo), z3.simplify(n)
        if z3.is_int_value(lo_s) and lo_s.as_long() == 0 and n_s.eq(z3.simplify(L)):
            return VSeq(base.term, base.elem, base.kind)  # x[:len(x)] is x
        r = z3.Extract(base.term, lo_s, n_s)
        st.facts.append(z3.Implies(z3.And(lo_s == 0, n_s == L), r == base.term))
        return VSeq(r, base.elem, base.kind)

    def e_Call(self, n, st):
        from .calls import do_call
        return do_call(self, n, st)

    def e_Lambda(self, n, st):
        return VFunc("<lambda>", node=n, module=self.relpath)

    def e_ListComp(self, n, st):
        from .comps import do_comp
        return do_comp(self, n, st, "list")

    def e_GeneratorExp(self, n, st):
        from .comps import do_comp
        return do_comp(self, n, st, "gen")

    def e_SetComp(self, n, st):
        from .comps import do_comp
        return do_comp(self, n, st, "set")

    def e_DictComp(self, n, st):
        from .comps import do_comp
        return do_comp(self, n, st, "dict")

    # ---------------------------------------------------------------- statements
    # exec_block returns list of (kind, state, payload); kind in fall|return|raise|break|continue
    def exec_block(self, stmts, st: State):
        live = [st]
        outs = []
        for s in stmts:
            nxt = []
            for cur in live:
                for kind, s2, payload in self.exec_stmt(s, cur):
                    if kind == "fall":
                        nxt.append(s2)
                    else:
                        outs.append((kind, s2, payload))
            live = nxt
            if not live:
                break
        outs.extend(("fall", s2, None) for s2 in live)
        return outs

    def feasible(self, st: State, extra=None):
        # pruning only: `feasible` may always be answered True; quantified facts are left out (they make the query slow)
        from .solve import _has_quantifier
        s = z3.Solver()
        s.set("timeout", 600)
        s.add(*st.pc)
        s.add(*[f for f in st.facts[-40:] if not _has_quantifier(f)])
        s.add(*S.str_distinct_facts())
        if extra is not None:
            s.add(extra)
        return s.check() != z3.unsat

    def flush_exits(self, st: State):
        """implicit exceptions the contract allows, raised while evaluating a statement header (loop iterable): fork their raise
        paths now and continue under their negation"""
        exits = self.pending_exits
        self.pending_exits = []
        outs, pre = [], []
        for cond, exc, where in exits:
            s2 = st.fork()
            for p in pre:
                s2.assume(p)
            s2.assume(cond)
            if self.feasible(s2):
                outs.append(("raise", s2, exc))
            pre.append(z3.Not(cond))
        for p in pre:
            st.assume(p)
        return outs

    def exec_stmt(self, s, st: State):
        self.pending_exits = []
        try:
            m = getattr(self, "s_" + type(s).__name__, None)
            if m is None:
                raise OutOfReach(f"statement {type(s).__name__} at line {s.lineno}")
            res = m(s, st)
        except Raise:
            res = []  # an unconditional implicit exception: obligation already emitted (goal False)
        exits = self.pending_exits
        self.pending_exits = []
        if exits:
            out = []
            neg = []
            for cond, exc, where in exits:
                s2 = st.fork()
                # exits are tried in evaluation order: earlier ones did not fire
                for c in neg:
                    s2.assume(c)
                s2.assume(cond)
                if self.feasible(s2):
                    out.append(("raise", s2, exc))
                neg.append(z3.Not(cond))
            for kind, s2, payload in res:
                for c in neg:
                    s2.assume(c)
                out.append((kind, s2, payload))
            return out
        return res

    def s_Expr(self, s, st):
        if isinstance(s.value, ast.Constant):
            return [("fall", st, None)]  # docstring
        if isinstance(s.value, ast.Call):
            from .calls import call_stmt
            return call_stmt(self, s.value, st, None)
        self.eval(s.value, st)
        return [("fall", st, None)]

    def s_Pass(self, s, st):
        return [("fall", st, None)]

    def s_Return(self, s, st):
        if s.value is not None and isinstance(s.value, ast.Call):
            from .calls import call_stmt
            outs = []
            for kind, s2, payload in call_stmt(self, s.value, st, "__ret__"):
                if kind == "fall":
                    outs.append(("return", s2, s2.env.pop("__ret__")))
                else:
                    outs.append((kind, s2, payload))
            return outs
        v = self.eval(s.value, st) if s.value is not None else NONE
        return [("return", st, v)]

    def s_Raise(self, s, st):
        exc = s.exc
        name = None
        if isinstance(exc, ast.Call) and isinstance(exc.func, ast.Name):
            name = exc.func.id
        elif isinstance(exc, ast.Name):
            name = exc.id
        if name is None:
            raise OutOfReach("raise of computed exception")
        return [("raise", st, name)]

    def s_Assert(self, s, st):
        c = self.truth(self.eval(s.test, st))
        self.need(st, c, "AssertionError", s, "assert")
        st.assume(c)
        return [("fall", st, None)]

    def s_AnnAssign(self, s, st):
        if s.value is None:
            return [("fall", st, None)]
        return self.assign([s.target], s.value, st)

    def s_Assign(self, s, st):
        outs = self.assign(s.targets, s.value, st)
        # hint_assign_<name>: lemma instances assumed right after an assignment to the local <name> (skipped where the clause's
        # locals do not exist); only for the function under contract, never inside spec functions
        frame = self.fn_stack[-1] if self.fn_stack else None
        info = frame[1] if frame is not None and len(frame) > 1 else None
        if info is not None and not self.spec_mode and len(s.targets) == 1 and isinstance(s.targets[0], ast.Name) \
                and info.clause("hint_assign_" + s.targets[0].id) is not None:
            from .verify import apply_hint
            for kind, s2, payload in outs:
                if kind == "fall":
                    apply_hint(self, info, "hint_assign_" + s.targets[0].id, s2)
        return outs

    def assign(self, targets, valnode, st):
        if isinstance(valnode, ast.Call) and len(targets) == 1:
            from .calls import call_stmt
            outs = []
            for kind, s2, payload in call_stmt(self, valnode, st, "__tmp__"):
                if kind == "fall":
                    v = s2.env.pop("__tmp__")
                    self.store(targets[0], v, s2)
                    outs.append(("fall", s2, None))
                else:
                    outs.append((kind, s2, payload))
            return outs
        v = self.eval(valnode, st)
        for t in targets:
            self.store(t, v, st)
        return [("fall", st, None)]

    def store(self, target, v, st):
        if isinstance(target, ast.Name):
            ls = self.local_sort(target.id)
            if ls is not None:
                from .calls import coerce
                v = coerce(self, v, ls, st)
                if isinstance(v, VSeq) and isinstance(ls, S.Seq):
                    v = VSeq(v.term, v.elem, ls.kind)
            st.env[target.id] = v
            return
        if isinstance(target, (ast.Tuple, ast.List)):
            items = self.unpack(v, len(target.elts), st, target)
            for t, x in zip(target.elts, items):
                self.store(t, x, st)
            return
        if isinstance(target, ast.Attribute):
            base = self.eval(target.value, st)
            if isinstance(base, VObj):
                base.fields[target.attr] = v
                return
            raise OutOfReach("attribute store on non-object")
        if isinstance(target, ast.Subscript):
            self.store_subscript(target, v, st)
            return
        raise OutOfReach(f"store to {type(target).__name__}")

    def unpack(self, v, n, st, node):
        if isinstance(v, (VTup, VPyList)):
            if len(v.items) != n:
                self.need(st, False, "ValueError", node, "unpack arity")
                raise Raise()
            return v.items
        if isinstance(v, VSeq):
            self.need(st, z3.Length(v.term) == n, "ValueError", node, "unpack arity")
            return [S.wrap(v.elem, v.term[i]) for i in range(n)]
        raise OutOfReach(f"unpack of {v!r}")

    def store_subscript(self, target, v, st):
        if not isinstance(target.value, ast.Name):
            # self.x[...] = v  on object fields
            if isinstance(target.value, ast.Attribute):
                holder = self.eval(target.value.value, st)
                if isinstance(holder, VObj):
                    cur = holder.fields[target.value.attr]
                    holder.fields[target.value.attr] = self.updated(cur, target, v, st)
                    return
            raise OutOfReach("subscript store on non-local")
        name = target.value.id
        cur = st.env.get(name)
        st.env[name] = self.updated(cur, target, v, st)

    def updated(self, cur, target, v, st):
        if isinstance(cur, VSeq):
            L = z3.Length(cur.term)
            if isinstance(target.slice, ast.Slice):
                sl = target.slice

                lo = z3.simplify(self.clamp(st, L, self.eval(sl.lower, st).term)) if sl.lower else z3.IntVal(0)
                hi = z3.simplify(self.clamp(st, L, self.eval(sl.upper, st).term)) if sl.upper else L
                if not self.known(st, hi >= lo):
                    hi = z3.If(hi < lo, lo, hi)
                nv = self.as_seq(v, cur.elem)
                t = z3.Concat(z3.Extract(cur.term, z3.IntVal(0), lo), nv.term, z3.Extract(cur.term, hi, L - hi))
                return VSeq(t, cur.elem, cur.kind)
            idx = self.eval(target.slice, st)
            i = idx.term
            self.need(st, z3.And(i >= -L, i < L), "IndexError", target, "sequence store index")
            j = z3.simplify(self.pyindex(st, L, i))
            x = self.term_of(v, cur.elem)
            t = z3.Concat(z3.Extract(cur.term, z3.IntVal(0), j), z3.Unit(x),
                          z3.Extract(cur.term, j + 1, L - j - 1))
            # valid consequences of the store that the sequence solvers do not always derive by themselves
            inb = z3.And(j >= 0, j < L)
            st.facts.append(z3.Implies(inb, z3.And(z3.Length(t) == L,
                                                   z3.Extract(t, z3.IntVal(0), j) == z3.Extract(cur.term, z3.IntVal(0), j),
                                                   z3.Extract(t, z3.IntVal(0), j + 1) == z3.Concat(z3.Extract(cur.term, z3.IntVal(0), j), z3.Unit(x)),
                                                   t[j] == x)))
            return VSeq(t, cur.elem, cur.kind)
        if isinstance(cur, VBDict):
            idx = self.eval(target.slice, st)
            if cur.kelem == "strseq":
                idx = self.as_seq(idx, S.Str)
            if cur.kelem == "rankseq":
                idx = self.rank_key(idx)
            if (isinstance(idx, VRec) or cur.kelem in ("strseq", "rankseq")) and isinstance(v, VNum):
                from .calls import apply_spec
                f = self.bfind(st, cur, idx).term
                x = VNum(to_real(v), "real")
                upd = apply_spec(self, self.ctx.registry.specs["supd"], [VSeq(cur.vals, S.Real), VNum(f, "int"), x], st).term
                app_k, app_v = z3.Concat(cur.keys, z3.Unit(idx.term)), z3.Concat(cur.vals, z3.Unit(x.term))
                if self.known(st, f >= 0):
                    return VBDict(cur.keys, upd, cur.kelem)
                if self.known(st, f < 0):
                    return VBDict(app_k, app_v, cur.kelem)
                return VBDict(z3.If(f >= 0, cur.keys, app_k), z3.If(f >= 0, upd, app_v), cur.kelem)
        if isinstance(cur, VDict):
            idx = self.eval(target.slice, st)
            if isinstance(idx, VStr) and isinstance(v, VNum):
                return VDict(z3.Store(cur.keys, idx.term, True), z3.Store(cur.vals, idx.term, to_real(v)), cur.val)
        raise OutOfReach(f"subscript store into {cur!r}")

    def s_AugAssign(self, s, st):
        if isinstance(s.target, ast.Name):
            cur = self.eval(ast.Name(id=s.target.id, ctx=ast.Load(), lineno=s.lineno), st)
            rhs = self.eval(s.value, st)
            st.env[s.target.id] = self.binop(s.op, cur, rhs, st, s)
            return [("fall", st, None)]
        if isinstance(s.target, ast.Subscript):
            load = ast.Subscript(value=s.target.value, slice=s.target.slice, ctx=ast.Load(), lineno=s.lineno)
            cur = self.eval(load, st)
            rhs = self.eval(s.value, st)
            nv = self.binop(s.op, cur, rhs, st, s)
            self.store_subscript(s.target, nv, st)
            return [("fall", st, None)]
        if isinstance(s.target, ast.Attribute):
            cur = self.eval(ast.Attribute(value=s.target.value, attr=s.target.attr, ctx=ast.Load(), lineno=s.lineno), st)
            rhs = self.eval(s.value, st)
            self.store(s.target, self.binop(s.op, cur, rhs, st, s), st)
            return [("fall", st, None)]
        raise OutOfReach("augmented assignment target")

    def s_If(self, s, st):
        c = z3.simplify(self.truth(self.eval(s.test, st)))
        exits = self.pending_exits
        self.pending_exits = []
        outs = []
        pre = []
        if exits:
            for cond, exc, where in exits:
                s2 = st.fork()
                for p in pre:
                    s2.assume(p)
                s2.assume(cond)
                if self.feasible(s2):
                    outs.append(("raise", s2, exc))
                pre.append(z3.Not(cond))
            for p in pre:
                st.assume(p)
        if z3.is_true(c):
            return outs + self.exec_block(s.body, st)
        if z3.is_false(c):
            return outs + self.exec_block(s.orelse, st)
        s_t = st.fork()
        s_t.assume(c)
        s_f = st
        s_f.assume(z3.Not(c))
        if self.feasible(s_t):
            outs += self.exec_block(s.body, s_t)
        if self.feasible(s_f):
            outs += self.exec_block(s.orelse, s_f)
        return outs

    def s_For(self, s, st):
        from .loops import do_for
        return do_for(self, s, st)

    def s_While(self, s, st):
        from .loops import do_while
        return do_while(self, s, st)

    def s_Break(self, s, st):
        return [("break", st, None)]

    def s_Continue(self, s, st):
        return [("continue", st, None)]

    def s_FunctionDef(self, s, st):
        st.env[s.name] = VFunc(s.name, node=s, module=self.relpath)
        return [("fall", st, None)]

    def s_Import(self, s, st):
        return [("fall", st, None)]

    s_ImportFrom = s_Import


_REV: dict = {}


class _Unbound:
    def __repr__(self):
        return "UNBOUND"


UNBOUND = _Unbound()


class MaybeUnbound(V):
    def __init__(self, bound, val):
        self.bound, self.val = bound, val


class VTruthy(V):
    """value of a mixed-type `a and b` / `a or b`: only its truth value may be used"""

    def __init__(self, term):
        self.term = term


class VOpaque(V):
    def __init__(self, term, what):
        self.term, self.what = term, what


class VModule(V):
    def __init__(self, name, table):
        self.name, self.table = name, table

    def get(self, attr, ex):
        if attr in self.table:
            return self.table[attr]
        raise OutOfReach(f"{self.name}.{attr}")

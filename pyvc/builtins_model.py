"""Models of Python builtins and library primitives (assumption A-LIB: each is a written
contract, never proved).  Signature of a model: f(ex, st, node, args, kwargs) -> V"""
from __future__ import annotations
import z3
from . import sorts as S
from .sorts import VNum, VBool, VStr, VSet, VSeq, VOpt, VDict, VTup, VRec, VObj, VFunc, VNone, NONE, VPyList
from .core import OutOfReach, to_real, mk_int, VModule, num_join, is_concrete_int, concrete_int

rpow = z3.Function("rpow", z3.RealSort(), z3.RealSort(), z3.RealSort())
round8 = z3.Function("round8", z3.RealSort(), z3.RealSort())
limden = z3.Function("limit_denominator", z3.RealSort(), z3.RealSort())
factorial = z3.Function("factorial", z3.IntSort(), z3.IntSort())


def rep_fn():
    pass


def b_len(ex, st, node, args, kw):
    (x,) = args
    if isinstance(x, VOpt):
        ex.need(st, z3.Not(x.isnone), "TypeError", node, "len(None)")
        x = x.val
    if isinstance(x, VSeq):
        return VNum(z3.Length(x.term), "int")
    if isinstance(x, VSet):
        return VNum(ex.card_of(st, x.term), "int")
    if isinstance(x, VDict):
        return VNum(ex.card_of(st, x.keys), "int")
    if isinstance(x, (VTup, VPyList)):
        return mk_int(len(x.items))
    from .sorts import VBDict
    if isinstance(x, VBDict):
        return VNum(z3.Length(x.keys), "int")
    raise OutOfReach(f"len of {x!r}")


def trunc(t):
    return z3.If(t >= 0, z3.ToInt(t), -z3.ToInt(-t))


def b_int(ex, st, node, args, kw):
    (x,) = args
    if isinstance(x, VBool):
        return VNum(z3.If(x.term, 1, 0), "int")
    if isinstance(x, VNum):
        if x.kind == "int":
            return x
        return VNum(trunc(x.term), "int")
    raise OutOfReach("int() of non-number")


def b_float(ex, st, node, args, kw):
    (x,) = args
    if isinstance(x, VNum):
        if x.kind == "float":
            return x
        if ex.float_mode == "reals":
            return VNum(to_real(x), "float")
        return ex.mk_float(st, to_real(x))
    raise OutOfReach("float() of non-number")


def b_Fraction(ex, st, node, args, kw):
    if len(args) == 1:
        x = args[0]
        if isinstance(x, VNum):
            return VNum(to_real(x), "real")  # exact for int, Fraction and float (S-FRAC)
        raise OutOfReach("Fraction of non-number")
    if len(args) == 2 and all(isinstance(a, VNum) for a in args):
        ex.need(st, args[1].term != 0, "ZeroDivisionError", node, "Fraction(a, 0)")
        return VNum(to_real(args[0]) / to_real(args[1]), "real")
    if not args:
        return VNum(z3.RealVal(0), "real")
    raise OutOfReach("Fraction(...)")


def b_tuple(ex, st, node, args, kw, kind="tuple"):
    if not args:
        return VTup([])
    (x,) = args
    if isinstance(x, VOpt):
        ex.need(st, z3.Not(x.isnone), "TypeError", node, "tuple(None)")
        x = x.val
    if isinstance(x, VSeq):
        return VSeq(x.term, x.elem, kind)
    if isinstance(x, (VTup, VPyList)):
        return x
    if isinstance(x, VSet):
        seq, e = ex.enum_of(st, x.term)
        seq.kind = kind
        seq.member_of = x.term
        return seq
    if isinstance(x, VDict):
        seq, e = ex.enum_of(st, x.keys)
        return seq
    raise OutOfReach(f"tuple() of {x!r}")


def b_range_desc(ex, st, node, args, kw):
    """range(n, 0, -1) as a value (the Borda vector n, n-1, ..., 1): the spec function desc(n, n) as a sequence of exact numbers"""
    from .calls import apply_spec
    if len(args) == 3 and all(isinstance(a, VNum) for a in args):
        lo, st_ = z3.simplify(args[1].term), z3.simplify(args[2].term)
        sp = ex.ctx.registry.specs.get("desc") if ex.ctx.registry else None
        if sp is not None and z3.is_int_value(lo) and lo.as_long() == 0 and z3.is_int_value(st_) and st_.as_long() == -1:
            v = apply_spec(ex, sp, [args[0], args[0]], st)
            return VSeq(v.term, S.Real, "list")
    raise OutOfReach("range(...) as a value (only range(n, 0, -1) is modelled)")


def b_list(ex, st, node, args, kw):
    if not args:
        return VTup([])
    return b_tuple(ex, st, node, args, kw, "list")


def set_of_seq(ex, st, seq: VSeq):
    if seq.elem is not S.Str:
        raise OutOfReach("set of non-string sequence")
    r = S.lam(lambda c: z3.Contains(seq.term, z3.Unit(c)), seq.term)
    st.facts.append(z3.And(S.card(r) <= z3.Length(seq.term), S.card(r) >= 0, (S.card(r) == 0) == (z3.Length(seq.term) == 0)))
    return VSet(r)


def b_frozenset(ex, st, node, args, kw):
    if not args:
        return VSet(S.EMPTY_SET)
    (x,) = args
    if isinstance(x, VSet):
        return x
    if isinstance(x, VSeq) and getattr(x, "flat_of", None) is not None:
        # the candidates of the flattened ranking [c for s in R for c in s]: the union of R's positions
        from .calls import apply_spec
        R = x.flat_of
        return apply_spec(ex, ex.ctx.registry.specs["union_upto"], [R, VNum(z3.Length(R.term), "int")], st)
    if isinstance(x, VSeq):
        simp = x.term
        if z3.is_app(simp) and simp.decl().kind() == z3.Z3_OP_SEQ_UNIT and x.elem is S.Str:
            t = z3.Store(S.EMPTY_SET, simp.children()[0], True)
            st.facts.append(S.card(t) == 1)
            return VSet(t)
        return set_of_seq(ex, st, x)
    if isinstance(x, (VTup, VPyList)):
        t = S.EMPTY_SET
        for it in x.items:
            if not isinstance(it, VStr):
                raise OutOfReach("set of non-strings")
            t = z3.Store(t, it.term, True)
        if len(x.items) == 1:
            st.facts.append(S.card(t) == 1)
        return VSet(t)
    raise OutOfReach(f"frozenset() of {x!r}")


def b_abs(ex, st, node, args, kw):
    (x,) = args
    return VNum(z3.If(x.term >= 0, x.term, -x.term), x.kind)


def b_minmax(is_max):
    def f(ex, st, node, args, kw):
        if len(args) == 2 and all(isinstance(a, VNum) for a in args):
            x, y, k = num_join(*args)
            return VNum(z3.If((x >= y) if is_max else (x <= y), x, y), k)
        if len(args) == 1 and not kw and isinstance(args[0], VSeq) and args[0].elem in (S.Int, S.Real, S.Float):
            # max(list) / min(list) of numbers: ValueError on an empty list; otherwise an element (ghost position `_argmax` /
            # `_argmin`, visible to hint clauses) that bounds every element -- the definition of the maximum / minimum
            r = args[0].term
            L = z3.Length(r)
            ex.need(st, L > 0, "ValueError", node, "max()/min() of an empty sequence")
            j = z3.Int(S.fresh_name("argmax" if is_max else "argmin"))
            i = z3.Int(S.fresh_name("mi"))
            m = r[j]
            # facts are shared by all paths: everything about the fresh position is stated under L > 0
            st.facts.append(z3.Implies(L > 0, z3.And(j >= 0, j < L)))
            body = z3.Implies(z3.And(i >= 0, i < L), (r[i] <= m) if is_max else (r[i] >= m))
            st.facts.append(z3.ForAll([i], body, patterns=[r[i]]))
            ex.ctx.elementwise.append((i, body))
            st.env["_argmax" if is_max else "_argmin"] = VNum(j, "int")
            kind = {S.Int: "int", S.Real: "real", S.Float: "float"}[args[0].elem]
            return VNum(m, kind)
        raise OutOfReach("min/max")
    return f


def b_isinstance(ex, st, node, args, kw):
    x, t = args
    names = [t.name] if isinstance(t, VFunc) else [i.name for i in t.items]
    res = False
    for nm in names:
        if nm == "str":
            res |= isinstance(x, VStr)
        elif nm == "PreferenceProfile":
            res |= isinstance(x, VRec) and x.cls == "Profile"
        elif nm == "Ballot":
            res |= isinstance(x, VRec) and x.cls == "Ballot"
        elif nm == "Fraction":
            res |= isinstance(x, VNum) and x.kind == "real"
        elif nm == "float":
            res |= isinstance(x, VNum) and x.kind == "float"
        elif nm == "int":
            res |= isinstance(x, VNum) and x.kind == "int" or isinstance(x, VBool)
        elif nm in ("list", "tuple"):
            res |= isinstance(x, VSeq) and x.kind == nm
        else:
            raise OutOfReach(f"isinstance(..., {nm})")
    return VBool(bool(res))


def b_print(ex, st, node, args, kw):
    return NONE


def b_cast(ex, st, node, args, kw):
    return args[1]


_dict_sum = z3.Function("dict_sum", S.CSetS, S.RMapS, z3.RealSort())


def dict_sum(keys, vals):
    """sum of a dict's values: an uninterpreted function of the key set and of the values RESTRICTED to the keys (what a dict is),
    so that dicts that are equal as dicts -- same keys, same values on them -- have provably equal sums"""
    return _dict_sum(keys, S.lam(lambda c: z3.If(keys[c], vals[c], z3.RealVal(0)), keys, vals))


def b_sum(ex, st, node, args, kw):
    (x,) = args
    if isinstance(x, VSeq) and getattr(x, "values_of", None) is not None:
        d = x.values_of[0]
        return VNum(dict_sum(d.keys, d.vals), "real")
    if isinstance(x, VDict):
        raise OutOfReach("sum of dict keys")
    if isinstance(x, VSeq) and x.elem in (S.Int, S.Real, S.Float):
        sp = ex.ctx.registry.specs["ssum" if x.elem is not S.Int else "isum"]
        from .calls import apply_spec
        return apply_spec(ex, sp, [x, VNum(z3.Length(x.term), "int")], st)
    raise OutOfReach("sum of non-sequence")


def b_round(ex, st, node, args, kw):
    x = args[0]
    if len(args) == 2 and is_concrete_int(args[1]) and concrete_int(args[1]) == 8:
        t = round8(to_real(x))
        d = t - to_real(x)
        st.facts.append(z3.And(d <= z3.RealVal("5e-9"), d >= z3.RealVal("-5e-9")))
        return VNum(t, "float")
    raise OutOfReach("round")


def b_isclose(ex, st, node, args, kw):
    a, b = args[:2]
    x, y, _ = num_join(a, b)
    if kw:
        raise OutOfReach("isclose with tolerances")
    d = z3.If(x - y >= 0, x - y, y - x)
    ax = z3.If(x >= 0, x, -x)
    ay = z3.If(y >= 0, y, -y)
    return VBool(d <= z3.RealVal("1e-9") * z3.If(ax >= ay, ax, ay))


def b_factorial(ex, st, node, args, kw):
    (x,) = args
    t = factorial(x.term)
    st.facts.append(t >= 1)
    return VNum(t, "int")


def b_implies(ex, st, node, args, kw):
    a, b = args
    return VBool(z3.Implies(ex.truth(a), ex.truth(b)))


def b_floor(ex, st, node, args, kw):
    (x,) = args
    return VNum(z3.ToInt(to_real(x)), "int")


def b_div(ex, st, node, args, kw):
    """exact rational division of the contract language (CPython: Fraction(a)/Fraction(b))"""
    a, b = args
    ex.need(st, b.term != 0, "ZeroDivisionError", node, "div")
    return VNum(to_real(a) / to_real(b), "real")


def b_dsum(ex, st, node, args, kw):
    """contract language: sum of the values of a dict (CPython: sum(d.values()))"""
    (d,) = args
    if isinstance(d, VOpt):
        d = d.val
    return VNum(dict_sum(d.keys, d.vals), "real")


def b_reversed_seq(ex, st, node, args, kw):
    (x,) = args
    if isinstance(x, (VTup, VPyList)):
        x = ex.as_seq(x)
    return ex.rev(st, x)


def b_Ballot(ex, st, node, args, kw):
    """Ballot(...) in the contract language (specs may use the two data classes)"""
    from .calls import mk_ballot
    return mk_ballot(ex, args, kw, st, node)


def b_bool(ex, st, node, args, kw):
    return VBool(ex.truth(args[0]))


def b_tb_value(ex, st, node, args, kw):
    """contract language: the resolution recorded in a state's (single-entry) tiebreak record"""
    (x,) = args
    from .sorts import VTBDict
    tb = ex.getattr(x, "tiebreaks", st, node) if not isinstance(x, VTBDict) else x
    return VSeq(tb.val, S.CSet)


def b_the(ex, st, node, args, kw):
    """contract language: the member of a one-element set"""
    (x,) = args
    seq, e = ex.enum_of(st, x.term)
    return VStr(e[0])


def b_bd_keys(ex, st, node, args, kw):
    return VSeq(args[0].keys, {"ballot": S.Ballot, "strseq": S.Seq(S.Str), "rankseq": S.Seq(S.CSet)}[args[0].kelem])


def b_bd_vals(ex, st, node, args, kw):
    return VSeq(args[0].vals, S.Real)


BUILTINS = {
    "bd_keys": b_bd_keys, "bd_vals": b_bd_vals,
    "the": b_the,
    "bool": b_bool, "tb_value": b_tb_value,
    "Ballot": b_Ballot,
    "reversed_seq": b_reversed_seq,
    "dsum": b_dsum,
    "implies": b_implies, "floor": b_floor, "div": b_div,
    "len": b_len, "int": b_int, "float": b_float, "Fraction": b_Fraction, "tuple": b_tuple, "list": b_list,
    "frozenset": b_frozenset, "set": b_frozenset, "abs": b_abs, "min": b_minmax(False), "max": b_minmax(True),
    "isinstance": b_isinstance, "print": b_print, "cast": b_cast, "sum": b_sum, "round": b_round,
    "str": None, "dict": None, "sorted": None, "range": b_range_desc, "enumerate": None, "zip": None, "any": None, "all": None,
}
BUILTINS = {k: v for k, v in BUILTINS.items() if v is not None}


def module_value(name):
    if name == "math":
        return VModule("math", {"isclose": VFunc("isclose", impl=b_isclose), "factorial": VFunc("factorial", impl=b_factorial)})
    if name == "random":
        from .rng import RANDOM
        return VModule("random", RANDOM)
    if name == "types":
        # types.MappingProxyType(d): a read-only view of d; reading through it is reading d (A-LIB)
        return VModule("types", {"MappingProxyType": VFunc("MappingProxyType", impl=lambda ex, st, node, args, kw: args[0])})
    return VModule(name, {})


def external_name(module, name):
    if module == "fractions" and name == "Fraction":
        return VFunc("Fraction", impl=b_Fraction)
    if module == "typing" and name == "cast":
        return VFunc("cast", impl=b_cast)
    if module == "typing":
        return VFunc(name)
    return None

"""Calls: builtins, spec functions, contracted callees (modular), inlined callees, constructors."""
from __future__ import annotations
import ast
import z3
from . import sorts as S
from .sorts import VNum, VBool, VStr, VSet, VSeq, VOpt, VDict, VTup, VRec, VObj, VFunc, VNone, NONE, VPyList, VTBDict, VBDict, VLDict
from .core import OutOfReach, State, mk_int, to_real, Exec, UNBOUND, VOpaque, Raise, is_concrete_int, concrete_int
from .loops import eval_clause, eval_clause_value


def eval_args(ex, node: ast.Call, st):
    args = []
    for a in node.args:
        if isinstance(a, ast.Starred):
            raise OutOfReach("star args")
        args.append(ex.eval(a, st))
    kw = {}
    for k in node.keywords:
        if k.arg is None:
            raise OutOfReach("**kwargs")
        kw[k.arg] = ex.eval(k.value, st)
    return args, kw


def do_call(ex: Exec, node: ast.Call, st: State):
    f = node.func
    if isinstance(f, ast.Name) and f.id == "cast" and len(node.args) == 2 and "cast" not in st.env:
        return ex.eval(node.args[1], st)  # typing.cast(T, x) is the identity at run time; T is not evaluated
    if isinstance(f, ast.Name) and f.id == "implies" and len(node.args) == 2 and "implies" not in st.env:
        a = ex.truth(ex.eval(node.args[0], st))
        if z3.is_false(z3.simplify(a)):
            return VBool(True)
        ex.guards.append(a)
        try:
            b = ex.truth(ex.eval(node.args[1], st))
        finally:
            ex.guards.pop()
        return VBool(z3.Implies(a, b))
    if isinstance(f, ast.Attribute):
        if isinstance(f.value, ast.Call) and isinstance(f.value.func, ast.Name) and f.value.func.id == "super":
            raise OutOfReach("super() call in expression position")
        base = ex.eval(f.value, st)
        from .core import VModule
        if isinstance(base, VModule):
            fv = base.get(f.attr, ex)
            return call_value(ex, fv, node, st)
        if isinstance(base, VObj):
            m = ex.ctx.registry.resolve_method(base.cls, f.attr)
            if m is None:
                fld = base.fields.get(f.attr)
                if isinstance(fld, VFunc):
                    return call_value(ex, fld, node, st)
                raise OutOfReach(f"method {base.cls}.{f.attr}")
            rel, qual, mnode = m
            info = ex.ctx.registry.lookup(rel, qual, base.cls)
            if info is None:
                raise OutOfReach(f"call to uncontracted method {qual} in expression position")
            args, kw = eval_args(ex, node, st)
            return apply_contract(ex, info, mnode, [base] + args, kw, st, node)
        return call_method(ex, base, f.attr, node, st)
    fv = ex.eval(f, st)
    return call_value(ex, fv, node, st)


def call_value(ex, fv, node, st):
    if not isinstance(fv, VFunc):
        raise OutOfReach(f"call of {fv!r}")
    args, kw = eval_args(ex, node, st)
    from .api import SpecInfo
    if isinstance(fv.impl, SpecInfo):
        return apply_spec(ex, fv.impl, args, st)
    if fv.impl is not None:
        return fv.impl(ex, st, node, args, kw)
    if isinstance(fv.node, ast.Lambda):
        return inline_lambda(ex, fv, args, kw, st)
    if isinstance(fv.node, ast.ClassDef):
        return construct(ex, fv, args, kw, st, node)
    if fv.node is None and fv.impl is None:
        # a function-valued field/parameter: dispatch to the contract of the function it provably is
        for (rel, qual), info in ex.ctx.registry.contracts.items():
            if "." in qual or "@" in qual:
                continue
            if ex.known(st, fv.term == S.fn_const(qual)):
                from .core import find_def
                return apply_contract(ex, info, find_def(rel, qual), args, kw, st, node)
        # an unidentified score function applied to one profile: a pure function of (function, profile) -- A-PUREFN, recorded as
        # trusted whenever it is used (partial(score_profile_from_rankings, ...) and the like)
        sp = ex.ctx.registry.specs.get("score_by") if ex.ctx.registry else None
        if sp is not None and len(args) == 1 and not kw and isinstance(args[0], VRec) and args[0].cls == "Profile":
            ex.ctx.trusted_used = getattr(ex.ctx, "trusted_used", set()) | {
                "A-PUREFN: a function-valued field called on a profile (e.g. Borda's partial(score_profile_from_rankings, ...)) is a pure function of that profile"}
            return apply_spec(ex, sp, [fv, args[0]], st)
        raise OutOfReach(f"call through function value {fv.name}: its identity is not determined")
    if isinstance(fv.node, ast.FunctionDef):
        info = ex.ctx.registry.lookup_fn(fv.module, fv.name, args)
        if info is None:
            raise OutOfReach(f"call to uncontracted function {fv.name} in expression position")
        if fv.bound is not None:
            args = [fv.bound] + args
        return apply_contract(ex, info, fv.node, args, kw, st, node)
    raise OutOfReach(f"call of {fv.name}")


def inline_lambda(ex, fv, args, kw, st):
    lam = fv.node
    env = dict(st.env)
    for a, v in zip(lam.args.args, args):
        env[a.arg] = v
    for k, v in kw.items():
        env[k] = v
    s2 = State(env, st.pc, st.facts)
    return ex.eval(lam.body, s2)


def bind_params(ex, fnode: ast.FunctionDef, args, kw, st):
    """python call binding; defaults are evaluated from the repository's own default expressions"""
    names = [a.arg for a in fnode.args.args]
    env = {}
    for n, v in zip(names, args):
        env[n] = v
    if len(args) > len(names):
        raise OutOfReach("too many positional args")
    for k, v in kw.items():
        if k not in names:
            raise OutOfReach(f"unexpected keyword {k}")
        env[k] = v
    defaults = fnode.args.defaults
    dnames = names[len(names) - len(defaults):]
    for n, d in zip(dnames, defaults):
        if n not in env:
            env[n] = ex.eval(d, State({}, st.pc, st.facts))
    for n in names:
        if n not in env:
            raise OutOfReach(f"missing argument {n}")
    return env


def coerce(ex, v, sort, st):
    """adapt an actual argument to the contract's declared parameter sort"""
    if isinstance(sort, S.Opt):
        if isinstance(v, VNone):
            return VOpt(z3.BoolVal(True), S.fresh(sort.inner, "none"))
        if isinstance(v, VOpt):
            return VOpt(v.isnone, coerce(ex, v.val, sort.inner, st))
        return VOpt(z3.BoolVal(False), coerce(ex, v, sort.inner, st))
    if isinstance(sort, S.BDictSort) and isinstance(v, VTBDict) and z3.is_false(z3.simplify(v.has)):
        return VBDict(z3.Empty(sort.keyseq()), z3.Empty(z3.SeqSort(z3.RealSort())), sort.kelem)  # `{}`
    if isinstance(sort, S.Dict) and isinstance(v, VTBDict) and z3.is_false(z3.simplify(v.has)):
        return VDict(S.EMPTY_SET, z3.K(S.PyStr, z3.RealVal(0)), sort.val)  # `{}` of a str->number dict
    if isinstance(v, VOpt) and not isinstance(sort, S.Opt):
        v = v.val  # Optional actual for a non-optional formal: the caller guards with `is not None`
    if isinstance(sort, S.Seq) and isinstance(v, (VTup, VPyList)):
        r = ex.as_seq(v, sort.elem)
        return VSeq(r.term, r.elem, sort.kind)
    if sort is S.Real and isinstance(v, VNum) and v.kind == "int":
        return VNum(z3.ToReal(v.term), "real")
    return v


def apply_contract(ex, info, fnode, args, kw, st, node):
    env = bind_params(ex, fnode, args, kw, st)
    return apply_contract_env(ex, info, env, st, node)


def apply_contract_env(ex, info, env, st, node):
    for p, srt in info.params.items():
        if p in env and not isinstance(env[p], VObj):
            env[p] = coerce(ex, env[p], srt, st)
    where = f"{ex.relpath}:{getattr(node, 'lineno', '?')}"
    cs = State(env, [], st.facts)
    guards = list(ex.guards)
    req = info.clause("requires")
    if req is not None and not ex.spec_mode:
        g = eval_clause(ex, info, req, cs, {})
        ex.ctx.oblige(st, g, f"pre@callsite[{info.qualname}]", where, guards)
    for exc, cl in info.clauses("raises_").items():
        cond = eval_clause(ex, info, cl, cs, {})
        cond = z3.simplify(cond)
        if z3.is_false(cond):
            continue
        ex.pending_exits.append((z3.And(*(guards + [cond])), exc, where))
    selfobj = env.get("self")
    old = {}
    if isinstance(selfobj, VObj):
        old["old_self"] = selfobj.copy()
    if isinstance(selfobj, VObj) and info.modifies:
        decl = info.params.get("self")
        decl = decl.fields if isinstance(decl, S.Obj) else {}
        for fld in info.modifies:
            cur = selfobj.fields.get(fld)
            if fld in decl:
                selfobj.fields[fld] = S.fresh(decl[fld], f"self.{fld}")
            elif cur is not None:
                if isinstance(cur, VPyList):
                    raise OutOfReach(f"callee modifies concrete list field {fld}")
                selfobj.fields[fld] = S.fresh(S.sort_of(cur), f"self.{fld}")
    rcl = info.clause("result")
    if rcl is not None:
        res = eval_clause_value(ex, info, rcl, cs, old)
        if isinstance(info.returns, S.Seq) and isinstance(res, VSeq) and res.kind != info.returns.kind:
            res = VSeq(res.term, res.elem, info.returns.kind)  # the declared container kind (tuple / list / ndarray2) of the result
    elif info.returns is None or info.returns is S.NoneS:
        res = NONE
    else:
        res = S.fresh(info.returns, f"{info.qualname}.result")
    ens = info.clause("ensures")
    if ens is not None:
        ghosts = {g: S.fresh(srt, "forall_" + g) for g, srt in getattr(info.cls, "forall", {}).items()}
        e = eval_clause(ex, info, ens, cs, dict(old, result=res, **ghosts))
        if ghosts:
            # universally quantified ghost parameters of the callee's postcondition
            bound = []
            for g in ghosts.values():
                bound.extend(flatten(ex, g, S.sort_of(g)))
            e = z3.ForAll(bound, e)
        st.assume(z3.Implies(z3.And(*guards), e) if guards else e)
    aens = info.clause("assumed_ensures")
    if aens is not None:
        # a clause of the callee's contract that its own proof does NOT establish (listed under `trusted`): assumed at call sites only
        e = eval_clause(ex, info, aens, cs, dict(old, result=res))
        st.assume(z3.Implies(z3.And(*guards), e) if guards else e)
    gl = getattr(info.cls, "ghost_log", None)
    if gl:
        ex.ctx.ghost_log.append((gl, where))
    return res


def apply_spec(ex, sp, args, st):
    """spec function application: uninterpreted symbol + (bounded-depth) unfolding of its definition"""
    args = [coerce(ex, a, s, st) for a, s in zip(args, sp.args)]
    if sp.is_lemma:
        return lemma_formula(ex, sp, args, st)
    if isinstance(sp.ret, S.Dict):
        # dict-valued (opaque) spec function: one symbol for the key set, one for the values
        if not sp.opaque:
            raise OutOfReach(f"spec {sp.name}: dict-valued spec functions must be opaque")
        if sp._z3fn is None:
            doms = []
            for s_ in sp.args:
                doms.extend(flat_sorts(s_))
            sp._z3fn = (z3.Function("spec_" + sp.name + "_keys", *doms, S.CSetS), z3.Function("spec_" + sp.name + "_vals", *doms, S.RMapS))
        terms = []
        for a, s_ in zip(args, sp.args):
            terms.extend(flatten(ex, a, s_))
        return VDict(sp._z3fn[0](*terms), sp._z3fn[1](*terms), sp.ret.val)
    if sp._z3fn is None:
        doms = []
        for s in sp.args:
            doms.extend(flat_sorts(s))
        sp._z3fn = z3.Function("spec_" + sp.name, *doms, _z3sort(sp.ret))
    terms = []
    for a, s in zip(args, sp.args):
        terms.extend(flatten(ex, a, s))
    app = sp._z3fn(*terms)
    res = S.wrap(sp.ret, app)
    seen = st.facts.unfolded
    key = app.get_id()
    opaque = sp.opaque and sp.name not in getattr(ex.ctx, "revealed", ())
    if not opaque and ex.unfold_depth < ex.max_unfold and key not in seen:
        seen.add(key)
        sub = Exec(ex.ctx, sp.file, contract=None, spec_mode=True)
        sub.unfold_depth = ex.unfold_depth + 1
        sub.max_unfold = ex.max_unfold
        sub.fn_stack = [(sp.node(), None)]
        sub.float_mode = ex.float_mode
        env = {n: a for n, a in zip(sp.argnames, args)}
        outs = sub.exec_block(sp.node().body, State(env, [], st.facts))
        for kind, s3, payload in outs:
            if kind != "return":
                raise OutOfReach(f"spec {sp.name} must return on all paths")
            body = ex.term_of(coerce(ex, payload, sp.ret, st), sp.ret) if not isinstance(payload, VBool) else payload.term
            cond = z3.And(*s3.pc) if s3.pc else z3.BoolVal(True)
            st.facts.append(z3.Implies(cond, app == body))
    return res


def lemma_formula(ex, sp, args, st, depth=None):
    sub = Exec(ex.ctx, sp.file, contract=None, spec_mode=True)
    sub.unfold_depth = 0
    sub.max_unfold = ex.max_unfold
    sub.fn_stack = [(sp.node(), None)]
    env = {n: a for n, a in zip(sp.argnames, args)}
    outs = sub.exec_block(sp.node().body, State(env, [], st.facts))
    res = None
    for kind, s3, payload in outs:
        if kind != "return":
            raise OutOfReach(f"lemma {sp.name} must return on all paths")
        t = z3.Implies(z3.And(*s3.pc), sub.truth(payload)) if s3.pc else sub.truth(payload)
        res = t if res is None else z3.And(res, t)
    return VBool(res)


def _z3sort(s):
    return s.z3()


def flat_sorts(s):
    if isinstance(s, S.Opt):
        return [z3.BoolSort()] + flat_sorts(s.inner)
    if isinstance(s, S.LDictSort):
        return [S.CSetS, S.LMapS]
    if isinstance(s, S.BDictSort):
        return [s.keyseq(), z3.SeqSort(z3.RealSort())]
    if isinstance(s, S.Dict):
        return [S.CSetS, S.RMapS]
    if isinstance(s, S.TBDict):
        return [z3.BoolSort(), S.CSetS, S.SeqCSet]
    if s is S.Fn:
        return [S.FnS]
    if isinstance(s, S.Tup):
        out = []
        for i in s.items:
            out.extend(flat_sorts(i))
        return out
    return [s.z3()]


def flatten(ex, v, s):
    if isinstance(s, S.Opt):
        if isinstance(v, VNone):
            v = VOpt(z3.BoolVal(True), S.fresh(s.inner, "none"))
        if not isinstance(v, VOpt):
            v = VOpt(z3.BoolVal(False), v)
        inner = flatten(ex, v.val, s.inner)
        # canonical payload under None so that equal optionals give equal applications
        dflt = flatten(ex, default_value(s.inner), s.inner)
        return [v.isnone] + [z3.If(v.isnone, d, t) if not z3.is_true(v.isnone) else d for t, d in zip(inner, dflt)] \
            if not z3.is_false(z3.simplify(v.isnone)) else [v.isnone] + inner
    if isinstance(s, S.LDictSort):
        return [v.keys, v.vals]
    if isinstance(s, S.BDictSort):
        return [v.keys, v.vals]
    if isinstance(s, S.Dict):
        if isinstance(v, VOpt):
            v = v.val
        return [v.keys, v.vals]
    if isinstance(s, S.TBDict):
        return [v.has, z3.If(v.has, v.key, S.EMPTY_SET), z3.If(v.has, v.val, z3.Empty(S.SeqCSet))]
    if s is S.Fn:
        return [v.term]
    if isinstance(s, S.Tup):
        out = []
        for it, si in zip(v.items, s.items):
            out.extend(flatten(ex, it, si))
        return out
    return [ex.term_of(v, s)]


def default_value(s):
    if s is S.Int:
        return mk_int(0)
    if s is S.Real or s is S.Float:
        return VNum(z3.RealVal(0), "real")
    if s is S.Bool:
        return VBool(False)
    if s is S.Str:
        return VStr(z3.Const("str_default", S.PyStr))
    if s is S.CSet:
        return VSet(S.EMPTY_SET)
    if isinstance(s, S.Seq):
        return VSeq(z3.Empty(s.z3()), s.elem, s.kind)
    if isinstance(s, S.Dict):
        return VDict(S.EMPTY_SET, z3.K(S.PyStr, z3.RealVal(0)), s.val)
    if s is S.Ballot:
        return VRec(z3.Const("ballot_default", S.BallotS), "Ballot")
    if s is S.Profile:
        return VRec(z3.Const("profile_default", S.ProfileS), "Profile")
    if isinstance(s, S.Tup):
        return VTup([default_value(i) for i in s.items])
    raise OutOfReach(f"default value of {s}")


# ---------------------------------------------------------------- methods on builtin values
def call_method(ex, base, attr, node, st):
    args, kw = eval_args(ex, node, st)
    if isinstance(base, VOpt):
        ex.need(st, z3.Not(base.isnone), "AttributeError", node, f"None.{attr}")
        base = base.val
    if isinstance(base, VNum) and attr == "limit_denominator":
        # A-LIB: closest fraction with a bounded denominator -- an uninterpreted rounding (identity is NOT assumed)
        from .builtins_model import limden
        from .core import to_real
        return VNum(limden(to_real(base)), "real")
    if isinstance(base, VRec) and base.cls in ("Profile", "Ballot"):
        rel, cname = ("pref_profile.py", "PreferenceProfile") if base.cls == "Profile" else ("ballot.py", "Ballot")
        info = ex.ctx.registry.lookup(rel, f"{cname}.{attr}")
        from .core import find_def
        fnode = find_def(rel, f"{cname}.{attr}")
        if info is None or fnode is None:
            raise OutOfReach(f"method {cname}.{attr} has no contract")
        return apply_contract(ex, info, fnode, [base] + args, kw, st, node)
    if isinstance(base, VLDict):
        if attr == "keys" and not args:
            return VSet(base.keys)
    if isinstance(base, VBDict) and attr == "keys" and not args:
        return base  # `k in d.keys()` is `k in d`
    if isinstance(base, VDict):
        if attr == "keys" and not args:
            return VSet(base.keys)
        if attr == "get" and len(args) == 2 and isinstance(args[0], VStr):
            d = args[1]
            return VNum(z3.If(base.keys[args[0].term], base.vals[args[0].term], to_real(d)), "real")
        if attr == "values" and not args:
            keys, e = ex.enum_of(st, base.keys)
            c = z3.Const(S.fresh_name("vals"), z3.SeqSort(z3.RealSort()))
            st.facts.append(z3.Length(c) == z3.Length(keys.term))
            v = VSeq(c, base.val, "list")
            v.values_of = (base, keys)
            return v
    if isinstance(base, VSet):
        if attr in ("difference", "union", "intersection") and len(args) == 1:
            o = args[0]
            if isinstance(o, (VSeq, VTup)):
                from .builtins_model import b_frozenset
                o = b_frozenset(ex, st, node, [o], {})
            if not isinstance(o, VSet):
                raise OutOfReach("set op with non-set")
            if attr == "difference":
                r = S.lam(lambda c: z3.And(base.term[c], z3.Not(o.term[c])), base.term, o.term)
            elif attr == "union":
                r = S.lam(lambda c: z3.Or(base.term[c], o.term[c]), base.term, o.term)
            else:
                r = S.lam(lambda c: z3.And(base.term[c], o.term[c]), base.term, o.term)
            ex.card_of(st, r)
            return VSet(r)
    if isinstance(base, VSeq):
        if attr == "index" and len(args) == 1:
            raise OutOfReach("list.index")
        if attr == "count":
            raise OutOfReach("list.count")
    raise OutOfReach(f"method .{attr} on {base!r}")


def mutate_method(ex, name_node, attr, node, st):
    """x.append(v) / x.pop(i) / x += ... on a local list variable; returns value of the call"""
    args, kw = eval_args(ex, node, st)
    cur = ex.eval(name_node, st)
    if isinstance(cur, VTup) and not cur.items and attr == "append":
        # empty list display of still unknown element sort
        v = args[0]
        new = ex.mk_tuple([v], "list")
        _store_back(ex, name_node, new, st)
        return NONE
    if isinstance(cur, VPyList):
        if attr == "append":
            new = VPyList(cur.items + [args[0]])
            _store_back(ex, name_node, new, st)
            return NONE
    if isinstance(cur, VTup) and attr == "append":
        _store_back(ex, name_node, VTup(cur.items + [args[0]]), st)
        return NONE
    if isinstance(cur, VSeq):
        if attr == "append" and cur.elem is S.StateRef and isinstance(args[0], VObj) and args[0].cls == "ElectionState":
            o = args[0]
            ref = z3.Const(S.fresh_name("state"), S.StateRefS)
            f = o.fields
            tb = f["tiebreaks"]
            if isinstance(tb, VTup) and not tb.items:
                tb = VTBDict(z3.BoolVal(False), S.EMPTY_SET, z3.Empty(S.SeqCSet))
            if not isinstance(tb, VTBDict):
                raise OutOfReach("ElectionState.tiebreaks of unsupported shape")
            sc = f["scores"]
            if isinstance(sc, VTBDict) and z3.is_false(z3.simplify(sc.has)):
                sc = VDict(S.EMPTY_SET, z3.K(S.PyStr, z3.RealVal(0)), S.Real)  # scores={} : the empty dict display
            st.facts.append(z3.And(S.st_round(ref) == f["round_number"].term, S.st_elected(ref) == ex.as_seq(f["elected"], S.CSet).term,
                                   S.st_eliminated(ref) == ex.as_seq(f["eliminated"], S.CSet).term,
                                   S.st_remaining(ref) == ex.as_seq(f["remaining"], S.CSet).term,
                                   S.st_skeys(ref) == sc.keys, S.st_svals(ref) == sc.vals,
                                   S.st_tb_has(ref) == tb.has, z3.Implies(tb.has, z3.And(S.st_tb_key(ref) == tb.key, S.st_tb_val(ref) == tb.val))))
            _store_back(ex, name_node, VSeq(z3.Concat(cur.term, z3.Unit(ref)), cur.elem, cur.kind), st)
            return NONE
        if attr == "append":
            t = z3.Concat(cur.term, z3.Unit(ex.term_of(args[0], cur.elem)))
            _store_back(ex, name_node, VSeq(t, cur.elem, cur.kind), st)
            return NONE
        if attr == "pop":
            L = z3.Length(cur.term)
            if not args or (is_concrete_int(args[0]) and concrete_int(args[0]) == -1):
                ex.need(st, L > 0, "IndexError", node, "pop from empty list")
                el = S.wrap(cur.elem, cur.term[L - 1])
                _store_back(ex, name_node, VSeq(z3.Extract(cur.term, z3.IntVal(0), L - 1), cur.elem, cur.kind), st)
                return el
        if attr == "extend":
            o = ex.as_seq(args[0], cur.elem)
            _store_back(ex, name_node, VSeq(z3.Concat(cur.term, o.term), cur.elem, cur.kind), st)
            return NONE
    raise OutOfReach(f"mutating method .{attr} on {cur!r}")


def _store_back(ex, name_node, v, st):
    if isinstance(name_node, ast.Name):
        st.env[name_node.id] = v
    elif isinstance(name_node, ast.Attribute):
        holder = ex.eval(name_node.value, st)
        if isinstance(holder, VObj):
            holder.fields[name_node.attr] = v
        else:
            raise OutOfReach("store back")
    else:
        raise OutOfReach("store back")


MUTATORS = ("append", "pop", "extend")


# ---------------------------------------------------------------- constructors
def construct(ex, fv, args, kw, st, node):
    name = fv.name
    if name == "Ballot":
        return mk_ballot(ex, args, kw, st, node)
    if name == "ElectionState":
        return mk_state(ex, args, kw, st, node)
    if name == "PreferenceProfile":
        info = ex.ctx.registry.contracts.get(("pref_profile.py", "PreferenceProfile.__init__"))
        if info is None:
            raise OutOfReach("PreferenceProfile(...) needs its constructor contract (A-PYD)")
        if args:
            raise OutOfReach("positional PreferenceProfile args")
        env = {"ballots": kw.get("ballots", VSeq(z3.Empty(S.SeqBallot), S.Ballot)),
               "candidates": kw.get("candidates", VSeq(z3.Empty(S.SeqStr), S.Str))}
        return apply_contract_env(ex, info, env, st, node)
    # a repository class whose constructor has an ASSUMED contract (listed as trusted): a fresh object with the declared fields,
    # constrained only by that contract's ensures; requires / raises are checked at the call site as for any callee
    info = ex.ctx.registry.contracts.get((fv.module, f"{name}.__init__"))
    decl = info.params.get("self") if info is not None else None
    if info is not None and info.opts.get("assumed") and isinstance(decl, S.Obj):
        init = next((m for m in fv.node.body if isinstance(m, ast.FunctionDef) and m.name == "__init__"), None)
        if init is None:
            raise OutOfReach(f"constructor {name}: no __init__ in the class body")
        obj = VObj(name, {f: S.fresh(srt, f"{name}.{f}") for f, srt in decl.fields.items()})
        env = bind_params(ex, init, [obj] + list(args), kw, st)
        apply_contract_env(ex, info, env, st, node)
        return obj
    raise OutOfReach(f"constructor {name}")


def mk_ballot(ex, args, kw, st, node):
    """Ballot(...) (A-PYD): field validators are applied as written in ballot.py --
    weight: Fraction(weight).limit_denominator() unless already a Fraction; scores: zeros dropped."""
    from .builtins_model import limden
    if args:
        raise OutOfReach("positional Ballot args")
    B = S.BallotS
    r = kw.get("ranking", NONE)
    if isinstance(r, VNone):
        rn, rt = z3.BoolVal(True), z3.Empty(S.SeqCSet)
    elif isinstance(r, VOpt):
        rn, rt = r.isnone, ex.as_seq(r.val, S.CSet).term
    else:
        rn, rt = z3.BoolVal(False), ex.as_seq(r, S.CSet).term
    w = kw.get("weight")
    if w is None:
        wt = z3.RealVal(1)
    elif isinstance(w, VNum):
        if w.kind == "real":
            wt = w.term
        elif w.kind == "int":
            wt = z3.ToReal(w.term)  # limit_denominator is the identity on integers
        else:
            wt = limden(w.term)
    else:
        raise OutOfReach("Ballot weight")
    sc = kw.get("scores", NONE)
    if isinstance(sc, VNone):
        sn, sk, sv = z3.BoolVal(True), S.EMPTY_SET, z3.K(S.PyStr, z3.RealVal(0))
    else:
        d = sc.val if isinstance(sc, VOpt) else sc
        if not isinstance(d, VDict):
            raise OutOfReach("Ballot scores")
        nk = S.lam(lambda c: z3.And(d.keys[c], d.vals[c] != 0), d.keys, d.vals)
        isn = (nk == S.EMPTY_SET)  # `if scores:` falsy -> None; all-zero dict -> {} stored (kept as is by pydantic)
        empty_in = d.keys == S.EMPTY_SET
        sn = z3.Or(sc.isnone, empty_in) if isinstance(sc, VOpt) else empty_in
        sk, sv = nk, d.vals
    idv = kw.get("id", NONE)
    vs = kw.get("voter_set", NONE)
    idt = idv.term if isinstance(idv, VOpaque) else S.ID_NONE
    vst = vs.term if isinstance(vs, VOpaque) else S.VS_NONE
    if not isinstance(idv, (VNone, VOpaque)) or not isinstance(vs, (VNone, VOpaque)):
        raise OutOfReach("Ballot id/voter_set from non-opaque value")
    return VRec(B.mkBallot(rn, rt, wt, sn, sk, sv, idt, vst), "Ballot")


def mk_state(ex, args, kw, st, node):
    fields = {
        "round_number": kw.get("round_number", mk_int(0)),
        "remaining": kw.get("remaining", None),
        "elected": kw.get("elected", None),
        "eliminated": kw.get("eliminated", None),
        "scores": kw.get("scores", None),
        "tiebreaks": kw.get("tiebreaks", None),
    }
    empty1 = VSeq(z3.Unit(S.EMPTY_SET), S.CSet)
    for k in ("remaining", "elected", "eliminated"):
        if fields[k] is None:
            fields[k] = empty1
        else:
            fields[k] = ex.as_seq(fields[k], S.CSet)
    if fields["scores"] is None:
        fields["scores"] = VDict(S.EMPTY_SET, z3.K(S.PyStr, z3.RealVal(0)))
    if fields["tiebreaks"] is None:
        fields["tiebreaks"] = VTup([])
    return VObj("ElectionState", fields)


# ---------------------------------------------------------------- statement-level calls (may inline)
def call_stmt(ex: Exec, node: ast.Call, st: State, target):
    """returns outcomes; on 'fall' the result is stored in st.env[target] when target is given"""
    f = node.func
    # mutators on locals / fields
    if isinstance(f, ast.Attribute) and f.attr == "append" and isinstance(f.value, ast.Subscript) and isinstance(f.value.value, ast.Name) \
            and isinstance(st.env.get(f.value.value.id), VLDict) and len(node.args) == 1:
        # d[k].append(b) on a dict of ballot lists: KeyError unless k is a key; the list stored under k grows by b
        d = st.env[f.value.value.id]
        k = ex.eval(f.value.slice, st)
        b = ex.eval(node.args[0], st)
        if not isinstance(k, VStr) or not (isinstance(b, VRec) and b.cls == "Ballot"):
            raise OutOfReach("append into a dict of lists: key / element sorts")
        ex.need(st, d.keys[k.term], "KeyError", node, "dict key")
        st.env[f.value.value.id] = VLDict(d.keys, z3.Store(d.vals, k.term, z3.Concat(d.vals[k.term], z3.Unit(b.term))))
        if target:
            st.env[target] = NONE
        return [("fall", st, None)]
    if isinstance(f, ast.Attribute) and f.attr in MUTATORS and isinstance(f.value, (ast.Name, ast.Attribute)):
        base = ex.eval(f.value, st)
        if isinstance(base, (VSeq, VTup, VPyList)):
            v = mutate_method(ex, f.value, f.attr, node, st)
            if target:
                st.env[target] = v
            return [("fall", st, None)]
    callee = None  # (relpath, qualname, node, selfobj)
    if isinstance(f, ast.Attribute) and isinstance(f.value, ast.Call) and isinstance(f.value.func, ast.Name) \
            and f.value.func.id == "super":
        selfobj = st.env.get("self")
        cur_cls = ex.fn_stack[-1][2] if len(ex.fn_stack[-1]) > 2 else None
        if not isinstance(selfobj, VObj) or cur_cls is None:
            raise OutOfReach("super() outside a method")
        m = ex.ctx.registry.resolve_method(selfobj.cls, f.attr, after=cur_cls)
        if m is None:
            raise OutOfReach(f"super().{f.attr} not found")
        callee = (m[0], m[1], m[2], selfobj)
    elif isinstance(f, ast.Attribute):
        try:
            base = ex.eval(f.value, st)
        except OutOfReach:
            base = None
        if isinstance(base, VObj):
            m = ex.ctx.registry.resolve_method(base.cls, f.attr)
            if m is not None:
                callee = (m[0], m[1], m[2], base)
    elif isinstance(f, ast.Name):
        fv = ex.eval(f, st)
        if isinstance(fv, VFunc) and isinstance(fv.node, ast.FunctionDef) and fv.impl is None:
            callee = (fv.module, fv.name, fv.node, fv.bound)
    if callee is not None:
        rel, qual, fnode, selfobj = callee
        info = ex.ctx.registry.lookup(rel, qual, selfobj.cls if isinstance(selfobj, VObj) else None)
        if selfobj is None and "." not in qual:
            try:
                a0, _ = eval_args(ex, node, st)
                info = ex.ctx.registry.lookup_fn(rel, qual, a0)
            except OutOfReach:
                pass
        if info is None or info.inline:
            return inline_call(ex, rel, qual, fnode, selfobj, info, node, st, target)
        args, kw = eval_args(ex, node, st)
        if selfobj is not None:
            args = [selfobj] + args
        v = apply_contract(ex, info, fnode, args, kw, st, node)
        if target:
            st.env[target] = v
        return [("fall", st, None)]
    v = do_call(ex, node, st)
    if target:
        st.env[target] = v
    return [("fall", st, None)]


def inline_call(ex, rel, qual, fnode, selfobj, info, node, st, target, depth_limit=6):
    if len(ex.fn_stack) > depth_limit:
        raise OutOfReach("inline depth")
    if any(fr[0] is fnode for fr in ex.fn_stack):
        raise OutOfReach(f"recursive inline of {qual}")
    args, kw = eval_args(ex, node, st)
    if selfobj is not None:
        args = [selfobj] + args
    env = bind_params(ex, fnode, args, kw, st)
    saved_env = st.env
    saved_rel = ex.relpath
    st.env = env
    cls = qual.split(".")[0] if "." in qual else None
    ex.fn_stack.append((fnode, info, cls))
    ex.relpath = rel
    outs = []
    try:
        for kind, s2, payload in ex.exec_block(fnode.body, st):
            # restore caller frame in each resulting state (objects are shared by reference: effects persist)
            callee_env = s2.env
            s2.env = _rebind(saved_env, callee_env, env)
            if kind in ("fall", "return"):
                if target:
                    s2.env[target] = payload if kind == "return" and payload is not None else NONE
                outs.append(("fall", s2, None))
            elif kind == "raise":
                outs.append(("raise", s2, payload))
            else:
                raise OutOfReach("break/continue escaping a function")
    finally:
        ex.fn_stack.pop()
        ex.relpath = saved_rel
    return outs


def _rebind(caller_env, callee_env, callee_entry_env):
    """caller frame for one outcome state: its objects are private copies, except that objects
    passed to the callee follow the callee's (possibly forked and mutated) copies"""
    from .core import _copy_obj
    memo = {}
    for pname, entry_obj in callee_entry_env.items():
        if isinstance(entry_obj, (VObj,)):
            cur = callee_env.get(pname)
            if cur is not None:
                memo[id(entry_obj)] = cur
    return {k: _copy_obj(v, memo) for k, v in caller_env.items()}

"""command-line driver used during development: verify selected contracts and print a table"""
import sys, importlib, time
sys.path.insert(0, "/verif")
from pyvc.api import REGISTRY
from pyvc.verify import verify_function
from pyvc.solve import discharge


def main(mods, only=None):
    for m in mods:
        importlib.import_module(m)
    tot = 0
    from pyvc.verify import lemma_obligations
    import os
    lf = os.environ.get("LEMMAS")
    for sp in REGISTRY.lemmas:
        if lf is not None and not (sp.name in lf.split(",") or (lf.endswith("*") and sp.fn.__module__.endswith(lf[:-1]))):
            continue
        obs = lemma_obligations(sp)
        discharge(obs)
        for o in obs:
            print(f"  lemma {o.name}: {o.status} {o.backend} {o.time:.2f}s")
    done = set()
    for key, info in REGISTRY.contracts.items():
        if id(info) in done:
            continue
        done.add(id(info))
        if only and info.qualname not in only:
            continue
        if info.opts.get("assumed"):
            print(f"[ASSUMED] {info.name}")
            continue
        r = verify_function(info)
        if r.out_of_reach:
            print(f"[OUT-OF-REACH] {info.name}: {r.out_of_reach}")
            continue
        discharge(r.obligations)
        bad = [o for o in r.obligations if o.status != "discharged" and not (o.kind == "cover" and "requires" not in o.name)]
        print(f"[{'OK' if not bad else 'FAIL'}] {info.name}: {len(r.obligations)} obligations, {r.paths} paths, gen {r.gen_time:.2f}s")
        for o in r.obligations:
            if o.status != "discharged" or "-v" in sys.argv:
                print(f"    {o.status:11s} {o.name} [{o.where}] {o.backend} {o.time:.2f}s nfacts={getattr(o,'nfacts',0)} {o.info or ''}")


if __name__ == "__main__":
    args = [a for a in sys.argv[1:] if not a.startswith("-")]
    mods = [a for a in args if a.startswith("contracts.")]
    only = [a for a in args if not a.startswith("contracts.")]
    main(mods, only or None)

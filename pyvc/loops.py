"""Loops: cut by the contract's invariants (unbounded), or unrolled when the iterable has a
concrete length."""
from __future__ import annotations
import ast
import z3
from . import sorts as S
from .sorts import VNum, VSeq, VSet, VDict, VTup, VOpt, VObj, VPyList, VStr, VFunc
from .core import OutOfReach, State, assigned_names, loops_of, mk_int, UNBOUND, MaybeUnbound, Raise


def iter_shape(ex, node: ast.For, st):
    """returns (VSeq or VTup of items, binder) where binder(st, k_term, elem) binds the targets"""
    it = node.iter
    tgt = node.target
    # enumerate(x)
    if isinstance(it, ast.Call) and isinstance(it.func, ast.Name) and it.func.id == "enumerate" and len(it.args) == 1:
        seq = ex.eval(it.args[0], st)
        seq = _iterable(ex, seq, st)
        if not (isinstance(tgt, ast.Tuple) and len(tgt.elts) == 2):
            raise OutOfReach("enumerate target")

        def bind(s2, k, el):
            ex.store(tgt.elts[0], VNum(k, "int") if not isinstance(k, int) else mk_int(k), s2)
            ex.store(tgt.elts[1], el, s2)
        return seq, bind
    if isinstance(it, ast.Call) and isinstance(it.func, ast.Name) and it.func.id == "range":
        args = [ex.eval(a, st) for a in it.args]
        if len(args) == 1:
            lo, hi = z3.IntVal(0), args[0].term
        elif len(args) == 2:
            lo, hi = args[0].term, args[1].term
        else:
            raise OutOfReach("range with step")
        n = z3.simplify(z3.If(hi - lo > 0, hi - lo, 0))
        return ("range", lo, n), (lambda s2, k, el: ex.store(tgt, el, s2))
    if isinstance(it, ast.Call) and isinstance(it.func, ast.Attribute) and it.func.attr in ("items", "values", "keys") and not it.args:
        d = ex.eval(it.func.value, st)
        if isinstance(d, VOpt):
            ex.need(st, z3.Not(d.isnone), "AttributeError", node, "None." + it.func.attr)
            d = d.val
        from .sorts import VBDict
        if isinstance(d, VBDict) and it.func.attr == "items":
            keys = VSeq(d.keys, {"ballot": S.Ballot, "strseq": S.Seq(S.Str), "rankseq": S.Seq(S.CSet)}[d.kelem])

            def bindb(s2, k, el):
                idx = k if not isinstance(k, int) else z3.IntVal(k)
                ex.store(tgt, VTup([el, VNum(d.vals[idx], "real")]), s2)
            return keys, bindb
        if not isinstance(d, VDict):
            raise OutOfReach("items() of non-dict")
        keys, e = ex.enum_of(st, d.keys)
        kind = it.func.attr
        vk = "real" if d.val is S.Real else ("int" if d.val is S.Int else "float")

        def bind(s2, k, el):
            s2.assume(d.keys[el.term]) if False else None
            if kind == "items":
                ex.store(tgt, VTup([el, VNum(d.vals[el.term], vk)]), s2)
            elif kind == "keys":
                ex.store(tgt, el, s2)
            else:
                ex.store(tgt, VNum(d.vals[el.term], vk), s2)
        keys.member_of = d.keys
        return keys, bind
    v = ex.eval(it, st)
    v = _iterable(ex, v, st)
    return v, (lambda s2, k, el: ex.store(tgt, el, s2))


def _iterable(ex, v, st):
    if isinstance(v, VOpt):
        # iterating None raises TypeError
        ex.need(st, z3.Not(v.isnone), "TypeError", None, "iteration over None")
        v = v.val
    if isinstance(v, VSet):
        seq, e = ex.enum_of(st, v.term)
        seq.member_of = v.term
        return seq
    if isinstance(v, VDict):
        seq, e = ex.enum_of(st, v.keys)
        seq.member_of = v.keys
        return seq
    if isinstance(v, (VSeq, VTup, VPyList)):
        return v
    raise OutOfReach(f"iteration over {v!r}")


def loop_ordinal(ex, node):
    fn = ex.fn_stack[-1][0]
    ls = loops_of(fn)
    for i, l in enumerate(ls):
        if l is node:
            return i
    raise OutOfReach("loop not found in function")


def loop_modified(ex, info, nodes):
    """what a loop may change: the names / self fields its statements assign, plus -- when a method is called on `self` inside the loop
    (body or test) -- every field of the function's own frame (`modifies`): the callee's contract may replace those fields, and a loop
    summary that kept their pre-loop values would be unsound"""
    mod = assigned_names(nodes)
    frame = tuple(getattr(info, "modifies", ()) or ()) if info is not None else ()
    if frame:
        for top in nodes:
            for n in ast.walk(top):
                if isinstance(n, ast.Call) and isinstance(n.func, ast.Attribute) and isinstance(n.func.value, ast.Name) and n.func.value.id == "self":
                    mod |= {f"self.{f}" for f in frame}
                    return mod
    return mod


def havoc(ex, st: State, names):
    for n in names:
        if "." in n:
            base, fld = n.split(".", 1)
            obj = st.env.get(base)
            if isinstance(obj, VObj) and fld in obj.fields:
                cur = obj.fields[fld]
                if isinstance(cur, VPyList):
                    raise OutOfReach(f"loop modifies concrete list {n}")
                obj.fields[fld] = S.fresh(S.sort_of(cur), n)
            continue
        cur = st.env.get(n)
        if cur is None or cur is UNBOUND:
            # first assigned inside the loop: unbound before, possibly bound after
            st.env[n] = UNBOUND
            continue
        if isinstance(cur, MaybeUnbound):
            cur = cur.val
        if isinstance(cur, (VFunc,)):
            continue
        if isinstance(cur, VPyList):
            raise OutOfReach(f"loop modifies concrete list {n}")
        ls = ex.local_sort(n)
        nv = S.fresh(ls if ls is not None else S.sort_of(cur), n)
        if isinstance(cur, VSeq):
            nv.kind = cur.kind
        st.env[n] = nv


def eval_clause(ex, info, clause_node: ast.FunctionDef, st: State, extra: dict):
    """evaluate a contract clause (spec mode) with its parameters bound from the state"""
    from .core import Exec
    env = {}
    for a in clause_node.args.args:
        nm = a.arg
        if nm in extra:
            env[nm] = extra[nm]
        elif nm in st.env:
            v = st.env[nm]
            if v is UNBOUND:
                raise OutOfReach(f"clause {clause_node.name} reads unbound {nm}")
            if isinstance(v, MaybeUnbound):
                v = v.val
            env[nm] = v
        elif nm.startswith("self_") and isinstance(st.env.get("self"), VObj):
            env[nm] = st.env["self"].fields[nm[5:]]
        else:
            raise OutOfReach(f"clause {clause_node.name}: no value for parameter {nm}")
    sub = Exec(ex.ctx, info.file, contract=None, spec_mode=True)
    sub.fn_stack = [(clause_node, None)]
    sub.float_mode = ex.float_mode
    sub.max_unfold = ex.max_unfold
    sub.fallback_relpath = info.relpath
    n0 = len(st.pc)
    s2 = State(env, list(st.pc), st.facts)
    outs = sub.exec_block(clause_node.body, s2)
    res = None
    for kind, s3, payload in outs:
        if kind != "return":
            raise OutOfReach(f"clause {clause_node.name} did not return on a path")
        t = sub.truth(payload)
        cond = z3.And(*s3.pc[n0:]) if s3.pc[n0:] else z3.BoolVal(True)
        res = z3.And(cond, t) if res is None else z3.Or(res, z3.And(cond, t))
    return res if res is not None else z3.BoolVal(True)


def eval_clause_value(ex, info, clause_node, st, extra):
    """evaluate a clause that returns a value (decreases / result expression); single path"""
    from .core import Exec
    env = {}
    for a in clause_node.args.args:
        nm = a.arg
        if nm in extra:
            env[nm] = extra[nm]
        elif nm in st.env:
            env[nm] = st.env[nm]
        else:
            raise OutOfReach(f"clause {clause_node.name}: no value for parameter {nm}")
    sub = Exec(ex.ctx, info.file, contract=None, spec_mode=True)
    sub.fn_stack = [(clause_node, None)]
    sub.fallback_relpath = info.relpath
    s2 = State(env, list(st.pc), st.facts)
    outs = sub.exec_block(clause_node.body, s2)
    if len(outs) != 1 or outs[0][0] != "return":
        raise OutOfReach(f"clause {clause_node.name} must be a single return")
    return outs[0][2]


def accumulate_pattern(ex, node: ast.For, st: State):
    """`for v in S: [if COND:] X.append(E)` with X an empty list: by definition the list comprehension
    `X = [E for v in S if COND]` (a semantics-preserving reading of the loop, no contract involved)"""
    if node.orelse or len(node.body) != 1 or not isinstance(node.target, ast.Name):
        return None
    b = node.body[0]
    cond = None
    if isinstance(b, ast.If) and not b.orelse and len(b.body) == 1:
        cond, b = b.test, b.body[0]
    if not (isinstance(b, ast.Expr) and isinstance(b.value, ast.Call) and isinstance(b.value.func, ast.Attribute)
            and b.value.func.attr == "append" and isinstance(b.value.func.value, ast.Name) and len(b.value.args) == 1):
        return None
    acc = b.value.func.value.id
    cur = st.env.get(acc)
    if not (isinstance(cur, VTup) and not cur.items):
        return None
    names_used = {n.id for n in ast.walk(b.value.args[0]) if isinstance(n, ast.Name)} | ({n.id for n in ast.walk(cond) if isinstance(n, ast.Name)} if cond else set())
    if acc in names_used:
        return None
    comp = ast.ListComp(elt=b.value.args[0], generators=[ast.comprehension(target=node.target, iter=node.iter, ifs=[cond] if cond else [], is_async=0)])
    ast.copy_location(comp, node)
    ast.fix_missing_locations(comp)
    from .comps import do_comp
    v = do_comp(ex, comp, st, "list")
    st.env[acc] = v
    return [("fall", st, None)]


def pointwise_pattern(ex, node: ast.For, st: State):
    """`for c in S: D[c] += E` (or `for c, v in M.items(): D[c] += E`) with S a set / M a dict, D a str-keyed dict and E not
    reading D: the iteration visits every element of S exactly once (S-SET) and each visit touches only D[c], so the loop is
    the pointwise update  D[x] := D[x] + E(x) for x in S  (a semantics-preserving reading of the loop, no contract involved);
    it raises KeyError unless S is contained in D's keys.  E must be free of partial operations."""
    from .sorts import VDict
    if node.orelse or len(node.body) != 1 or not isinstance(node.body[0], ast.AugAssign):
        return None
    b = node.body[0]
    if not (isinstance(b.op, ast.Add) and isinstance(b.target, ast.Subscript) and isinstance(b.target.value, ast.Name)
            and isinstance(b.target.slice, ast.Name)):
        return None
    dname, cname = b.target.value.id, b.target.slice.id
    tgt, it = node.target, node.iter
    items_of = None
    if isinstance(tgt, ast.Name) and tgt.id == cname:
        src = ex.eval(it, st)
        vname = None
    elif (isinstance(tgt, ast.Tuple) and len(tgt.elts) == 2 and all(isinstance(e, ast.Name) for e in tgt.elts) and tgt.elts[0].id == cname
          and isinstance(it, ast.Call) and isinstance(it.func, ast.Attribute) and it.func.attr == "items" and not it.args):
        src = ex.eval(it.func.value, st)
        vname = tgt.elts[1].id
        items_of = True
    else:
        return None
    D = st.env.get(dname)
    if not isinstance(D, VDict):
        return None
    if isinstance(src, VOpt):
        if not isinstance(src.val, (VDict, VSet)):
            return None
        ex.need(st, z3.Not(src.isnone), "AttributeError" if items_of else "TypeError", node, "iteration over None")
        src = src.val
    if isinstance(src, VSet) and not items_of:
        members = src.term
    elif isinstance(src, VDict):
        members = src.keys
    else:
        return None
    if dname in {n.id for n in ast.walk(b.value) if isinstance(n, ast.Name)}:
        return None
    n_ob, n_facts = len(ex.ctx.obligations), len(st.facts)

    def body(c):
        s2 = st.fork()
        s2.env[cname] = VStr(c)
        if vname is not None:
            vk = "real" if src.val is S.Real else ("int" if src.val is S.Int else "float")
            s2.env[vname] = VNum(src.vals[c], vk)
        e = ex.eval(b.value, s2)
        if not isinstance(e, VNum):
            raise OutOfReach("pointwise update with a non-numeric increment")
        if len(s2.pc) != len(st.pc) or len(s2.facts) != n_facts:
            raise OutOfReach("pointwise update whose increment branches or needs facts")
        from .core import to_real
        return z3.If(members[c], D.vals[c] + to_real(e), D.vals[c])
    nv = S.lam(body, members, D.vals)
    if len(ex.ctx.obligations) != n_ob or len(st.facts) != n_facts:
        raise OutOfReach("pointwise update whose increment has partial operations or needs facts")
    inside = S.lam(lambda c: z3.And(members[c], z3.Not(D.keys[c])), members, D.keys) == S.EMPTY_SET
    ex.need(st, inside, "KeyError", node, "dict key in pointwise update")
    st.env[dname] = VDict(D.keys, nv, D.val)
    # loop targets are bound after the loop iff it ran; nothing under contract reads them afterwards
    return [("fall", st, None)]


def do_for(ex, node: ast.For, st: State):
    r = accumulate_pattern(ex, node, st)
    if r is not None:
        return r
    r = pointwise_pattern(ex, node, st)
    if r is not None:
        return r
    seq, bind = iter_shape(ex, node, st)
    early = ex.flush_exits(st)
    if early:
        return early + _do_for_rest(ex, node, st, seq, bind)
    return _do_for_rest(ex, node, st, seq, bind)


def _do_for_rest(ex, node, st, seq, bind):
    if isinstance(seq, (VTup, VPyList)):
        return unroll(ex, node, st, seq.items, bind)
    if isinstance(seq, tuple) and seq[0] == "range":
        _, lo, n = seq
        if z3.is_int_value(n) and n.as_long() <= 8:
            items = [VNum(z3.simplify(lo + i), "int") for i in range(n.as_long())]
            return unroll(ex, node, st, items, bind)
        L = n
        elem = lambda k: VNum(lo + k, "int")
        itval = None
    else:
        L = z3.Length(seq.term)
        simp = z3.simplify(L)
        if z3.is_int_value(simp) and simp.as_long() <= 6:
            items = [S.wrap(seq.elem, z3.simplify(seq.term[i])) for i in range(simp.as_long())]
            return unroll(ex, node, st, items, bind)
        elem = lambda k: S.wrap(seq.elem, seq.term[k])
        itval = seq
    fn, info = ex.fn_stack[-1][:2]
    k_ord = loop_ordinal(ex, node)
    inv = info.clause(f"invariant_{k_ord}") if info else None
    if inv is None:
        raise OutOfReach(f"loop #{k_ord} at line {node.lineno} has no invariant and no concrete bound")
    where = f"{ex.relpath}:{node.lineno}"
    extra0 = {"_k": mk_int(0), "_n": VNum(L, "int")}
    if itval is not None:
        extra0["_it"] = itval
    # 1. invariant holds on entry
    g = eval_clause(ex, info, inv, st, extra0)
    ex.ctx.oblige(st, g, f"inv-init[{k_ord}]", where)
    mod = loop_modified(ex, info, node.body) | assigned_names([node.target])
    outs = []
    # 2. arbitrary iteration
    sh = st.fork()
    havoc(ex, sh, mod)
    k = z3.Int(S.fresh_name("k"))
    sh.assume(z3.And(k >= 0, k < L))
    ext = dict(extra0)
    ext["_k"] = VNum(k, "int")
    sh.assume(eval_clause(ex, info, inv, sh, ext))
    el = elem(k)
    if itval is not None and getattr(itval, "member_of", None) is not None:
        sh.assume(itval.member_of[el.term])
    if isinstance(el, VSet):
        ex.card_of(sh, el.term)
    bind(sh, k, el)
    sh.env["_k"] = VNum(k, "int")  # ghost: iterations completed (visible to hint clauses)
    sh.env[f"_k{k_ord}"] = VNum(k, "int")  # ... and, by loop ordinal, to the clauses of nested loops
    for nme in mod:  # ghost: values at the head of the iteration (visible to hint clauses)
        if nme in sh.env and sh.env[nme] is not UNBOUND:
            sh.env["_pre_" + nme] = sh.env[nme]
    from .verify import apply_hint
    apply_hint(ex, info, f"hint_body_{k_ord}", sh)  # lemma instances needed by obligations inside the body
    for kind, s2, payload in ex.exec_block(node.body, sh):
        if kind in ("fall", "continue"):
            e2 = dict(ext)
            e2["_k"] = VNum(k + 1, "int")
            g2 = eval_clause(ex, info, inv, s2, e2)
            from .verify import apply_hint
            for sfx in sorted(info.clauses(f"hint_inv_{k_ord}")):
                if sfx == "" or sfx[0].isalpha():  # hint_inv_<k>, hint_inv_<k>a, hint_inv_<k>b, ... (each skipped where its locals do not exist)
                    apply_hint(ex, info, f"hint_inv_{k_ord}{sfx}", s2)
            ex.ctx.oblige(s2, g2, f"inv-preserved[{k_ord}]", where)
        elif kind == "break":
            outs.append(("fall", s2, None))
        else:
            outs.append((kind, s2, payload))
    # 3. after the loop
    se = st
    havoc(ex, se, mod)
    e3 = dict(extra0)
    e3["_k"] = VNum(L, "int")
    se.assume(L >= 0)
    se.assume(eval_clause(ex, info, inv, se, e3))
    # loop-local names may or may not be bound after the loop (bound iff at least one iteration ran)
    for nme in mod:
        if se.env.get(nme) is UNBOUND:
            del se.env[nme]
    if node.orelse:
        outs.extend(ex.exec_block(node.orelse, se))
    else:
        outs.append(("fall", se, None))
    return outs


def unroll(ex, node, st, items, bind):
    live = [st]
    outs = []
    for i, el in enumerate(items):
        nxt = []
        for cur in live:
            bind(cur, i, el)
            for kind, s2, payload in ex.exec_block(node.body, cur):
                if kind in ("fall", "continue"):
                    nxt.append(s2)
                elif kind == "break":
                    outs.append(("fall", s2, None))
                else:
                    outs.append((kind, s2, payload))
        live = nxt
    for cur in live:
        if node.orelse:
            outs.extend(ex.exec_block(node.orelse, cur))
        else:
            outs.append(("fall", cur, None))
    return outs


def do_while(ex, node: ast.While, st: State):
    fn, info = ex.fn_stack[-1][:2]
    k_ord = loop_ordinal(ex, node)
    inv = info.clause(f"invariant_{k_ord}") if info else None
    if inv is None:
        raise OutOfReach(f"while loop #{k_ord} at line {node.lineno} has no invariant")
    dec = info.clause(f"decreases_{k_ord}")
    where = f"{ex.relpath}:{node.lineno}"
    ex.ctx.oblige(st, eval_clause(ex, info, inv, st, {}), f"inv-init[{k_ord}]", where)
    mod = loop_modified(ex, info, node.body + [node.test])
    outs = []
    sh = st.fork()
    havoc(ex, sh, mod)
    sh.assume(eval_clause(ex, info, inv, sh, {}))
    c = ex.truth(ex.eval(node.test, sh))
    sh.assume(c)
    v0 = None
    if dec is not None:
        v0 = eval_clause_value(ex, info, dec, sh, {})
        ex.ctx.oblige(sh, v0.term >= 0, f"variant-bounded[{k_ord}]", where)
    if ex.feasible(sh):
        from .verify import apply_hint
        apply_hint(ex, info, f"hint_body_{k_ord}", sh)
        for kind, s2, payload in ex.exec_block(node.body, sh):
            if kind in ("fall", "continue"):
                for sfx in sorted(info.clauses(f"hint_inv_{k_ord}")):
                    if sfx == "" or sfx[0].isalpha():
                        apply_hint(ex, info, f"hint_inv_{k_ord}{sfx}", s2)
                ex.ctx.oblige(s2, eval_clause(ex, info, inv, s2, {}), f"inv-preserved[{k_ord}]", where)
                if dec is not None:
                    v1 = eval_clause_value(ex, info, dec, s2, {})
                    ex.ctx.oblige(s2, v1.term < v0.term, f"variant-decreases[{k_ord}]", where)
            elif kind == "break":
                outs.append(("fall", s2, None))
            else:
                outs.append((kind, s2, payload))
    se = st
    havoc(ex, se, mod)
    se.assume(eval_clause(ex, info, inv, se, {}))
    se.assume(z3.Not(ex.truth(ex.eval(node.test, se))))
    for nme in mod:
        if se.env.get(nme) is UNBOUND:
            del se.env[nme]
    outs.append(("fall", se, None))
    return outs

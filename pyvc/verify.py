"""Driver: generate all obligations of one function under contract."""
from __future__ import annotations
import ast
import time
import z3
from . import sorts as S
from .sorts import VObj, VNone, NONE
from .core import Ctx, Exec, State, OutOfReach, find_def, Obligation, _copy_obj
from .loops import eval_clause
from . import comps as _comps  # registers any/all/tuple models  # noqa
from .api import REGISTRY, ContractInfo


class FunctionResult:
    def __init__(self, info):
        self.info = info
        self.obligations: list[Obligation] = []
        self.out_of_reach = None
        self.paths = 0
        self.gen_time = 0.0
        self.ghost_log = []
        self.source_hash = None
        self.entry_env = {}
        self.rng_used = False


def apply_hint(ex, info, name, st):
    """assume the lemma instances named by a hint clause; the clause may only call lemmas"""
    cl = info.clause(name)
    if cl is None:
        return
    check_hint_shape(cl)
    try:
        f_ = eval_clause(ex, info, cl, st, {})
        import os
        if os.environ.get("PYVC_DEBUG_HINTS"):
            print(f"[hint {name}: {str(f_)[:300]}]")
        st.assume(f_)
    except OutOfReach as e:
        if "no value for parameter" in str(e) or "unbound" in str(e):
            import os
            if os.environ.get("PYVC_DEBUG_HINTS"):
                print(f"[hint {name} skipped: {e}]")
            return  # the hint's locals do not exist on this path
        raise


def frame_obligations(ex, ctx, info, olds, s2, where):
    """frame (`modifies`, default: nothing): every field of `self` that the contract does not list is, on this exit path, equal to its
    value at entry.  Call sites rely on this (they keep the caller's knowledge of all unlisted fields), so it is an obligation here."""
    new, old = s2.env.get("self"), olds.get("old_self")
    if not isinstance(new, VObj) or not isinstance(old, VObj):
        return
    if info.qualname.endswith(".__init__"):
        return  # a constructor's object is fresh: no caller holds knowledge about its fields
    mod = set(info.modifies or ())
    for f in sorted(set(old.fields) | set(new.fields)):
        if f in mod:
            continue
        ov, nv = old.fields.get(f), new.fields.get(f)
        if ov is None or nv is None:
            ctx.oblige(s2, z3.BoolVal(False), f"frame[self.{f} created or deleted]", where)
            continue
        if nv is ov:
            continue
        try:
            e = z3.simplify(ex.eq(ov, nv))
        except OutOfReach:
            tn, to = getattr(nv, "term", None), getattr(ov, "term", None)
            if tn is not None and to is not None and tn.eq(to):
                continue
            raise OutOfReach(f"frame: field {f} cannot be compared with its entry value")
        if z3.is_true(e):
            continue
        ctx.oblige(s2, e, f"frame[self.{f} unchanged]", where)


def check_hint_shape(cl):
    """soundness: a hint is `return L(..) and L(..) ...` with every conjunct a registered lemma call"""
    if len(cl.body) != 1 or not isinstance(cl.body[0], ast.Return):
        raise OutOfReach(f"hint {cl.name}: must be a single return")
    e = cl.body[0].value
    parts = e.values if isinstance(e, ast.BoolOp) and isinstance(e.op, ast.And) else [e]
    for p in parts:
        ok = isinstance(p, ast.Call) and isinstance(p.func, ast.Name) and p.func.id in REGISTRY.specs \
            and REGISTRY.specs[p.func.id].is_lemma
        if not ok:
            raise OutOfReach(f"hint {cl.name}: conjunct is not a lemma application")


def lemma_hint(ex, sp, args, st):
    """@lemma(..., hint=lambda <args>: L1(..) and L2(..)): instances of lemmas registered EARLIER
    (acyclic), assumed while proving this lemma"""
    from .calls import lemma_formula
    node = sp.node()
    lam = None
    for d in node.decorator_list:
        if isinstance(d, ast.Call):
            for k in d.keywords:
                if k.arg == "hint" and isinstance(k.value, ast.Lambda):
                    lam = k.value
    if lam is None:
        return []
    e = lam.body
    parts = e.values if isinstance(e, ast.BoolOp) and isinstance(e.op, ast.And) else [e]
    earlier = [l.name for l in REGISTRY.lemmas[: REGISTRY.lemmas.index(sp)]]
    for p in parts:
        if not (isinstance(p, ast.Call) and isinstance(p.func, ast.Name) and p.func.id in earlier):
            raise OutOfReach(f"lemma {sp.name}: hint conjunct is not an earlier lemma")
    env = {a.arg: v for a, v in zip(lam.args.args, [args[sp.argnames.index(a.arg)] for a in lam.args.args])}
    sub = Exec(ex.ctx, sp.file, contract=None, spec_mode=True)
    sub.fn_stack = [(node, None)]
    v = sub.eval(e, State(env, [], st.facts))
    return [sub.truth(v)]


def lemma_obligations(sp):
    """proof obligations of one lemma (plain validity, or base + step of an induction)"""
    from .calls import lemma_formula
    ctx = Ctx(f"lemma:{sp.name}", REGISTRY)
    ex = Exec(ctx, sp.file, contract=None, spec_mode=True)
    ex.max_unfold = getattr(sp, "unfold", 2)
    ex.fn_stack = [(sp.node(), None)]
    ctx.revealed = set(getattr(sp, "reveal", ()))
    from .core import Facts
    facts = Facts()
    st = State({}, [], facts)
    args = [S.fresh(srt, n) for n, srt in zip(sp.argnames, sp.args)]
    F = lemma_formula(ex, sp, args, st).term
    obs = []
    H = lemma_hint(ex, sp, args, st)
    if sp.induct is None:
        ob = Obligation(f"lemma:{sp.name}/valid", "lemma", H, F, sp.file)
        ob.facts = facts
        obs.append(ob)
    else:
        i = sp.argnames.index(sp.induct)
        n = args[i].term
        ob = Obligation(f"lemma:{sp.name}/base", "lemma", [n <= 0] + H, F, sp.file)
        ob.facts = facts
        obs.append(ob)
        from .sorts import VNum
        args2 = list(args)
        args2[i] = VNum(n - 1, "int")
        IH = lemma_formula(ex, sp, args2, st).term
        ob = Obligation(f"lemma:{sp.name}/step", "lemma", [n > 0, IH] + H, F, sp.file)
        ob.facts = facts
        obs.append(ob)
    return obs


MUTATING_METHODS = ("append", "extend", "pop", "insert", "remove", "clear", "sort", "reverse", "update", "add", "discard", "setdefault", "popitem")


def effect_scan(relpath, cls, fnode, guard_name, registry, seen=None):
    """stores to fields of `self` (assignment, augmented assignment, subscript store, mutating method call on a field,
    setattr) that are NOT inside an `if <guard_name>:` block; followed transitively through self.<method>(...) calls
    (methods resolved along the class's MRO).  Returns [(relpath, lineno, description)]."""
    seen = seen if seen is not None else set()
    key = (relpath, fnode.name, fnode.lineno)
    if key in seen:
        return []
    seen.add(key)
    found = []

    def visit(stmts, guarded):
        for st_ in stmts:
            if isinstance(st_, ast.If) and isinstance(st_.test, ast.Name) and st_.test.id == guard_name:
                visit(st_.body, True)
                visit(st_.orelse, guarded)
                continue
            if isinstance(st_, (ast.FunctionDef, ast.ClassDef)):
                continue
            for n in ast.walk(st_) if not isinstance(st_, (ast.If, ast.For, ast.While, ast.With, ast.Try)) else [st_]:
                pass
            # compound statements: recurse into blocks, examine headers
            if isinstance(st_, (ast.If, ast.For, ast.While, ast.With, ast.Try)):
                headers = []
                if isinstance(st_, ast.If):
                    headers = [st_.test]
                elif isinstance(st_, ast.For):
                    headers = [st_.iter, st_.target]
                elif isinstance(st_, ast.While):
                    headers = [st_.test]
                for h in headers:
                    examine(h, guarded)
                for blk in ("body", "orelse", "finalbody"):
                    visit(getattr(st_, blk, []) or [], guarded)
                for hnd in getattr(st_, "handlers", []) or []:
                    visit(hnd.body, guarded)
            else:
                examine(st_, guarded)

    def is_self_field(n):
        while isinstance(n, ast.Subscript):
            n = n.value
        return isinstance(n, ast.Attribute) and isinstance(n.value, ast.Name) and n.value.id == "self"

    def examine(node, guarded):
        for n in ast.walk(node):
            if isinstance(n, (ast.Assign, ast.AugAssign, ast.AnnAssign)):
                tgts = n.targets if isinstance(n, ast.Assign) else [n.target]
                for t in tgts:
                    for tt in ast.walk(t):
                        if isinstance(tt, (ast.Attribute, ast.Subscript)) and isinstance(getattr(tt, "ctx", None), ast.Store) and is_self_field(tt):
                            if not guarded:
                                found.append((relpath, n.lineno, "store to " + ast.unparse(tt)))
            elif isinstance(n, ast.Call):
                f = n.func
                if isinstance(f, ast.Attribute) and f.attr in MUTATING_METHODS and is_self_field(f.value):
                    if not guarded:
                        found.append((relpath, n.lineno, "mutating call " + ast.unparse(f)))
                if isinstance(f, ast.Name) and f.id in ("setattr", "delattr"):
                    if not guarded:
                        found.append((relpath, n.lineno, ast.unparse(n)[:60]))
                if isinstance(f, ast.Attribute) and isinstance(f.value, ast.Name) and f.value.id == "self" and cls and not guarded:
                    m = registry.resolve_method(cls, f.attr)
                    if m is not None:
                        # a nested call passes its own store_states argument; the default (False) applies when omitted
                        found.extend(effect_scan(m[0], cls, m[2], guard_name, registry, seen))
    visit(fnode.body, False)
    return found


def verify_function(info: ContractInfo) -> FunctionResult:
    """symbolically execute the real function body and collect obligations"""
    import hashlib
    res = FunctionResult(info)
    t0 = time.time()
    fnode = find_def(info.relpath, info.qualname)
    if fnode is None:
        res.out_of_reach = f"function {info.qualname} not found in {info.relpath} (contract names code that no longer exists)"
        return res
    res.source_hash = hashlib.sha256(ast.dump(fnode).encode()).hexdigest()[:16]
    ctx = Ctx(f"{info.relpath}:{info.qualname}", REGISTRY)
    ctx.rng_used = False
    ctx.revealed = set(info.opts.get("reveal", ()))  # opaque spec functions whose definition this proof may unfold
    ex = Exec(ctx, info.relpath, contract=info)
    ex.max_unfold = int(info.opts.get("unfold", 2))
    cls = info.qualname.split(".")[0] if "." in info.qualname else None
    ex.fn_stack = [(fnode, info, cls)]
    from .core import Facts
    facts = Facts()
    st = State({}, [], facts)
    try:
        pure_guard0 = getattr(info.cls, "pure_unless", None)
        if pure_guard0 is not None and getattr(info.cls, "frame_only", False):
            hits = effect_scan(info.relpath, cls, fnode, pure_guard0, REGISTRY)
            ob = Obligation(f"{ctx.fname}/frame[modifies nothing unless {pure_guard0}]", "frame", [], z3.BoolVal(not hits),
                            f"{info.relpath}:{fnode.lineno}", {"stores_outside_guard": [f"{r}:{l}: {d}" for r, l, d in hits]})
            ob.facts = facts
            res.obligations = [ob]
            res.paths = 1
            res.gen_time = time.time() - t0
            return res
        names = [a.arg for a in fnode.args.args]
        defaults = fnode.args.defaults
        for n in names:
            if n not in info.params:
                raise OutOfReach(f"contract gives no sort for parameter {n}")
            st.env[n] = S.fresh(info.params[n], n)
        for g, srt in getattr(info.cls, "forall", {}).items():
            # universally quantified ghost parameter: proved for an arbitrary (fresh) value
            st.env[g] = S.fresh(srt, "forall_" + g)
        # old_ copies
        memo = {}
        olds = {f"old_{n}": _copy_obj(v, memo) for n, v in st.env.items()}
        req = info.clause("requires")
        if req is not None:
            st.assume(eval_clause(ex, info, req, st, {}))
        for cls_txt in getattr(info, "excluded_classes", []):
            # recorded known finding: the obligation set is re-proved under the negation of its input class
            node = ast.parse(f"def _kf({', '.join(names)}):\n    return {cls_txt}\n").body[0]
            st.assume(z3.Not(eval_clause(ex, info, node, st, {})))
        entry = State(dict(st.env), list(st.pc), facts)
        res.entry_env = dict(st.env)
        # anti-vacuity: precondition satisfiable
        ob = Obligation(f"{ctx.fname}/cover-requires", "cover", list(st.pc), z3.BoolVal(True), info.relpath)
        ob.facts = facts
        ctx.obligations.append(ob)
        only = getattr(info.cls, "class_defines_only", None)
        if only is not None and cls is not None:
            # frame obligation on the class body: an alias class may define nothing but the listed members
            cnode = find_def(info.relpath, cls)
            extra_members = [n.name if hasattr(n, "name") else ast.dump(n)[:40] for n in cnode.body
                             if not (isinstance(n, ast.Expr) and isinstance(n.value, ast.Constant))
                             and not (isinstance(n, ast.FunctionDef) and n.name in only)]
            ob = Obligation(f"{ctx.fname}/frame[class defines only {sorted(only)}]", "frame", [], z3.BoolVal(not extra_members),
                            f"{info.relpath}:{cnode.lineno}", {"extra_members": extra_members})
            ob.facts = facts
            ctx.obligations.append(ob)
        for kwname, want in (getattr(info.cls, "call_keyword_source", None) or {}).items():
            # structural obligation: the (unique) call in the body passes exactly this expression for the keyword
            got = [ast.unparse(k.value) for c in ast.walk(fnode) if isinstance(c, ast.Call) for k in c.keywords if k.arg == kwname]
            norm = ast.unparse(ast.parse(want, mode="eval").body)
            ob = Obligation(f"{ctx.fname}/frame[keyword {kwname} is `{norm}`]", "frame", [], z3.BoolVal(got == [norm]),
                            f"{info.relpath}:{fnode.lineno}", {"found": got})
            ob.facts = facts
            ctx.obligations.append(ob)
        pure_guard = getattr(info.cls, "pure_unless", None)
        if pure_guard is not None:
            hits = effect_scan(info.relpath, cls, fnode, pure_guard, REGISTRY)
            ob = Obligation(f"{ctx.fname}/frame[modifies nothing unless {pure_guard}]", "frame", [], z3.BoolVal(not hits),
                            f"{info.relpath}:{fnode.lineno}", {"stores_outside_guard": [f"{r}:{l}: {d}" for r, l, d in hits]})
            ob.facts = facts
            ctx.obligations.append(ob)
            if getattr(info.cls, "frame_only", False):
                res.obligations = ctx.obligations
                res.paths = 1
                res.gen_time = time.time() - t0
                return res
        outs = ex.exec_block(fnode.body, st)
        raises = info.clauses("raises_")
        ens = info.clause("ensures")
        n_ret = 0
        for kind, s2, payload in outs:
            res.paths += 1
            where = f"{info.relpath}:{fnode.lineno}"
            env_in = dict(entry.env)
            if "old_self" in olds:
                env_in["self"] = olds["old_self"]  # parameters at ENTRY: a `self` whose fields some path assigns is read through its entry snapshot
            cs = State(dict(env_in), [], s2.facts)
            extra = dict(olds)
            # clauses see parameters at entry, `self` after the call, result
            if "self" in s2.env:
                cs.env["self"] = s2.env["self"]
            if kind in ("return", "fall", "raise"):
                frame_obligations(ex, ctx, info, olds, s2, where)
            if kind in ("return", "fall"):
                n_ret += 1
                result = payload if (kind == "return" and payload is not None) else NONE
                # instances of the element-wise facts (zip/map comprehensions, max/min) at the contract's ghost positions: consequences of
                # universally quantified facts, spelled out because the goal need not contain a trigger term
                for gname in list(getattr(info.cls, "forall", {})) + ["_argmax", "_argmin"]:
                    gv = s2.env.get(gname)
                    if isinstance(gv, S.VNum) and gv.kind == "int":
                        for bv, fb in ctx.elementwise:
                            s2.facts.append(z3.substitute(fb, (bv, gv.term)))
                _had = s2.env.get("result", None)
                if _had is None:
                    s2.env["result"] = result  # hint_return clauses may instantiate lemmas at the returned value
                for hn in sorted(info.clauses("hint_return")):
                    apply_hint(ex, info, "hint_return" + hn, s2)
                if _had is None:
                    del s2.env["result"]
                for exc, cl in raises.items():
                    c = eval_clause(ex, info, cl, State(dict(env_in), [], s2.facts), {})
                    ctx.oblige(s2, z3.Not(c), f"raises-iff[{exc}]/normal-return", where)
                if ens is not None:
                    g = eval_clause(ex, info, ens, cs, dict(extra, result=result))
                    ctx.oblige(s2, g, "post", where)
                cov = Obligation(f"{ctx.fname}/cover-return#{res.paths}", "cover", list(s2.pc), z3.BoolVal(True), where)
                cov.facts = s2.facts
                ctx.obligations.append(cov)
            elif kind == "raise":
                exc = payload
                apply_hint(ex, info, f"hint_raise_{exc}", s2)
                if exc in raises:
                    c = eval_clause(ex, info, raises[exc], State(dict(env_in), [], s2.facts), {})
                    ctx.oblige(s2, c, f"raises-iff[{exc}]/raised", where)
                    er = info.clause(f"ensures_on_{exc}") or info.clause("ensures_on_raise")
                    if er is not None:
                        ctx.oblige(s2, eval_clause(ex, info, er, cs, extra), f"post-on-raise[{exc}]", where)
                    cov = Obligation(f"{ctx.fname}/cover-raise[{exc}]#{res.paths}", "cover", list(s2.pc), z3.BoolVal(True), where)
                    cov.facts = s2.facts
                    ctx.obligations.append(cov)
                else:
                    ctx.oblige(s2, z3.BoolVal(False), f"no-other-exception[{exc}]", where)
            else:
                raise OutOfReach(f"{kind} escaping function body")
        if n_ret == 0 and not getattr(info.cls, "never_returns", False):
            raise OutOfReach("no returning path")
    except OutOfReach as e:
        res.out_of_reach = str(e)
        res.obligations = []
        res.gen_time = time.time() - t0
        return res
    except (z3.Z3Exception, AttributeError, TypeError, KeyError) as e:
        # the source uses a construct at a type the translation has no rule for (e.g. a substring test where the contract
        # declares a list): outside the verifier's subset for this contract -> undecided, never a verdict
        import traceback
        tb = traceback.extract_tb(e.__traceback__)
        res.out_of_reach = f"ill-sorted for the declared contract sorts ({type(e).__name__}: {e}) in {tb[-1].name} ({tb[-1].filename.split('/')[-1]}:{tb[-1].lineno})"
        res.obligations = []
        res.gen_time = time.time() - t0
        return res
    res.obligations = ctx.obligations
    res.ghost_log = ctx.ghost_log
    res.rng_used = ctx.rng_used
    res.gen_time = time.time() - t0
    return res

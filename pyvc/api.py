"""Contract language (sidecar): decorators and helpers usable both symbolically and by CPython.

A contract is a class decorated with @contract(relpath, qualname, ...).  Its members:
  params    dict name -> Sort          (symbolic inputs)
  returns   Sort                        (result sort when the function is used as a callee)
  requires(params...)                   precondition
  ensures(params..., result)            postcondition on normal return
  raises_<Exc>(params...)               exact condition under which <Exc> escapes
  invariant_<k>(locals..., _k)          invariant of the k-th loop in source order
  decreases_<k>(locals...)              variant of a while loop
  modifies  tuple of self fields that the method may assign (frame)
The bodies are ordinary Python; the symbolic back end parses the sidecar file with `ast`
and evaluates the very same text, CPython calls the function objects.
"""
from __future__ import annotations
import ast
import inspect
import os
import sys
from fractions import Fraction
from .sorts import (Int, Real, Float, Bool, Str, CSet, Ballot, Profile, Seq, Opt, Dict, Tup, Obj, NoneS, Fn, StateRef, TBDictS, BDict, SDict, RDict, LDict)  # noqa: F401

__all__ = ["contract", "spec", "REGISTRY", "Int", "Real", "Float", "Bool", "Str", "CSet", "Ballot", "Profile", "Seq",
           "Opt", "Dict", "Tup", "Obj", "NoneS", "Fn", "StateRef", "TBDictS", "BDict", "SDict", "RDict", "LDict", "bd_keys", "bd_vals", "implies", "Fraction", "lemma", "floor", "div", "dsum", "reversed_seq", "tb_value", "the"]


def implies(a, b):
    return (not a) or b


def floor(x):
    import math
    return math.floor(x)


def bd_keys(d):
    return tuple(d.keys())


def bd_vals(d):
    return tuple(d.values())


def the(s):
    """the member of a one-element set"""
    (x,) = tuple(s)
    return x


def tb_value(state):
    """the resolution recorded in a state's tiebreak record (the record has at most one entry)"""
    vals = list(state.tiebreaks.values())
    return vals[0] if vals else ()


def reversed_seq(x):
    return tuple(reversed(x))


def dsum(d):
    return sum(d.values(), Fraction(0))


def div(a, b):
    return Fraction(a) / Fraction(b)


class ContractInfo:
    def __init__(self, cls, relpath, qualname, props, opts):
        self.cls, self.relpath, self.qualname, self.props, self.opts = cls, relpath, qualname, tuple(props), opts
        self.file = inspect.getsourcefile(cls)
        self._nodes = None
        self.params = getattr(cls, "params", {})
        self.returns = getattr(cls, "returns", None)
        self.modifies = getattr(cls, "modifies", ())
        self.float_mode = opts.get("float_mode", "exact")
        self.implicit_raises = tuple(opts.get("implicit_raises", ()))
        self.inline = opts.get("inline", False)

    @property
    def name(self):
        return f"{self.relpath}:{self.qualname}"

    def nodes(self):
        if self._nodes is None:
            mod = _parse_file(self.file)
            self._nodes = {}
            for n in ast.walk(mod):
                if isinstance(n, ast.ClassDef) and n.name == self.cls.__name__:
                    for m in n.body:
                        if isinstance(m, ast.FunctionDef):
                            self._nodes[m.name] = m
        return self._nodes

    def clause(self, name):
        return self.nodes().get(name)

    def clauses(self, prefix):
        return {k[len(prefix):]: v for k, v in self.nodes().items() if k.startswith(prefix)}


_parsed = {}


def _parse_file(path):
    if path not in _parsed:
        with open(path) as f:
            _parsed[path] = ast.parse(f.read(), filename=path)
    return _parsed[path]


class SpecInfo:
    def __init__(self, fn):
        self.fn = fn
        self.name = fn.__name__
        self.file = inspect.getsourcefile(fn)
        self._node = None
        ann = dict(fn.__annotations__)
        self.ret = ann.pop("return")
        self.argnames = list(inspect.signature(fn).parameters)
        self.args = [ann[a] for a in self.argnames]
        self._z3fn = None
        self.opaque = getattr(fn, "_opaque", False)
        self.is_lemma = False
        self.induct = None

    def node(self):
        if self._node is None:
            for n in ast.walk(_parse_file(self.file)):
                if isinstance(n, ast.FunctionDef) and n.name == self.name:
                    self._node = n
                    break
        return self._node

    def __call__(self, *a):
        return self.fn(*a)


class Registry:
    def __init__(self):
        self.contracts: dict[tuple[str, str], ContractInfo] = {}
        self.specs: dict[str, SpecInfo] = {}
        self.lemmas = []
        self.class_files = {}  # class name -> relpath (repo)

    # ---- name resolution inside repo modules (imports followed syntactically)
    def resolve_global(self, relpath, name):
        from .core import module_ast, VFunc, find_def
        from . import sorts as S
        mod = module_ast(relpath)
        for n in mod.body:
            if isinstance(n, (ast.FunctionDef,)) and n.name == name:
                return VFunc(name, node=n, module=relpath)
            if isinstance(n, ast.ClassDef) and n.name == name:
                return VFunc(name, node=n, module=relpath)
            if isinstance(n, ast.ImportFrom):
                for a in n.names:
                    if (a.asname or a.name) == name:
                        tgt = self._follow_import(relpath, n, a.name)
                        if tgt is not None:
                            return tgt
            if isinstance(n, ast.Import):
                for a in n.names:
                    if (a.asname or a.name.split(".")[0]) == name:
                        from .builtins_model import module_value
                        return module_value(a.name)
        return None

    def _follow_import(self, relpath, node, name, depth=0):
        from .core import module_ast, VFunc, SRC
        from .builtins_model import module_value, external_name
        if node.level == 0:
            return external_name(node.module, name)
        base = os.path.dirname(relpath)
        for _ in range(node.level - 1):
            base = os.path.dirname(base)
        modpath = os.path.join(base, *(node.module.split(".") if node.module else []))
        cand = [modpath + ".py", os.path.join(modpath, "__init__.py")]
        for c in cand:
            if os.path.exists(os.path.join(SRC, c)):
                m = module_ast(c)
                for n in m.body:
                    if isinstance(n, (ast.FunctionDef, ast.ClassDef)) and n.name == name:
                        return VFunc(name, node=n, module=c)
                if depth < 4:
                    for n in m.body:
                        if isinstance(n, ast.ImportFrom):
                            for a in n.names:
                                if (a.asname or a.name) == name:
                                    return self._follow_import(c, n, a.name, depth + 1)
        return None

    def lookup(self, rel, qual, selfcls=None):
        """contract of a function; for methods a receiver-specialised contract wins (searched along the MRO)"""
        if selfcls is not None:
            for cname, _, _ in self.mro(selfcls):
                i = self.contracts.get((rel, qual + "@" + cname))
                if i is not None:
                    return i
        i = self.contracts.get((rel, qual))
        if i is not None and getattr(i.cls, "frame_only", False):
            return None  # frame-only contracts say nothing about the result: the callee is inlined
        return i

    def lookup_fn(self, rel, qual, args):
        """contract of a module-level function; variants `when=(kinds...)` are matched on the leading actual arguments"""
        from . import sorts as S
        kinds = []
        for a in args:
            if isinstance(a, S.VStr):
                kinds.append("Str")
            elif isinstance(a, S.VRec):
                kinds.append(a.cls)
            elif isinstance(a, (S.VSeq, S.VTup, S.VPyList)):
                kinds.append("Seq")
            elif isinstance(a, S.VNum):
                kinds.append("Num")
            else:
                kinds.append("?")
        for n in range(len(kinds), 0, -1):
            i = self.contracts.get((rel, qual + "#" + ",".join(kinds[:n])))
            if i is not None:
                return i
        return self.contracts.get((rel, qual))

    def class_node(self, clsname):
        """find a repo class by name (searching the elections / models modules)"""
        from .core import module_ast, SRC
        if clsname in self.class_files:
            rel = self.class_files[clsname]
            for n in module_ast(rel).body:
                if isinstance(n, ast.ClassDef) and n.name == clsname:
                    return rel, n
        for root, _, files in os.walk(SRC):
            for f in files:
                if f.endswith(".py"):
                    rel = os.path.relpath(os.path.join(root, f), SRC)
                    for n in module_ast(rel).body:
                        if isinstance(n, ast.ClassDef) and n.name == clsname:
                            self.class_files[clsname] = rel
                            return rel, n
        return None

    def mro(self, clsname):
        out = []
        cur = clsname
        seen = set()
        while cur and cur not in seen:
            seen.add(cur)
            r = self.class_node(cur)
            if r is None:
                break
            out.append((cur, r[0], r[1]))
            bases = [b.id for b in r[1].bases if isinstance(b, ast.Name)]
            cur = bases[0] if bases else None
        return out

    def resolve_method(self, clsname, meth, after=None):
        """(relpath, 'Class.meth', node) following single inheritance; `after` = start above that class"""
        chain = self.mro(clsname)
        started = after is None
        for cname, rel, node in chain:
            if not started:
                if cname == after:
                    started = True
                continue
            for m in node.body:
                if isinstance(m, ast.FunctionDef) and m.name == meth:
                    return rel, f"{cname}.{meth}", m
        return None


REGISTRY = Registry()


def contract(relpath, qualname, props=(), **opts):
    def deco(cls):
        info = ContractInfo(cls, relpath, qualname, props, opts)
        when = opts.get("when")
        recv = opts.get("receiver")
        if when:
            # variant of a polymorphic function, selected by the kinds of its leading actual arguments
            REGISTRY.contracts[(relpath, qualname + "#" + ",".join(when))] = info
        elif recv:
            # specialisation of a base-class method contract for the listed receiver classes
            for r in recv:
                REGISTRY.contracts[(relpath, qualname + "@" + r)] = info
        else:
            REGISTRY.contracts[(relpath, qualname)] = info
        cls._info = info
        return cls
    return deco


def spec(fn=None, *, opaque=False):
    def deco(f):
        f._opaque = opaque
        info = SpecInfo(f)
        REGISTRY.specs[f.__name__] = info
        f._spec = info
        return f
    return deco(fn) if fn is not None else deco


def lemma(fn=None, *, induct=None, hint=None, unfold=2, reveal=()):
    """an SMT lemma: the body returns a formula valid for all arguments (sorts from the
    annotations).  Proved once per run, by induction on the Int parameter `induct` when given
    (base: induct <= 0; step: the formula at induct-1 with the other arguments unchanged is the
    hypothesis).  A call of a lemma inside a `hint_*` clause instantiates it.  `reveal` names opaque spec
    functions whose definition is unfolded inside the proof of this lemma (only)."""
    def deco(f):
        info = SpecInfo(f)
        info.is_lemma = True
        info.reveal = tuple(reveal)
        info.induct = induct
        info.unfold = unfold
        REGISTRY.specs[f.__name__] = info
        REGISTRY.lemmas.append(info)
        f._spec = info
        return f
    return deco(fn) if fn is not None else deco

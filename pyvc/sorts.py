"""Sorts and symbolic values of PyVC.

Python values are represented by small wrapper classes around z3 terms.  The mapping
(assumptions S-INT .. S-ALIAS of DESIGN.md section 2.2):

  int      -> Int            Fraction -> Real (exact)          bool -> Bool
  float    -> Real tagged 'float' (exactness mode: fl(r); reals mode: r)
  str      -> uninterpreted sort PyStr (equality only; literals are distinct constants)
  frozenset/set of str -> Array PyStr Bool  (+ uninterpreted card)
  tuple/list of T      -> Seq T
  dict[str, num]       -> (key set, Array PyStr Real)  (+ demonic enumeration when iterated)
  Ballot / ElectionState / PreferenceProfile -> z3 datatypes (records)
  Optional[T]          -> (isnone, T)
"""
from __future__ import annotations
import z3

PyStr = z3.DeclareSort("PyStr")
CSetS = z3.ArraySort(PyStr, z3.BoolSort())
EMPTY_SET = z3.K(PyStr, z3.BoolVal(False))
_BVS = [z3.Const(f"bv!c{i}", PyStr) for i in range(6)]
BV = _BVS[0]


def _occurs(v, t):
    stack = [t]
    seen = set()
    while stack:
        x = stack.pop()
        if x.get_id() in seen:
            continue
        seen.add(x.get_id())
        if x.eq(v):
            return True
        if z3.is_quantifier(x):
            stack.append(x.body())
        elif z3.is_app(x):
            stack.extend(x.children())
    return False


def bound_var(*operands):
    """canonical bound variable for a set/dict lambda: the first of a fixed family that does not occur in the operands
    (identical constructions give identical, hash-consed terms; no capture when lambdas nest)"""
    for v in _BVS:
        if not any(_occurs(v, t) for t in operands):
            return v
    return z3.Const(fresh_name("bv"), PyStr)


def beta(t):
    """beta-reduce applications of lambda terms, (lambda x. b)[a] -> b[a/x], everywhere in t (keeps set/dict terms built from
    comprehensions of comprehensions flat; purely syntactic, meaning-preserving)"""
    if z3.is_quantifier(t):
        return t
    if not z3.is_app(t) or t.num_args() == 0:
        return t
    args = [beta(c) for c in t.children()]
    if z3.is_select(t) and z3.is_quantifier(args[0]) and args[0].is_lambda() and args[0].num_vars() == 1:
        return beta(z3.substitute_vars(args[0].body(), args[1]))
    if all(a.eq(b) for a, b in zip(args, t.children())):
        return t
    return t.decl()(*args)


def lam(body_fn, *operands):
    v = bound_var(*operands)
    return z3.Lambda([v], beta(body_fn(v)))
card = z3.Function("card", CSetS, z3.IntSort())
fl = z3.Function("fl", z3.RealSort(), z3.RealSort())  # float rounding, exactness mode
RMapS = z3.ArraySort(PyStr, z3.RealSort())
SeqCSet = z3.SeqSort(CSetS)

StateRefS = z3.DeclareSort("ElectionStateRef")  # opaque reference to a recorded ElectionState
# opaque sorts for fields whose content no contract inspects
IdS = z3.DeclareSort("PyId")          # Optional[str] ballot id (None is one element)
VoterS = z3.DeclareSort("PyVoterSet")  # Optional[set[str]]
ID_NONE = z3.Const("id_none", IdS)
VS_NONE = z3.Const("vs_none", VoterS)

BallotS = z3.Datatype("Ballot")
BallotS.declare(
    "mkBallot",
    ("b_rnone", z3.BoolSort()),      # ranking is None
    ("b_ranking", SeqCSet),
    ("b_weight", z3.RealSort()),
    ("b_snone", z3.BoolSort()),      # scores is None
    ("b_skeys", CSetS),
    ("b_svals", RMapS),
    ("b_id", IdS),
    ("b_vs", VoterS),
)
BallotS = BallotS.create()
SeqBallot = z3.SeqSort(BallotS)
# recorded ElectionState objects: references with field accessors
st_elected = z3.Function("st_elected", StateRefS, SeqCSet)
st_eliminated = z3.Function("st_eliminated", StateRefS, SeqCSet)
st_remaining = z3.Function("st_remaining", StateRefS, SeqCSet)
st_round = z3.Function("st_round", StateRefS, z3.IntSort())
st_skeys = z3.Function("st_scores_keys", StateRefS, CSetS)
st_svals = z3.Function("st_scores_vals", StateRefS, RMapS)
# recorded tiebreaks: every rule records at most one tied set per round (a dict with 0 or 1 entries)
st_tb_has = z3.Function("st_tb_has", StateRefS, z3.BoolSort())
st_tb_key = z3.Function("st_tb_key", StateRefS, CSetS)
st_tb_val = z3.Function("st_tb_val", StateRefS, SeqCSet)
SeqStr = z3.SeqSort(PyStr)

ProfileS = z3.Datatype("Profile")
ProfileS.declare(
    "mkProfile",
    ("p_ballots", SeqBallot),
    ("p_candidates", SeqStr),
    ("p_total", z3.RealSort()),
    ("p_num", z3.IntSort()),
)
ProfileS = ProfileS.create()

FnS = z3.DeclareSort("PyFunction")
_fn_consts: dict[str, z3.ExprRef] = {}


def fn_const(name: str):
    """identity of a named function object"""
    if name not in _fn_consts:
        _fn_consts[name] = z3.Const("fn_" + "".join(ch if ch.isalnum() else "_" for ch in name), FnS)
    return _fn_consts[name]


_str_consts: dict[str, z3.ExprRef] = {}


def str_const(s: str):
    if s not in _str_consts:
        _str_consts[s] = z3.Const("str_" + "".join(ch if ch.isalnum() else "_" for ch in s) + f"_{len(_str_consts)}", PyStr)
    return _str_consts[s]


def str_distinct_facts(occurring=None):
    """literal strings / function constants are pairwise distinct.  With `occurring` (a set of constant names) only the constants that
    occur in the query are mentioned: the query text then does not depend on which other functions the process verified before
    (a Distinct over unrelated constants is harmless logically but perturbed the solvers: an order-dependent `unknown`)."""
    cs = [c for c in _str_consts.values() if occurring is None or c.decl().name() in occurring]
    out = [z3.Distinct(*cs)] if len(cs) > 1 else []
    fs = [f for f in _fn_consts.values() if occurring is None or f.decl().name() in occurring]
    if len(fs) > 1:
        out.append(z3.Distinct(*fs))
    out.append(card(EMPTY_SET) == 0)  # the empty set has no element (global axiom of the uninterpreted cardinality)
    return out


def str_name(term) -> str | None:
    for k, v in _str_consts.items():
        if v.eq(term):
            return k
    return None


# ---------------------------------------------------------------- sort descriptors
class Sort:
    def z3(self):
        raise NotImplementedError


class _Prim(Sort):
    def __init__(self, name, zs):
        self.name, self.zs = name, zs

    def z3(self):
        return self.zs

    def __repr__(self):
        return self.name

    def __call__(self, *a, **kw):
        """CPython back end of the contract language: `Ballot(...)` in a clause / spec function builds the real object"""
        if self.name == "Ballot":
            from votekit.ballot import Ballot as _B
            if "ranking" in kw and kw["ranking"] is not None:
                kw["ranking"] = tuple(frozenset(x) for x in kw["ranking"])
            return _B(*a, **kw)
        raise TypeError(f"sort {self.name} is not constructible")


Int = _Prim("Int", z3.IntSort())
Real = _Prim("Real", z3.RealSort())      # Fraction
Float = _Prim("Float", z3.RealSort())    # float (reals mode unless produced by int/int)
Bool = _Prim("Bool", z3.BoolSort())
Str = _Prim("Str", PyStr)
CSet = _Prim("CSet", CSetS)
Ballot = _Prim("Ballot", BallotS)
Profile = _Prim("Profile", ProfileS)
StateRef = _Prim("StateRef", StateRefS)
NoneS = _Prim("None", None)
Fn = _Prim("Fn", None)  # function-valued parameter/field (opaque)


class Seq(Sort):
    def __init__(self, elem: Sort, kind="tuple"):
        self.elem, self.kind = elem, kind

    def z3(self):
        return z3.SeqSort(self.elem.z3())

    def __repr__(self):
        return f"Seq[{self.elem}]"


class Opt(Sort):
    def __init__(self, inner: Sort):
        self.inner = inner

    def __repr__(self):
        return f"Opt[{self.inner}]"


class Dict(Sort):
    """dict[str, number]"""

    def __init__(self, val: Sort = Real):
        self.val = val

    def __repr__(self):
        return f"Dict[Str,{self.val}]"


class LDictSort(Sort):
    """dict[str, list[Ballot]]"""

    def __repr__(self):
        return "LDict"


LDict = LDictSort()
LMapS = z3.ArraySort(PyStr, SeqBallot)


class BDictSort(Sort):
    """dict[Ballot, Fraction] (insertion ordered; lookup through Ballot.__hash__/__eq__), or -- kelem = "strseq" -- dict[tuple[str, ...], int]
    (lookup by structural equality of the key tuples)"""

    def __init__(self, kelem="ballot"):
        self.kelem = kelem

    def __repr__(self):
        return {"ballot": "BDict", "strseq": "SDict", "rankseq": "RDict"}[self.kelem]

    def keyseq(self):
        return {"ballot": SeqBallot, "strseq": SeqSeqStr, "rankseq": z3.SeqSort(SeqCSet)}[self.kelem]


BDict = BDictSort()
SDict = BDictSort("strseq")
RDict = BDictSort("rankseq")  # dict[tuple[frozenset[str], ...], Fraction]: keys are rankings, compared structurally
SeqSeqStr = z3.SeqSort(z3.SeqSort(PyStr))


class TBDict(Sort):
    """dict[frozenset, tuple[frozenset,...]] with at most one entry (tiebreak record of a round)"""

    def __repr__(self):
        return "TBDict"


TBDictS = TBDict()


class Tup(Sort):
    def __init__(self, *items: Sort):
        self.items = items

    def __repr__(self):
        return f"Tup{list(self.items)}"


class Obj(Sort):
    """mutable object with named fields (self of an Election, ElectionState)"""

    def __init__(self, cls: str, fields: dict[str, Sort]):
        self.cls, self.fields = cls, fields

    def __repr__(self):
        return f"Obj[{self.cls}]"


# ---------------------------------------------------------------- values
class V:
    pass


class VNone(V):
    def __repr__(self):
        return "None"


NONE = VNone()


class VNum(V):
    def __init__(self, term, kind):  # kind in int|real|float
        self.term, self.kind = term, kind

    def __repr__(self):
        return f"VNum<{self.kind}>({self.term})"


class VBool(V):
    def __init__(self, term):
        self.term = term if not isinstance(term, bool) else z3.BoolVal(term)

    def __repr__(self):
        return f"VBool({self.term})"


class VStr(V):
    def __init__(self, term):
        self.term = term


class VSet(V):
    def __init__(self, term):
        self.term = term


class VSeq(V):
    def __init__(self, term, elem: Sort, kind="tuple"):
        self.term, self.elem, self.kind = term, elem, kind


class VOpt(V):
    def __init__(self, isnone, val: V):
        self.isnone, self.val = isnone, val


class VDict(V):
    def __init__(self, keys, vals, val: Sort = Real, order=None):
        self.keys, self.vals, self.val, self.order = keys, vals, val, order


class VLDict(V):
    """dict[str, list[Ballot]]: key set + map from names to ballot sequences"""

    def __init__(self, keys, vals):
        self.keys, self.vals = keys, vals


class VBDict(V):
    """dict keyed by Ballot: insertion-ordered key sequence + aligned value sequence (S-DICT)"""

    def __init__(self, keys, vals, kelem="ballot"):
        self.keys, self.vals, self.kelem = keys, vals, kelem


class VTBDict(V):
    """dict[frozenset, tuple[frozenset,...]] with at most one entry (a round's tiebreak record)"""

    def __init__(self, has, key, val):
        self.has, self.key, self.val = has, key, val


class VTup(V):
    def __init__(self, items):
        self.items = list(items)


class VRec(V):  # immutable record backed by a z3 datatype term
    def __init__(self, term, cls):
        self.term, self.cls = term, cls


class VObj(V):  # mutable python object
    def __init__(self, cls, fields):
        self.cls, self.fields = cls, dict(fields)

    def copy(self):
        return VObj(self.cls, self.fields)


class VFunc(V):
    def __init__(self, name, impl=None, node=None, module=None, bound=None, term=None):
        self.name, self.impl, self.node, self.module, self.bound = name, impl, node, module, bound
        self._term = term

    @property
    def term(self):
        """identity of the function object (named functions are distinct constants)"""
        if self._term is None:
            if isinstance(self.node, __import__("ast").Lambda):
                self._term = z3.Const(fresh_name("lambda"), FnS)
            else:
                self._term = fn_const(self.name)
        return self._term


class VPyList(V):
    """python list of heterogenous/obj values with concrete length (e.g. self.election_states when unrolled)"""

    def __init__(self, items):
        self.items = list(items)


_fresh_n = [0]


def fresh_name(base):
    _fresh_n[0] += 1
    return f"{base}!{_fresh_n[0]}"


def fresh(sort: Sort, name: str) -> V:
    n = fresh_name(name)
    if sort is Int:
        return VNum(z3.Int(n), "int")
    if sort is Real:
        return VNum(z3.Real(n), "real")
    if sort is Float:
        return VNum(z3.Real(n), "float")
    if sort is Bool:
        return VBool(z3.Bool(n))
    if sort is Str:
        return VStr(z3.Const(n, PyStr))
    if sort is CSet:
        return VSet(z3.Const(n, CSetS))
    if sort is StateRef:
        return VRec(z3.Const(n, StateRefS), "StateRef")
    if sort is Ballot:
        return VRec(z3.Const(n, BallotS), "Ballot")
    if sort is Profile:
        return VRec(z3.Const(n, ProfileS), "Profile")
    if sort is NoneS:
        return NONE
    if sort is Fn:
        return VFunc(n, term=z3.Const(n, FnS))
    if isinstance(sort, Seq):
        return VSeq(z3.Const(n, sort.z3()), sort.elem, sort.kind)
    if isinstance(sort, Opt):
        return VOpt(z3.Bool(n + "_isnone"), fresh(sort.inner, name))
    if isinstance(sort, Dict):
        return VDict(z3.Const(n + "_keys", CSetS), z3.Const(n + "_vals", RMapS), sort.val)
    if isinstance(sort, LDictSort):
        return VLDict(z3.Const(n + "_lkeys", CSetS), z3.Const(n + "_lvals", LMapS))
    if isinstance(sort, BDictSort):
        return VBDict(z3.Const(n + "_bkeys", sort.keyseq()), z3.Const(n + "_bvals", z3.SeqSort(z3.RealSort())), sort.kelem)
    if isinstance(sort, TBDict):
        return VTBDict(z3.Bool(n + "_has"), z3.Const(n + "_key", CSetS), z3.Const(n + "_val", SeqCSet))
    if isinstance(sort, Tup):
        return VTup([fresh(s, f"{name}_{i}") for i, s in enumerate(sort.items)])
    if isinstance(sort, Obj):
        return VObj(sort.cls, {k: fresh(s, f"{name}.{k}") for k, s in sort.fields.items()})
    raise TypeError(f"fresh: unsupported sort {sort}")


def wrap(sort: Sort, term) -> V:
    if sort is Int:
        return VNum(term, "int")
    if sort is Real:
        return VNum(term, "real")
    if sort is Float:
        return VNum(term, "float")
    if sort is Bool:
        return VBool(term)
    if sort is Str:
        return VStr(term)
    if sort is CSet:
        return VSet(term)
    if sort is StateRef:
        return VRec(term, "StateRef")
    if sort is Ballot:
        return VRec(term, "Ballot")
    if sort is Profile:
        return VRec(term, "Profile")
    if isinstance(sort, Seq):
        return VSeq(term, sort.elem, sort.kind)
    raise TypeError(f"wrap: unsupported sort {sort}")


def sort_of(v: V) -> Sort:
    if isinstance(v, VNum):
        return {"int": Int, "real": Real, "float": Float}[v.kind]
    if isinstance(v, VBool):
        return Bool
    if isinstance(v, VStr):
        return Str
    if isinstance(v, VSet):
        return CSet
    if isinstance(v, VSeq):
        return Seq(v.elem, v.kind)
    if isinstance(v, VRec):
        return {"Ballot": Ballot, "Profile": Profile, "StateRef": StateRef}[v.cls]
    if isinstance(v, VOpt):
        return Opt(sort_of(v.val))
    if isinstance(v, VDict):
        return Dict(v.val)
    if isinstance(v, VLDict):
        return LDict
    if isinstance(v, VBDict):
        return {"ballot": BDict, "strseq": SDict, "rankseq": RDict}[v.kelem]
    if isinstance(v, VTBDict):
        return TBDictS
    if isinstance(v, VTup):
        return Tup(*[sort_of(i) for i in v.items])
    if isinstance(v, VNone):
        return NoneS
    if isinstance(v, VFunc):
        return Fn
    if isinstance(v, VObj):
        return Obj(v.cls, {k: sort_of(x) for k, x in v.fields.items()})
    raise TypeError(f"sort_of: {v!r}")

"""debug helper: split a failing obligation's goal into conjuncts and report each"""
import sys, importlib
sys.path.insert(0, "/verif")
import z3
from pyvc.api import REGISTRY
from pyvc.verify import verify_function
from pyvc.solve import relevant_facts
from pyvc import sorts as S

def conjuncts(g):
    if z3.is_and(g):
        out = []
        for c in g.children():
            out += conjuncts(c)
        return out
    return [g]

def main(mod, qual, pattern):
    importlib.import_module("specs.base")
    importlib.import_module("contracts.models_c"); importlib.import_module("specs.condense"); importlib.import_module("specs.pairwise"); importlib.import_module("contracts.condense_c"); importlib.import_module("contracts.utils_c"); importlib.import_module("contracts.stv_c")
    importlib.import_module(mod)
    info = [i for i in REGISTRY.contracts.values() if i.qualname == qual][0]
    r = verify_function(info)
    print("out of reach:", r.out_of_reach)
    for o in r.obligations:
        if pattern in o.name:
            facts = relevant_facts(o.hyps, o.goal, list(o.facts))
            print(o.name, "hyps", len(o.hyps), "facts", len(facts))
            for c in conjuncts(o.goal):
                s = z3.Solver(); s.set("timeout", 15000)
                s.add(*o.hyps); s.add(*facts); s.add(*S.str_distinct_facts()); s.add(z3.Not(c))
                res = s.check()
                print("   ", res, str(c)[:200].replace("\n", " "))
                if res == z3.sat and "-m" in sys.argv:
                    print(s.model())

if __name__ == "__main__":
    main(sys.argv[1], sys.argv[2], sys.argv[3])

"""Comprehensions and generator expressions: recognised shapes get spec-level summaries
(DESIGN 2.2); anything else is out of reach."""
from __future__ import annotations
import ast
import z3
from . import sorts as S
from .sorts import VNum, VBool, VStr, VSet, VSeq, VOpt, VDict, VTup, VRec, VObj, VFunc, NONE, VPyList
from .core import OutOfReach, State, mk_int


def _src(ex, gen, st):
    v = ex.eval(gen.iter, st)
    if isinstance(v, VOpt):
        ex.need(st, z3.Not(v.isnone), "TypeError", gen.iter, "iteration over None")
        v = v.val
    return v


def comp_ordinal(ex, node):
    """ordinal of a comprehension among the list/generator/set/dict comprehensions of the enclosing function (source order)"""
    fn = ex.fn_stack[-1][0]
    k = 0
    for n in ast.walk(fn):
        if isinstance(n, (ast.ListComp, ast.GeneratorExp, ast.SetComp, ast.DictComp)):
            pass
    # ast.walk is breadth-first; use a deterministic source-position order instead
    comps = [n for n in ast.walk(fn) if isinstance(n, (ast.ListComp, ast.GeneratorExp, ast.SetComp, ast.DictComp))]
    comps.sort(key=lambda n: (n.lineno, n.col_offset))
    for i, n in enumerate(comps):
        if n is node:
            return i
    return None


def summarised(ex, node, st, kind):
    """Comprehension with a contract-declared summary `comp_<k>(locals...)` = H(src, len(src), extra...): H is a recursive
    spec function over (sequence, n).  Python's comprehension IS the left fold that appends each source element's
    contribution, so it equals H(src, len(src)) provided H(src,0) is empty and, for every 1 <= n <= len(src),
    H(src,n) == H(src,n-1) ++ contribution(src[n-1])  -- two obligations per site (comp-base / comp-step), where the
    contribution is obtained by symbolically executing the comprehension's inner part on an arbitrary element."""
    from .loops import eval_clause_value
    from .calls import apply_spec
    frame = ex.fn_stack[-1]
    info = frame[1] if len(frame) > 1 else None
    if info is None or ex.spec_mode:
        return None
    k = comp_ordinal(ex, node)
    cl = info.clause(f"comp_{k}") if k is not None else None
    if cl is None:
        return None
    ret = cl.body[-1]
    if not (isinstance(ret, ast.Return) and isinstance(ret.value, ast.Call) and isinstance(ret.value.func, ast.Name)
            and ret.value.func.id in ex.ctx.registry.specs):
        raise OutOfReach(f"comp_{k}: summary must be `return H(src, len(src), ...)` with H a spec function")
    H = ex.ctx.registry.specs[ret.value.func.id]
    gens = node.generators
    g0 = gens[0]
    src = _src(ex, g0, st)
    if isinstance(src, (VTup, VPyList)):
        return None  # concrete: unrolled by the ordinary path
    if not isinstance(src, VSeq):
        raise OutOfReach(f"comp_{k}: source is not a sequence")
    # evaluate the summary's arguments in the current state
    argvals = []
    env_state = State(dict(st.env), list(st.pc), st.facts)
    from .core import Exec
    sub = Exec(ex.ctx, info.file, contract=None, spec_mode=True)
    sub.fn_stack = [(cl, None)]
    sub.fallback_relpath = info.relpath
    cenv = {}
    for a in cl.args.args:
        if a.arg == "_src":
            cenv[a.arg] = src  # the comprehension's (possibly anonymous) source sequence
            continue
        if a.arg not in st.env:
            raise OutOfReach(f"comp_{k}: no value for {a.arg}")
        cenv[a.arg] = st.env[a.arg]
    cstate = State(cenv, st.pc, st.facts)  # shares the path condition: callee postconditions assumed here stay visible
    for stmt in cl.body[:-1]:
        outs = sub.exec_block([stmt], cstate)
        if len(outs) != 1 or outs[0][0] != "fall":
            raise OutOfReach(f"comp_{k}: summary prelude must be straight-line")
    for a in ret.value.args:
        v = sub.eval(a, cstate)
        argvals.append(v.val if isinstance(v, VOpt) else v)
    if len(argvals) < 2 or not isinstance(argvals[0], VSeq):
        raise OutOfReach(f"comp_{k}: summary arguments")
    where = f"{ex.relpath}:{node.lineno}"
    L = z3.Length(src.term)
    ex.ctx.oblige(st, z3.And(argvals[0].term == src.term, argvals[1].term == L), f"comp-summary-args[{k}]", where, ex.guards)
    extra = argvals[2:]
    n = z3.Int(S.fresh_name("cn"))
    nn = VNum(n, "int")
    h_n = apply_spec(ex, H, [src, nn] + extra, st)
    h_p = apply_spec(ex, H, [src, VNum(n - 1, "int")] + extra, st)
    h_0 = apply_spec(ex, H, [src, VNum(z3.IntVal(0), "int")] + extra, st)
    h_L = apply_spec(ex, H, [src, VNum(L, "int")] + extra, st)
    # contribution of an arbitrary element
    el = S.wrap(src.elem, src.term[n - 1])
    s2 = State(dict(st.env), st.pc + [n >= 1, n <= L], st.facts)
    ex.store(g0.target, el, s2)
    saved = list(ex.guards)
    ex.guards = ex.guards + [n >= 1, n <= L]
    try:
        conds = [ex.truth(ex.eval(c, s2)) for c in g0.ifs]
        if len(gens) == 1:
            if kind == "dict":
                raise OutOfReach("dict comprehension summary")
            body = ex.eval(node.elt, s2)
            es = H.ret.elem if isinstance(H.ret, S.Seq) else None
            if kind == "gen" and H.ret is S.Bool and not conds:
                # any(...) / all(...) over the generator, summarised by a recursive Bool spec function: the consumer (b_any / b_all)
                # emits base and step obligations (False/or for any, True/and for all)
                ex.guards = saved
                hcl = info.clause(f"hint_comp_{k}")
                if hcl is not None:
                    from .verify import check_hint_shape
                    from .loops import eval_clause
                    check_hint_shape(hcl)
                    st.assume(eval_clause(ex, info, hcl, st, {"_src": src}))
                return BoolFold(h_0.term, h_p.term, h_n.term, h_L.term, ex.truth(body), s2, k, where)
            if kind in ("list", "gen") and isinstance(H.ret, S.Seq):
                unit = z3.Unit(ex.term_of(body, H.ret.elem))
                contrib = z3.If(z3.And(*conds), unit, z3.Empty(H.ret.z3())) if conds else unit
                step = h_n.term == z3.Concat(h_p.term, contrib)
                base = h_0.term == z3.Empty(H.ret.z3())
            else:
                raise OutOfReach(f"comp_{k}: summary result sort {H.ret}")
        elif len(gens) == 2:
            g1 = gens[1]
            inner = ex.eval(g1.iter, s2)
            if isinstance(inner, VOpt):
                ex.need(s2, z3.Not(inner.isnone), "TypeError", g1.iter, "iteration over None")
                inner = inner.val
            inner = ex.as_seq(inner, H.ret.elem) if not isinstance(inner, VSeq) else inner
            if not (isinstance(node.elt, ast.Name) and isinstance(g1.target, ast.Name) and node.elt.id == g1.target.id):
                raise OutOfReach(f"comp_{k}: inner generator must yield its own variable")
            # inner conditions may not depend on the inner variable
            inner_names = {g1.target.id}
            for c in g1.ifs:
                if any(isinstance(x, ast.Name) and x.id in inner_names for x in ast.walk(c)):
                    raise OutOfReach(f"comp_{k}: condition on the inner variable")
            conds += [ex.truth(ex.eval(c, s2)) for c in g1.ifs]
            contrib = z3.If(z3.And(*conds), inner.term, z3.Empty(H.ret.z3())) if conds else inner.term
            step = h_n.term == z3.Concat(h_p.term, contrib)
            base = h_0.term == z3.Empty(H.ret.z3())
        else:
            raise OutOfReach(f"comp_{k}: more than two generators")
    finally:
        ex.guards = saved
    ex.ctx.oblige(st, base, f"comp-base[{k}]", where, ex.guards)
    ex.ctx.oblige(s2, step, f"comp-step[{k}]", where, ex.guards)
    res = h_L
    if kind != "gen" and isinstance(res, VSeq):
        res = VSeq(res.term, res.elem, "list")
    hcl = info.clause(f"hint_comp_{k}")
    if hcl is not None:
        # lemma instances about the summarised comprehension (may name its source as `_src`)
        from .verify import check_hint_shape
        from .loops import eval_clause
        check_hint_shape(hcl)
        st.assume(eval_clause(ex, info, hcl, st, {"_src": src}))
    return res


def do_comp(ex, node, st, kind):
    gens = node.generators
    if any(g.is_async for g in gens):
        raise OutOfReach("async comprehension")
    r = summarised(ex, node, st, kind)
    if r is not None:
        return r
    # ---- flatten: [c for s in R for c in s]
    if kind in ("list", "gen") and len(gens) == 2 and not gens[0].ifs and not gens[1].ifs \
            and isinstance(node.elt, ast.Name) and isinstance(gens[1].target, ast.Name) and node.elt.id == gens[1].target.id \
            and isinstance(gens[1].iter, ast.Name) and isinstance(gens[0].target, ast.Name) and gens[1].iter.id == gens[0].target.id:
        R = _src(ex, gens[0], st)
        if isinstance(R, (VTup, VPyList)):
            R = ex.as_seq(R, S.CSet)
        if isinstance(R, VSeq) and R.elem is S.CSet:
            from .calls import apply_spec
            cnt = apply_spec(ex, ex.ctx.registry.specs["count"], [R, VNum(z3.Length(R.term), "int")], st)
            f = z3.Const(S.fresh_name("flat"), S.SeqStr)
            st.facts.append(z3.Length(f) == cnt.term)
            v = VSeq(f, S.Str, "list")
            v.flat_of = R
            return v
        raise OutOfReach("flatten of non set-sequence")
    if len(gens) != 1:
        raise OutOfReach("comprehension shape (generators)")
    g = gens[0]
    # ---- generator over a dict view / a set: quantification over the key sort
    it = g.iter
    dv = None
    if isinstance(it, ast.Call) and isinstance(it.func, ast.Attribute) and it.func.attr in ("values", "items", "keys") and not it.args:
        d = ex.eval(it.func.value, st)
        if isinstance(d, VOpt):
            ex.need(st, z3.Not(d.isnone), "AttributeError", it, "None." + it.func.attr)
            d = d.val
        if isinstance(d, VDict):
            dv = (d, it.func.attr)
    if dv is None and isinstance(it, ast.Call) and isinstance(it.func, ast.Name) and it.func.id == "zip" and "zip" not in st.env:
        return zip_map(ex, node, g, st, kind)
    if dv is None:
        src = _src(ex, g, st)
        if isinstance(src, VSet):
            dv = (src, "set")
        elif isinstance(src, VDict):
            dv = (src, "keys")
    else:
        src = None
    if dv is not None:
        d, how = dv
        # canonical bound variable not occurring in the source (identical comprehensions give identical terms; nesting is capture-free
        # because an inner comprehension's source mentions the outer variable and therefore picks the next one)
        c = S.bound_var(*( [d.term] if how == "set" else [d.keys, d.vals] ), *[v_.term for v_ in st.env.values() if hasattr(v_, "term") and isinstance(getattr(v_, "term", None), z3.ExprRef) and isinstance(v_, VStr)])
        dom = d.term[c] if how == "set" else d.keys[c]
        s2 = State(dict(st.env), st.pc + [dom], st.facts)
        key = VStr(c)
        if how in ("set", "keys"):
            ex.store(g.target, key, s2)
        else:
            vk = "real" if d.val is S.Real else ("int" if d.val is S.Int else "float")
            val = VNum(d.vals[c], vk)
            ex.store(g.target, VTup([key, val]) if how == "items" else val, s2)
        saved = list(ex.guards)
        ex.guards = ex.guards + [dom]
        try:
            conds = [ex.truth(ex.eval(cn, s2)) for cn in g.ifs]
            if kind == "dict":
                kx = ex.eval(node.key, s2)
                vx = ex.eval(node.value, s2)
                if isinstance(kx, VStr) and kx.term.eq(c) and isinstance(vx, VNum):
                    # {c: f(c, v) for c, v in d.items() if cond}: same keys filtered, values mapped
                    keep = z3.And(dom, *conds) if conds else dom
                    from .core import to_real
                    nk = z3.Lambda([c], keep)
                    nv = z3.Lambda([c], to_real(vx))
                    vsort = S.Real if vx.kind == "real" else (S.Int if vx.kind == "int" else S.Float)
                    return VDict(nk, nv, S.Real if vsort is S.Int else vsort)
                raise OutOfReach("dict comprehension shape over dict view")
            body = ex.eval(node.elt, s2)
        finally:
            ex.guards = saved
        if kind == "gen":
            return GenSet(c, z3.And(dom, *conds) if conds else dom, body)
        if kind == "set" and isinstance(body, VStr) and body.term.eq(c):
            r = z3.Lambda([c], z3.And(dom, *conds) if conds else dom)
            ex.card_of(st, r)
            return VSet(r)
        if kind == "list" and isinstance(body, VStr) and body.term.eq(c):
            # [c for c in s if cond]: its order is the set's iteration order; only order-free consumers
            # (frozenset / set / len) accept the value
            r = z3.Lambda([c], z3.And(dom, *conds) if conds else dom)
            ex.card_of(st, r)
            return VSetList(VSet(r))
        raise OutOfReach("list comprehension over a set/dict (order-dependent)")
    # concrete sources: unroll
    if isinstance(src, (VTup, VPyList)):
        items = []
        for it in src.items:
            s2 = State(dict(st.env), st.pc, st.facts)
            ex.store(g.target, it, s2)
            conds = [ex.truth(ex.eval(c, s2)) for c in g.ifs]
            if conds:
                c = z3.simplify(z3.And(*conds))
                if z3.is_false(c):
                    continue
                if not z3.is_true(c):
                    raise OutOfReach("symbolic filter over concrete tuple")
            if kind == "dict":
                items.append((ex.eval(node.key, s2), ex.eval(node.value, s2)))
            else:
                items.append(ex.eval(node.elt, s2))
        if kind == "dict":
            raise OutOfReach("dict comp over concrete tuple")
        if kind == "set":
            from .builtins_model import b_frozenset
            return b_frozenset(ex, st, node, [VTup(items)], {})
        return ex.mk_tuple(items, "list") if items else VTup([])
    if isinstance(src, VSet) or isinstance(src, VDict):
        raise OutOfReach("comprehension over set/dict")
    if not isinstance(src, VSeq):
        raise OutOfReach(f"comprehension over {src!r}")
    L = z3.Length(src.term)
    i = z3.Int(S.fresh_name("ci"))
    s2 = State(dict(st.env), st.pc + [i >= 0, i < L], st.facts)
    el = S.wrap(src.elem, src.term[i])
    ex.store(g.target, el, s2)
    saved_guards = list(ex.guards)
    ex.guards = ex.guards + [i >= 0, i < L]
    try:
        conds = [ex.truth(ex.eval(c, s2)) for c in g.ifs]
        if kind == "dict":
            # {c: CONST for c in seq}: the keys are the sequence's elements, every value the same constant
            tnames = {n_.id for n_ in ast.walk(g.target) if isinstance(n_, ast.Name)}
            if (not conds and isinstance(g.target, ast.Name) and isinstance(node.key, ast.Name) and node.key.id == g.target.id
                    and src.elem is S.Str and not (tnames & {n_.id for n_ in ast.walk(node.value) if isinstance(n_, ast.Name)})):
                if isinstance(node.value, ast.List) and not node.value.elts:
                    # {c: [] for c in seq}: a dict of (ballot) lists, all empty
                    from .builtins_model import set_of_seq
                    from .sorts import VLDict
                    ks = set_of_seq(ex, st, src)
                    return VLDict(ks.term, z3.K(S.PyStr, z3.Empty(S.SeqBallot)))
                vx = ex.eval(node.value, st)
                if isinstance(vx, VNum):
                    from .builtins_model import set_of_seq
                    from .core import to_real
                    ks = set_of_seq(ex, st, src)
                    return VDict(ks.term, z3.K(S.PyStr, to_real(vx)), S.Real if vx.kind in ("real", "int") else S.Float)
            raise OutOfReach("dict comprehension over symbolic sequence")
        body = ex.eval(node.elt, s2)
    finally:
        ex.guards = saved_guards
    rng = z3.And(i >= 0, i < L)
    if conds:
        raise OutOfReach("filter comprehension over symbolic sequence")
    if kind == "list" and isinstance(getattr(body, "term", None), z3.ExprRef) and isinstance(getattr(el, "term", None), z3.ExprRef) \
            and body.term.eq(el.term) and S.sort_of(body) is src.elem:
        return VSeq(src.term, src.elem, "list")  # [f(s) for s in X] with f the identity on X's elements (e.g. frozenset(s) of a frozenset): a copy of X
    if kind == "gen":
        # consumer decides (any/all/sum/tuple); hand back a lazy description
        v = GenDesc(src, i, body, rng)
        return v
    return materialise(ex, st, GenDesc(src, i, body, rng), "list")


def zip_map(ex, node, g, st, kind):
    """[f(x, y) for x, y in zip(A, B)] over two sequences: a list of length min(len(A), len(B)) whose i-th element is f(A[i], B[i])"""
    it = g.iter
    if kind != "list" or g.ifs or len(it.args) != 2 or it.keywords:
        raise OutOfReach("zip comprehension shape")
    a, b = ex.eval(it.args[0], st), ex.eval(it.args[1], st)
    if not (isinstance(a, VSeq) and isinstance(b, VSeq)):
        raise OutOfReach("zip of non-sequences")
    La, Lb = z3.Length(a.term), z3.Length(b.term)
    L = z3.If(La <= Lb, La, Lb)
    i = z3.Int(S.fresh_name("zi"))
    s2 = State(dict(st.env), st.pc + [i >= 0, i < L], st.facts)
    ex.store(g.target, VTup([S.wrap(a.elem, a.term[i]), S.wrap(b.elem, b.term[i])]), s2)
    saved = list(ex.guards)
    ex.guards = ex.guards + [i >= 0, i < L]
    try:
        body = ex.eval(node.elt, s2)
    finally:
        ex.guards = saved
    es = S.sort_of(body)
    if isinstance(es, (S.Tup, S.Opt, S.Obj, S.Dict)):
        raise OutOfReach("zip comprehension with structured elements")
    r = z3.Const(S.fresh_name("zmap"), z3.SeqSort(es.z3()))
    st.facts.append(z3.Length(r) == L)
    fb = z3.Implies(z3.And(i >= 0, i < L), r[i] == ex.term_of(body, es))
    st.facts.append(z3.ForAll([i], fb, patterns=[r[i]]))
    ex.ctx.elementwise.append((i, fb))
    return VSeq(r, es, "list")


class BoolFold(S.V):
    """any()/all() over a generator with a contract-declared recursive Bool summary"""

    def __init__(self, h0, hp, hn, hL, body, s2, k, where):
        self.h0, self.hp, self.hn, self.hL, self.body, self.s2, self.k, self.where = h0, hp, hn, hL, body, s2, k, where


def _fold(ex, st, x: BoolFold, is_any):
    base = x.h0 == z3.BoolVal(not is_any)
    step = x.hn == (z3.Or(x.hp, x.body) if is_any else z3.And(x.hp, x.body))
    ex.ctx.oblige(st, base, f"comp-base[{x.k}]", x.where, ex.guards)
    ex.ctx.oblige(x.s2, step, f"comp-step[{x.k}]", x.where, ex.guards)
    return VBool(x.hL)


class VSetList(S.V):
    """a list built by iterating a set: demonic order, accepted only by order-free consumers"""

    def __init__(self, vset):
        self.vset = vset


class GenSet(S.V):
    """generator over the members of a set / the entries of a dict: bound variable c, domain, body"""

    def __init__(self, c, dom, body):
        self.c, self.dom, self.body = c, dom, body


class GenDesc(S.V):
    def __init__(self, src, i, body, rng):
        self.src, self.i, self.body, self.rng = src, i, body, rng


def materialise(ex, st, g: GenDesc, kind):
    es = S.sort_of(g.body)
    if isinstance(es, (S.Tup, S.Opt, S.Obj, S.Dict)):
        raise OutOfReach("map comprehension with structured elements")
    r = z3.Const(S.fresh_name("map"), z3.SeqSort(es.z3()))
    st.facts.append(z3.Length(r) == z3.Length(g.src.term))
    bt = ex.term_of(g.body, es)
    st.facts.append(z3.ForAll([g.i], z3.Implies(g.rng, r[g.i] == bt), patterns=[r[g.i]]))
    return VSeq(r, es, kind)


def b_any(ex, st, node, args, kw):
    (x,) = args
    if isinstance(x, BoolFold):
        return _fold(ex, st, x, True)
    if isinstance(x, GenSet):
        return VBool(z3.Exists([x.c], z3.And(x.dom, ex.truth(x.body))))
    if isinstance(x, GenDesc):
        return VBool(z3.Exists([x.i], z3.And(x.rng, ex.truth(x.body))))
    raise OutOfReach("any() of non-generator")


def b_all(ex, st, node, args, kw):
    (x,) = args
    if isinstance(x, BoolFold):
        return _fold(ex, st, x, False)
    if isinstance(x, GenSet):
        return VBool(z3.ForAll([x.c], z3.Implies(x.dom, ex.truth(x.body))))
    if isinstance(x, GenDesc):
        return VBool(z3.ForAll([x.i], z3.Implies(x.rng, ex.truth(x.body))))
    raise OutOfReach("all() of non-generator")


from . import builtins_model as _B  # noqa: E402
_orig_frozenset = _B.BUILTINS["frozenset"]
_orig_len = _B.BUILTINS["len"]


def _frozenset(ex, st, node, args, kw):
    if args and isinstance(args[0], VSetList):
        return args[0].vset
    return _orig_frozenset(ex, st, node, args, kw)


def _len(ex, st, node, args, kw):
    if args and isinstance(args[0], VSetList):
        return _orig_len(ex, st, node, [args[0].vset], kw)
    return _orig_len(ex, st, node, args, kw)


_B.BUILTINS["frozenset"] = _frozenset
_B.BUILTINS["set"] = _frozenset
_B.BUILTINS["len"] = _len
_B.BUILTINS["any"] = b_any
_B.BUILTINS["all"] = b_all
_orig_tuple = _B.BUILTINS["tuple"]


def _tuple(ex, st, node, args, kw, kind="tuple"):
    if args and isinstance(args[0], GenDesc):
        return materialise(ex, st, args[0], kind)
    return _orig_tuple(ex, st, node, args, kw, kind)


_B.BUILTINS["tuple"] = _tuple
_B.BUILTINS["list"] = lambda ex, st, node, args, kw: (VTup([]) if not args else _tuple(ex, st, node, args, kw, "list"))

"""From a solver counter-model to a native run of the real function (DESIGN 2.6), and the
CPython back end of the contract language (the same clause text, evaluated on real objects)."""
from __future__ import annotations
import ast
import importlib
import json
import os
import sys
import traceback
import types
import z3
from fractions import Fraction
from . import sorts as S
from .sorts import VNum, VBool, VStr, VSet, VSeq, VOpt, VDict, VTup, VRec, VObj, VNone

REPO = os.environ.get("VERIF_REPO", "/repo")


def ensure_repo_on_path():
    src = os.path.join(REPO, "src")
    stubs = os.path.join(os.path.dirname(os.path.dirname(os.path.abspath(__file__))), "stubs")
    for p in (stubs, src):
        if p not in sys.path:
            sys.path.insert(0, p)
    import votekit
    if not os.path.abspath(votekit.__file__).startswith(os.path.abspath(src)):
        raise SystemExit(f"checker error: votekit imported from {votekit.__file__}, not from {src}")
    return votekit


# ---------------------------------------------------------------- model -> python values
class Concretizer:
    def __init__(self, model):
        self.m = model
        self.names = {}
        uni = model.get_universe(S.PyStr) or []
        self.universe = list(uni)
        k = 0
        for u in self.universe:
            nm = None
            for lit, c in S._str_consts.items():
                try:
                    if z3.is_true(model.eval(c == u, model_completion=True)):
                        nm = lit
                except z3.Z3Exception:
                    pass
            if nm is None:
                nm = f"c{k}"
                k += 1
            self.names[u.get_id()] = nm

    def ev(self, t):
        return self.m.eval(t, model_completion=True)

    def num(self, t):
        v = self.ev(t)
        if z3.is_int_value(v):
            return v.as_long()
        if z3.is_rational_value(v):
            f = Fraction(v.numerator_as_long(), v.denominator_as_long())
            return f
        if z3.is_algebraic_value(v):
            a = v.approx(20)
            return Fraction(a.numerator_as_long(), a.denominator_as_long())
        raise ValueError(f"cannot concretise number {v}")

    def string(self, t):
        v = self.ev(t)
        for u in self.universe:
            if z3.is_true(self.ev(u == v)):
                return self.names[u.get_id()]
        # element outside the collected universe
        nm = f"c{len(self.names)}"
        self.universe.append(v)
        self.names[v.get_id()] = nm
        return nm

    def cset(self, t):
        out = set()
        for u in list(self.universe):
            if z3.is_true(self.ev(z3.Select(t, u))):
                out.add(self.names[u.get_id()])
        return frozenset(out)

    def seq(self, t, elem):
        n = self.num(z3.Length(t))
        return [self.value(S.wrap(elem, t[i])) for i in range(n)]

    def value(self, v):
        if isinstance(v, VNone):
            return None
        if isinstance(v, VNum):
            x = self.num(v.term)
            if v.kind == "int":
                return int(x)
            if v.kind == "real":
                return Fraction(x)
            return float(x)
        if isinstance(v, VBool):
            return z3.is_true(self.ev(v.term))
        if isinstance(v, VStr):
            return self.string(v.term)
        if isinstance(v, VSet):
            return self.cset(v.term)
        if isinstance(v, VSeq):
            items = self.seq(v.term, v.elem)
            return list(items) if v.kind == "list" else tuple(items)
        if isinstance(v, VOpt):
            if z3.is_true(self.ev(v.isnone)):
                return None
            return self.value(v.val)
        if isinstance(v, VDict):
            keys = self.cset(v.keys)
            inv = {nm: u for u in self.universe for nm in [self.names[u.get_id()]]}
            return {k: Fraction(self.num(z3.Select(v.vals, inv[k]))) for k in sorted(keys)}
        if isinstance(v, VTup):
            return tuple(self.value(i) for i in v.items)
        if isinstance(v, VRec) and v.cls == "Ballot":
            return self.ballot(v.term)
        if isinstance(v, VRec) and v.cls == "Profile":
            return self.profile(v.term)
        if isinstance(v, VObj):
            ns = types.SimpleNamespace()
            for k, f in v.fields.items():
                setattr(ns, k, self.value(f))
            ns.__pyvc_cls__ = v.cls
            return ns
        raise ValueError(f"cannot concretise {v!r}")

    def ballot(self, t):
        from votekit.ballot import Ballot
        B = S.BallotS
        kw = {}
        if not z3.is_true(self.ev(B.b_rnone(t))):
            kw["ranking"] = tuple(self.seq(B.b_ranking(t), S.CSet))
        kw["weight"] = Fraction(self.num(B.b_weight(t)))
        if not z3.is_true(self.ev(B.b_snone(t))):
            kw["scores"] = self.value(VDict(B.b_skeys(t), B.b_svals(t)))
        return Ballot(**kw)

    def profile(self, t):
        from votekit.pref_profile import PreferenceProfile
        P = S.ProfileS
        ballots = tuple(self.ballot(self.ev(P.p_ballots(t))[i]) for i in range(self.num(z3.Length(P.p_ballots(t)))))
        cands = tuple(self.seq(P.p_candidates(t), S.Str))
        return PreferenceProfile(ballots=ballots, candidates=cands)


def to_literal(x):
    """python-literal-ish rendering for replay files"""
    from fractions import Fraction as F
    if isinstance(x, F):
        return f"Fraction({x.numerator},{x.denominator})"
    if isinstance(x, (frozenset, set)):
        return "frozenset({" + ",".join(sorted(repr(i) for i in x)) + "})"
    if isinstance(x, tuple):
        return "(" + ",".join(to_literal(i) for i in x) + ("," if len(x) == 1 else "") + ")"
    if isinstance(x, list):
        return "[" + ",".join(to_literal(i) for i in x) + "]"
    if isinstance(x, dict):
        return "{" + ",".join(f"{to_literal(k)}:{to_literal(v)}" for k, v in x.items()) + "}"
    if isinstance(x, types.SimpleNamespace):
        return "Obj(" + ",".join(f"{k}={to_literal(v)}" for k, v in vars(x).items()) + ")"
    if x.__class__.__name__ == "Ballot":
        return f"Ballot(ranking={to_literal(x.ranking)},weight={to_literal(x.weight)},scores={to_literal(x.scores)})"
    if x.__class__.__name__ == "PreferenceProfile":
        return f"PreferenceProfile(ballots={to_literal(x.ballots)},candidates={to_literal(x.candidates)})"
    return repr(x)


# ---------------------------------------------------------------- CPython back end of a contract
def real_callable(info):
    """the real function object of the tree under check"""
    ensure_repo_on_path()
    modname = "votekit." + info.relpath[:-3].replace("/", ".")
    if modname.endswith(".__init__"):
        modname = modname[: -len(".__init__")]
    mod = importlib.import_module(modname)
    obj = mod
    for part in info.qualname.split("."):
        obj = getattr(obj, part)
    return obj


def clause_fn(info, name):
    f = info.cls.__dict__.get(name)
    if isinstance(f, staticmethod):
        f = f.__func__
    return f


def call_clause(f, values):
    import inspect
    names = list(inspect.signature(f).parameters)
    return f(*[values[n] for n in names])


def native_check(info, args: dict, stub_self=None):
    """run the real function on concrete arguments and evaluate the contract natively.
    returns dict(ok, outcome, detail)"""
    import copy
    fn = real_callable(info)
    vals = dict(args)
    req = clause_fn(info, "requires")
    if req is not None:
        try:
            if not call_clause(req, vals):
                return {"ok": True, "outcome": "precondition-false", "detail": ""}
        except Exception as e:  # precondition not evaluable on this input
            return {"ok": True, "outcome": "precondition-error", "detail": repr(e)}
    olds = {f"old_{k}": copy.deepcopy(v) for k, v in vals.items()}
    expected = {}
    for nm in info.cls.__dict__:
        if nm.startswith("raises_"):
            try:
                expected[nm[7:]] = bool(call_clause(clause_fn(info, nm), vals))
            except Exception as e:
                return {"ok": True, "outcome": "clause-error", "detail": f"{nm}: {e!r}"}
    import inspect
    try:
        fparams = set(inspect.signature(fn).parameters)
    except (TypeError, ValueError):
        fparams = set(vals)
    call_args = copy.deepcopy({k: v for k, v in vals.items() if k in fparams})  # ghost (forall) parameters are not passed
    try:
        result = fn(**call_args)
        outcome = "return"
    except Exception as e:  # noqa
        outcome = type(e).__name__
        result = e
        tb = traceback.format_exc(limit=4)
    if outcome == "return":
        bad = [e for e, c in expected.items() if c]
        if bad:
            return {"ok": False, "outcome": "return", "detail": f"returned {to_literal(result)} but contract requires {bad[0]}"}
        ens = clause_fn(info, "ensures")
        if ens is not None:
            v2 = dict(vals)
            v2.update(olds)
            v2["result"] = result
            if "self" in call_args:
                v2["self"] = call_args["self"]
            try:
                okv = call_clause(ens, v2)
            except Exception as e:
                return {"ok": False, "outcome": "return", "detail": f"postcondition raised {e!r} on result {to_literal(result)}"}
            if not okv:
                return {"ok": False, "outcome": "return", "detail": f"postcondition false on result {to_literal(result)}"}
        return {"ok": True, "outcome": "return", "detail": to_literal(result)}
    if outcome in expected:
        if expected[outcome]:
            return {"ok": True, "outcome": outcome, "detail": str(result)}
        return {"ok": False, "outcome": outcome, "detail": f"raised {outcome}({result}) but the contract's condition for it is false"}
    return {"ok": False, "outcome": outcome, "detail": f"unexpected exception {outcome}({result})\n{tb}"}


def concretise_inputs(info, entry_env, model):
    ensure_repo_on_path()
    c = Concretizer(model)
    out = {}
    for n, v in entry_env.items():
        out[n] = c.value(v)
    return out


def make_self(info, ns):
    """turn the namespace of field values into an object usable as `self` of the real method:
    an instance created without running __init__ (fields set directly)"""
    ensure_repo_on_path()
    clsname = info.qualname.split(".")[0]
    modname = "votekit." + info.relpath[:-3].replace("/", ".")
    mod = importlib.import_module(modname)
    cls = getattr(mod, clsname)
    obj = object.__new__(cls)
    for k, v in vars(ns).items():
        if not k.startswith("__"):
            object.__setattr__(obj, k, v)
    return obj

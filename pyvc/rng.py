"""Demonic models of random primitives (S-RNG); each use is recorded in the ghost call log."""
from __future__ import annotations
import z3
from . import sorts as S
from .sorts import VNum, VSeq, VFunc
from .core import OutOfReach


def r_sample(ex, st, node, args, kw):
    pop = args[0]
    k = kw.get("k", args[1] if len(args) > 1 else None)
    if not isinstance(pop, VSeq) or k is None:
        raise OutOfReach("random.sample shape")
    L = z3.Length(pop.term)
    ex.need(st, z3.And(k.term >= 0, k.term <= L), "ValueError", node, "random.sample: 0 <= k <= len(population)")
    r = z3.Const(S.fresh_name("sample"), pop.term.sort())
    st.facts.append(z3.Length(r) == k.term)
    v = VSeq(r, pop.elem, "list")
    v.sample_of = pop
    ex.ctx.ghost_log.append(("random.sample", f"{ex.relpath}:{node.lineno}"))
    ex.ctx.rng_used = True
    return v


RANDOM = {"sample": VFunc("random.sample", impl=r_sample)}

"""Demonic models of random primitives (S-RNG); each use is recorded in the ghost call log."""
from __future__ import annotations
import z3
from . import sorts as S
from .sorts import VNum, VSeq, VFunc
from .core import OutOfReach


def r_sample(ex, st, node, args, kw):
    pop = args[0]
    k = kw.get("k", args[1] if len(args) > 1 else None)
    if not isinstance(pop, VSeq) or k is None:
        raise OutOfReach("random.sample shape")
    L = z3.Length(pop.term)
    ex.need(st, z3.And(k.term >= 0, k.term <= L), "ValueError", node, "random.sample: 0 <= k <= len(population)")
    r = z3.Const(S.fresh_name("sample"), pop.term.sort())
    st.facts.append(z3.Length(r) == k.term)
    if pop.elem is S.Str:
        # A-LIB: sampling without replacement draws distinct positions: a duplicate-free population gives a duplicate-free sample,
        # every drawn element comes from the population, and a full-size sample lists exactly the population's elements
        from .calls import apply_spec
        from .builtins_model import set_of_seq
        sp = ex.ctx.registry.specs.get("distinct") if ex.ctx.registry else None
        if sp is not None:
            dp = apply_spec(ex, sp, [pop, VNum(L, "int")], st).term
            dr = apply_spec(ex, sp, [VSeq(r, pop.elem, "list"), VNum(z3.Length(r), "int")], st).term
            st.facts.append(z3.Implies(dp, dr))
        st.facts.append(z3.Implies(k.term == L, set_of_seq(ex, st, VSeq(r, pop.elem, "list")).term == set_of_seq(ex, st, pop).term))
        spe = ex.ctx.registry.specs.get("elems") if ex.ctx.registry else None
        if spe is not None:
            er = apply_spec(ex, spe, [VSeq(r, pop.elem, "list"), VNum(z3.Length(r), "int")], st).term
            ep = apply_spec(ex, spe, [pop, VNum(L, "int")], st).term
            st.facts.append(z3.Implies(k.term == L, er == ep))
    v = VSeq(r, pop.elem, "list")
    v.sample_of = pop
    ex.ctx.ghost_log.append(("random.sample", f"{ex.relpath}:{node.lineno}"))
    ex.ctx.rng_used = True
    return v


def r_choices(ex, st, node, args, kw):
    """random.choices(population, weights=w, k=1): demonic choice of one position j with w[j] > 0 (A-LIB: an entry of weight zero is
    never drawn; IndexError on an empty population; ValueError when the number of weights differs or their total is not positive).
    The call-site arguments are checked against the caller contract's `callsite_random_choices(population, weights, ...)` clause."""
    from .calls import apply_spec
    if len(args) != 1 or set(kw) - {"weights", "k"}:
        raise OutOfReach("random.choices shape")
    pop, w, k = args[0], kw.get("weights"), kw.get("k")
    if not isinstance(pop, VSeq) or (w is not None and not isinstance(w, VSeq)):
        raise OutOfReach("random.choices arguments")
    if k is not None and not (z3.is_int_value(z3.simplify(k.term)) and z3.simplify(k.term).as_long() == 1):
        raise OutOfReach("random.choices with k != 1")
    L = z3.Length(pop.term)
    ex.need(st, L > 0, "IndexError", node, "random.choices: empty population")
    j = z3.Int(S.fresh_name("draw"))
    st.facts.append(z3.And(j >= 0, j < L))
    if w is not None:
        ex.need(st, z3.Length(w.term) == L, "ValueError", node, "random.choices: number of weights")
        sp = ex.ctx.registry.specs.get("ssum") if ex.ctx.registry else None
        if sp is not None and w.elem in (S.Real, S.Float):
            tot = apply_spec(ex, sp, [w, VNum(z3.Length(w.term), "int")], st).term
            ex.need(st, tot > 0, "ValueError", node, "random.choices: total of weights must be greater than zero")
        st.facts.append(w.term[j] > 0)
    frame = ex.fn_stack[-1]
    info = frame[1] if len(frame) > 1 else None
    cl = info.clause("callsite_random_choices") if info is not None else None
    if cl is not None:
        from .loops import eval_clause
        from .sorts import NONE
        extra = {"population": pop, "weights": w if w is not None else NONE}
        g = eval_clause(ex, info, cl, st, extra)
        ex.ctx.oblige(st, g, "callsite[random.choices]", f"{ex.relpath}:{node.lineno}", ex.guards)
    ex.ctx.ghost_log.append(("random.choices", f"{ex.relpath}:{node.lineno}"))
    ex.ctx.rng_used = True
    r = z3.Unit(pop.term[j])
    v = VSeq(r, pop.elem, "list")
    st.env["_draw"] = VNum(j, "int")  # ghost: the drawn position (visible to hint clauses)
    return v


RANDOM = {"sample": VFunc("random.sample", impl=r_sample), "choices": VFunc("random.choices", impl=r_choices)}

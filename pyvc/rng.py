"""Demonic models of random primitives (S-RNG); each use is recorded in the ghost call log."""
from __future__ import annotations
import z3
from . import sorts as S
from .sorts import VNum, VSeq, VFunc
from .core import OutOfReach


def r_sample(ex, st, node, args, kw):
    pop = args[0]
    k = kw.get("k", args[1] if len(args) > 1 else None)
    if not isinstance(pop, VSeq) or k is None:
        raise OutOfReach("random.sample shape")
    L = z3.Length(pop.term)
    ex.need(st, z3.And(k.term >= 0, k.term <= L), "ValueError", node, "random.sample: 0 <= k <= len(population)")
    r = z3.Const(S.fresh_name("sample"), pop.term.sort())
    st.facts.append(z3.Length(r) == k.term)
    if pop.elem is S.Str:
        # A-LIB: sampling without replacement draws distinct positions: a duplicate-free population gives a duplicate-free sample,
        # every drawn element comes from the population, and a full-size sample lists exactly the population's elements
        from .calls import apply_spec
        from .builtins_model import set_of_seq
        sp = ex.ctx.registry.specs.get("distinct") if ex.ctx.registry else None
        if sp is not None:
            dp = apply_spec(ex, sp, [pop, VNum(L, "int")], st).term
            dr = apply_spec(ex, sp, [VSeq(r, pop.elem, "list"), VNum(z3.Length(r), "int")], st).term
            st.facts.append(z3.Implies(dp, dr))
        st.facts.append(z3.Implies(k.term == L, set_of_seq(ex, st, VSeq(r, pop.elem, "list")).term == set_of_seq(ex, st, pop).term))
        spe = ex.ctx.registry.specs.get("elems") if ex.ctx.registry else None
        if spe is not None:
            er = apply_spec(ex, spe, [VSeq(r, pop.elem, "list"), VNum(z3.Length(r), "int")], st).term
            ep = apply_spec(ex, spe, [pop, VNum(L, "int")], st).term
            st.facts.append(z3.Implies(k.term == L, er == ep))
    v = VSeq(r, pop.elem, "list")
    v.sample_of = pop
    ex.ctx.ghost_log.append(("random.sample", f"{ex.relpath}:{node.lineno}"))
    ex.ctx.rng_used = True
    return v


RANDOM = {"sample": VFunc("random.sample", impl=r_sample)}

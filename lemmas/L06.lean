import Mathlib.Logic.Relation
import Mathlib.Data.Fintype.Card
import Mathlib.Data.Finset.Card

open Relation Classical

variable {V : Type} [Fintype V] (R : V → V → Prop)

/-- candidates reachable from `a` (including `a`) in the beats-or-ties digraph -/
noncomputable def reachSet (a : V) : Finset V :=
  Finset.univ.filter (fun b => ReflTransGen R a b)

theorem mem_reachSet {a b : V} : b ∈ reachSet R a ↔ ReflTransGen R a b := by
  simp [reachSet]

theorem reach_mono {a b : V} (h : ReflTransGen R a b) : reachSet R b ⊆ reachSet R a := by
  intro c hc
  rw [mem_reachSet] at *
  exact h.trans hc

/-- strictly larger reach set ⇒ strict head-to-head win (tiers are dominating) -/
theorem tier_sep (tot : ∀ a b, a ≠ b → R a b ∨ R b a) {a b : V}
    (hlt : (reachSet R b).card < (reachSet R a).card) : R a b ∧ ¬ R b a := by
  have hnot : ¬ ReflTransGen R b a := by
    intro h
    have := Finset.card_le_card (reach_mono R h)
    omega
  have hne : a ≠ b := by
    rintro rfl
    exact hnot ReflTransGen.refl
  have hba : ¬ R b a := fun h => hnot (ReflTransGen.single h)
  rcases tot a b hne with h | h
  · exact ⟨h, hba⟩
  · exact absurd h hba

/-- equal reach-set size ⇒ mutually reachable (a tier is a strongly connected class) -/
theorem same_tier_mutual (tot : ∀ a b, a ≠ b → R a b ∨ R b a) {a b : V}
    (heq : (reachSet R a).card = (reachSet R b).card) :
    ReflTransGen R a b ∧ ReflTransGen R b a := by
  by_cases hne : a = b
  · subst hne; exact ⟨ReflTransGen.refl, ReflTransGen.refl⟩
  · rcases tot a b hne with h | h
    · have hab : ReflTransGen R a b := ReflTransGen.single h
      have hsub := reach_mono R hab
      have heqs : reachSet R b = reachSet R a :=
        Finset.eq_of_subset_of_card_le hsub (by omega)
      have : a ∈ reachSet R b := by rw [heqs, mem_reachSet]
      exact ⟨hab, (mem_reachSet R).1 this⟩
    · have hba : ReflTransGen R b a := ReflTransGen.single h
      have hsub := reach_mono R hba
      have heqs : reachSet R a = reachSet R b :=
        Finset.eq_of_subset_of_card_le hsub (by omega)
      have : b ∈ reachSet R a := by rw [heqs, mem_reachSet]
      exact ⟨(mem_reachSet R).1 this, hba⟩

/-- a tier cannot be split into X ⊎ Y with every x strictly beating every y -/
theorem tier_not_splittable (tot : ∀ a b, a ≠ b → R a b ∨ R b a)
    (n : ℕ) (X Y : Set V)
    (hX : ∀ x ∈ X, (reachSet R x).card = n) (hY : ∀ y ∈ Y, (reachSet R y).card = n)
    (hcover : ∀ v, (reachSet R v).card = n → v ∈ X ∨ v ∈ Y)
    (hdisj : ∀ v, v ∈ X → v ∉ Y)
    (hbeat : ∀ x ∈ X, ∀ y ∈ Y, ¬ R y x)
    (x y : V) (hx : x ∈ X) (hy : y ∈ Y) : False := by
  have hmut := same_tier_mutual R tot (a := y) (b := x) (by rw [hX x hx, hY y hy])
  -- every vertex on a path from y to x stays in the tier; find the Y→X edge
  have key : ∀ z, ReflTransGen R y z → ReflTransGen R z x → z ∈ Y ∨ ∃ u ∈ Y, ∃ v ∈ X, R u v := by
    intro z hyz
    induction hyz with
    | refl => intro _; exact Or.inl hy
    | @tail u z hyu huz ih =>
      intro hzx
      have hux : ReflTransGen R u x := (ReflTransGen.single huz).trans hzx
      rcases ih hux with huY | hex
      · -- z is in the tier
        have hz_card : (reachSet R z).card = n := by
          have h1 : reachSet R z ⊆ reachSet R y := reach_mono R (hyu.trans (ReflTransGen.single huz))
          have h2 : reachSet R x ⊆ reachSet R z := reach_mono R hzx
          have c1 := Finset.card_le_card h1
          have c2 := Finset.card_le_card h2
          rw [hY y hy] at c1; rw [hX x hx] at c2; omega
        rcases hcover z hz_card with hzX | hzY
        · exact Or.inr ⟨u, huY, z, hzX, huz⟩
        · exact Or.inl hzY
      · exact Or.inr hex
  rcases key x hmut.1 ReflTransGen.refl with hxY | ⟨u, hu, v, hv, huv⟩
  · exact hdisj x hx hxY
  · exact hbeat v hv u hu huv

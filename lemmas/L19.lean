import Mathlib.Analysis.MeanInequalities
import Mathlib.Analysis.SpecialFunctions.Pow.Real

open Finset

variable {ι : Type} (s : Finset ι)

/-- the value `lp_dist` computes for integer p ≥ 1 (reals mode) -/
noncomputable def lpd (p : ℕ) (a b : ι → ℝ) : ℝ := (∑ i ∈ s, |a i - b i| ^ (p : ℝ)) ^ (1 / (p : ℝ))

theorem lpd_symm (p : ℕ) (a b : ι → ℝ) : lpd s p a b = lpd s p b a := by
  unfold lpd
  congr 1
  apply Finset.sum_congr rfl
  intro i _
  rw [abs_sub_comm]

theorem lpd_triangle (p : ℕ) (hp : 1 ≤ p) (a b c : ι → ℝ) :
    lpd s p a c ≤ lpd s p a b + lpd s p b c := by
  unfold lpd
  have h := Real.Lp_add_le s (fun i => a i - b i) (fun i => b i - c i) (p := (p : ℝ)) (by exact_mod_cast hp)
  simpa using h

theorem lpd_eq_zero_iff (p : ℕ) (hp : 1 ≤ p) (a b : ι → ℝ) :
    lpd s p a b = 0 ↔ ∀ i ∈ s, a i = b i := by
  unfold lpd
  have hp0 : (0 : ℝ) < (p : ℝ) := by exact_mod_cast hp
  have hnonneg : ∀ i ∈ s, 0 ≤ |a i - b i| ^ (p : ℝ) := fun i _ => Real.rpow_nonneg (abs_nonneg _) _
  have hsum : 0 ≤ ∑ i ∈ s, |a i - b i| ^ (p : ℝ) := Finset.sum_nonneg hnonneg
  rw [Real.rpow_eq_zero_iff_of_nonneg hsum]
  constructor
  · rintro ⟨h0, _⟩ i hi
    have := (Finset.sum_eq_zero_iff_of_nonneg hnonneg).1 h0 i hi
    rw [Real.rpow_eq_zero_iff_of_nonneg (abs_nonneg _)] at this
    have := this.1
    rw [abs_eq_zero] at this
    linarith
  · intro h
    refine ⟨?_, by positivity⟩
    apply Finset.sum_eq_zero
    intro i hi
    rw [h i hi, sub_self, abs_zero, Real.zero_rpow (ne_of_gt hp0)]

/-- the value `lp_dist` computes for p = 'inf' on a non-empty set of rows (the contract's `attained` upper bound = the maximum) -/
noncomputable def linf (hs : s.Nonempty) (a b : ι → ℝ) : ℝ := s.sup' hs (fun i => |a i - b i|)

theorem linf_symm (hs : s.Nonempty) (a b : ι → ℝ) : linf s hs a b = linf s hs b a := by
  unfold linf
  congr 1
  funext i
  rw [abs_sub_comm]

theorem linf_triangle (hs : s.Nonempty) (a b c : ι → ℝ) :
    linf s hs a c ≤ linf s hs a b + linf s hs b c := by
  unfold linf
  apply Finset.sup'_le
  intro i hi
  have h1 : |a i - b i| ≤ s.sup' hs (fun i => |a i - b i|) := Finset.le_sup' (fun i => |a i - b i|) hi
  have h2 : |b i - c i| ≤ s.sup' hs (fun i => |b i - c i|) := Finset.le_sup' (fun i => |b i - c i|) hi
  have h3 : |a i - c i| ≤ |a i - b i| + |b i - c i| := abs_sub_le (a i) (b i) (c i)
  linarith

theorem linf_eq_zero_iff (hs : s.Nonempty) (a b : ι → ℝ) :
    linf s hs a b = 0 ↔ ∀ i ∈ s, a i = b i := by
  unfold linf
  constructor
  · intro h i hi
    have h1 : |a i - b i| ≤ s.sup' hs (fun i => |a i - b i|) := Finset.le_sup' (fun i => |a i - b i|) hi
    rw [h] at h1
    have h2 : |a i - b i| = 0 := le_antisymm h1 (abs_nonneg _)
    rw [abs_eq_zero] at h2
    linarith
  · intro h
    apply le_antisymm
    · apply Finset.sup'_le
      intro i hi
      rw [h i hi, sub_self, abs_zero]
    · obtain ⟨j, hj⟩ := hs
      have h1 : |a j - b j| ≤ s.sup' ⟨j, hj⟩ (fun i => |a i - b i|) := Finset.le_sup' (fun i => |a i - b i|) hj
      exact le_trans (abs_nonneg _) h1

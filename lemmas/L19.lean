import Mathlib.Analysis.MeanInequalities
import Mathlib.Analysis.SpecialFunctions.Pow.Real

open Finset

variable {ι : Type} (s : Finset ι)

/-- the value `lp_dist` computes for integer p ≥ 1 (reals mode) -/
noncomputable def lpd (p : ℕ) (a b : ι → ℝ) : ℝ := (∑ i ∈ s, |a i - b i| ^ (p : ℝ)) ^ (1 / (p : ℝ))

theorem lpd_symm (p : ℕ) (a b : ι → ℝ) : lpd s p a b = lpd s p b a := by
  unfold lpd
  congr 1
  apply Finset.sum_congr rfl
  intro i _
  rw [abs_sub_comm]

theorem lpd_triangle (p : ℕ) (hp : 1 ≤ p) (a b c : ι → ℝ) :
    lpd s p a c ≤ lpd s p a b + lpd s p b c := by
  unfold lpd
  have h := Real.Lp_add_le s (fun i => a i - b i) (fun i => b i - c i) (p := (p : ℝ)) (by exact_mod_cast hp)
  simpa using h

theorem lpd_eq_zero_iff (p : ℕ) (hp : 1 ≤ p) (a b : ι → ℝ) :
    lpd s p a b = 0 ↔ ∀ i ∈ s, a i = b i := by
  unfold lpd
  have hp0 : (0 : ℝ) < (p : ℝ) := by exact_mod_cast hp
  have hnonneg : ∀ i ∈ s, 0 ≤ |a i - b i| ^ (p : ℝ) := fun i _ => Real.rpow_nonneg (abs_nonneg _) _
  have hsum : 0 ≤ ∑ i ∈ s, |a i - b i| ^ (p : ℝ) := Finset.sum_nonneg hnonneg
  rw [Real.rpow_eq_zero_iff_of_nonneg hsum]
  constructor
  · rintro ⟨h0, _⟩ i hi
    have := (Finset.sum_eq_zero_iff_of_nonneg hnonneg).1 h0 i hi
    rw [Real.rpow_eq_zero_iff_of_nonneg (abs_nonneg _)] at this
    have := this.1
    rw [abs_eq_zero] at this
    linarith
  · intro h
    refine ⟨?_, by positivity⟩
    apply Finset.sum_eq_zero
    intro i hi
    rw [h i hi, sub_self, abs_zero, Real.zero_rpow (ne_of_gt hp0)]

#!/bin/bash
# Offline setup: overlay venv (python 3.12 of /venv + verification wheels), solver sanity.
set -euo pipefail
cd "$(dirname "$0")"
V=/verif/.venv
if [ ! -x "$V/bin/python" ] || ! "$V/bin/python" -c "import z3, jsonschema" 2>/dev/null; then
  rm -rf "$V"
  /venv/bin/python -m venv --without-pip "$V"
  SP="$V/lib/python3.12/site-packages"
  echo "import site; site.addsitedir('/venv/lib/python3.12/site-packages')" > "$SP/_base.pth"
  PIP_NO_INDEX=1 /venv/bin/python -m pip install -q --no-index --find-links /opt/veriftools/wheels \
     --target "$SP" z3-solver cvc5 jsonschema hypothesis crosshair-tool icontract deal 2>&1 | tail -2 || true
fi
"$V/bin/python" - <<'PY'
import z3, jsonschema, sys
print("z3", z3.get_version_string())
PY
for s in /usr/bin/cvc5 z3-new /usr/bin/z3; do command -v $s >/dev/null && echo "solver ok: $s"; done
mkdir -p evidence replays
echo "setup done"

#!/usr/bin/env python3
"""dev helper: run one bounded module and print a summary: tools/brun.py C01 [quick|thorough]"""
import sys, time, importlib
sys.path.insert(0, '/verif')
from pyvc import replay as R
R.ensure_repo_on_path()
mod = importlib.import_module('bounded.' + sys.argv[1])
t = time.time()
r = mod.run(sys.argv[2] if len(sys.argv) > 2 else 'quick', 0)
print(round(time.time() - t, 1), {k: v for k, v in r.items() if k not in ('violations', 'samples', 'rule', 'assumptions')})
for v in r['violations'][:60]:
    print(v['key'], '|', v['what'][:int(sys.argv[3]) if len(sys.argv) > 3 else 260])

#!/usr/bin/env python3
"""Regenerate MANIFEST.json from the table below + what exists in /verif (contracts, bounded modules)."""
import glob
import json
import os
import re
import sys

ROOT = os.path.dirname(os.path.dirname(os.path.abspath(__file__)))
BASE = json.load(open("/root/.vp/BASELINE.json"))

# property -> (category, technique, level text, level note, design ref)
TABLE = {}


def P(pid, cat, technique, text, note, ref):
    TABLE[pid] = dict(cat=cat, technique=technique, text=text, note=note, ref=ref)


COMMON_NOTE = ("Trusted: the PyVC VC generator (/verif/pyvc, re-reads /repo/src with ast on every run), SMT solvers "
               "(z3 5.1, cvc5 1.0.3, z3 4.8), Python-semantics assumptions S-INT..S-ALIAS (DESIGN 2.2), pydantic glue (A-PYD), "
               "library primitive contracts (A-LIB). Bounded tiers are labelled bounded and never counted as proved.")

NOT_BUILT = "check not built yet in this session (see DESIGN.md section 8)"


def existing():
    have_c = set()
    for f in glob.glob(os.path.join(ROOT, "contracts", "*.py")):
        for m in re.finditer(r"props=\(([^)]*)\)", open(f).read()):
            for p in re.findall(r"C\d\d", m.group(1)):
                have_c.add(p)
    have_b = {os.path.basename(f)[:-3] for f in glob.glob(os.path.join(ROOT, "bounded", "C*.py"))}
    return have_c, have_b


def main():
    sys.path.insert(0, ROOT)
    from tools.props_table import fill
    fill(P)
    have_c, have_b = existing()
    props = [json.loads(l) for l in open(os.path.join(ROOT, "properties.jsonl"))]
    checks, na = [], []
    na_reasons = {}
    try:
        from tools.props_table import NOT_APPLICABLE
        na_reasons = NOT_APPLICABLE
    except ImportError:
        pass
    for p in props:
        pid = p["id"]
        if pid in na_reasons:
            na.append({"property_id": pid, "reason": na_reasons[pid]})
            continue
        if pid not in have_c and pid not in have_b or pid not in TABLE:
            na.append({"property_id": pid, "reason": NOT_BUILT})
            continue
        t = TABLE[pid]
        checks.append({
            "property_id": pid,
            "quick_cmd": f"./check {pid} --tier quick",
            "thorough_cmd": f"./check {pid} --tier thorough",
            "evidence_file": f"/verif/evidence/{pid}.json",
            "replay_cmd_template": f"./check {pid} --replay {{path}}",
            "engine": "pyvc",
            "level_claimed": {"category": t["cat"], "text": t["text"], "design_ref": t["ref"]},
            "level_note": t["note"] + " " + COMMON_NOTE,
            "technique": t["technique"],
        })
    man = {
        "version": 1,
        "setup_cmd": "./setup.sh",
        "hooks": {
            "guard": "VOTEKIT_VERIF",
            "enable": "none needed: contracts are sidecar files under /verif; checks read $VERIF_REPO/src (default /repo/src) "
                      "and execute it with PYTHONPATH=$VERIF_REPO/src:/verif/stubs",
            "baseline_off_cmd": BASE["cmd"].replace("--junitxml=<file>", "").strip(),
            "source_commits": [],
            "add_only": True,
        },
        "engines": [
            {"name": "pyvc", "path": "/verif/pyvc", "serves_properties": sorted(c["property_id"] for c in checks),
             "kind_free_text": "contract-based deductive verifier for a Python subset: symbolic execution of the real AST -> SMT-LIB VCs -> z3/cvc5 portfolio; sidecar contracts in /verif/contracts, spec functions and SMT lemmas in /verif/specs"},
            {"name": "bounded", "path": "/verif/bounded", "serves_properties": sorted(have_b),
             "kind_free_text": "bounded stand-in: run-time evaluation of the same contracts / property oracles on the real code over small-scope exhaustive inputs (labelled bounded, never counted as proved)"},
            {"name": "lean-lemmas", "path": "/verif/lemmas", "serves_properties": ["C06", "C19"],
             "kind_free_text": "Lean 4 + Mathlib lemmas over the spec functions the contracts are stated in (L06: reach-size tiers are the dominating tiers; L19: metric axioms of the p-norm distance); re-elaborated by `lean` on every run of the property's check, scanned for sorry/axiom"},
        ],
        "checks": checks,
        "not_applicable": na,
        "notes": "See DESIGN.md. Exit codes of ./check: 0 held, 1 violation (VIOLATION line), 2 undecided, 3 checker defect.",
    }
    from jsonschema import validate
    validate(man, json.load(open("/root/.vp/MANIFEST.schema.json")))
    json.dump(man, open(os.path.join(ROOT, "MANIFEST.json"), "w"), indent=1)
    print(f"MANIFEST: {len(checks)} checks, {len(na)} not applicable/not built")


if __name__ == "__main__":
    main()

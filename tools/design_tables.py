#!/usr/bin/env python3
"""Regenerate the seeded-defect table of DESIGN.md from seeded/*/meta.json and seeded/RESULTS.json"""
import json, os, re
ROOT = os.path.dirname(os.path.dirname(os.path.abspath(__file__)))
res = json.load(open(os.path.join(ROOT, "seeded", "RESULTS.json"))) if os.path.exists(os.path.join(ROOT, "seeded", "RESULTS.json")) else {}
first = json.load(open(os.path.join(ROOT, "seeded", "FIRST_RUN.json"))) if os.path.exists(os.path.join(ROOT, "seeded", "FIRST_RUN.json")) else {}
rows = ["| id | change (summary) | needs to manifest | first run | caught by now (quick tier) | how |", "|---|---|---|---|---|---|"]


def first_cell(sid, prop):
    c = first.get(sid, {}).get("checks", {}).get(prop)
    if not isinstance(c, dict):
        return "-"
    return {0: "missed", 1: "caught", 2: "undecided", 3: "checker crash"}.get(c.get("exit"), str(c.get("exit")))


n_det = n = 0
for sid in sorted(d for d in os.listdir(os.path.join(ROOT, "seeded")) if os.path.isdir(os.path.join(ROOT, "seeded", d))):
    m = json.load(open(os.path.join(ROOT, "seeded", sid, "meta.json")))
    r = res.get(sid, {}).get("checks", {})
    caught = [p for p, c in r.items() if isinstance(c, dict) and c.get("exit") == 1]
    und = [p for p, c in r.items() if isinstance(c, dict) and c.get("exit") == 2]
    how = ""
    for p in caught:
        how = r[p].get("detail", "").replace("violated:", "").strip()[:110].replace("|", "/")
    n += 1
    n_det += bool(caught)
    n_own = globals().get("n_own", 0) + (m.get("property") in caught)
    globals()["n_own"] = n_own
    rows.append(f"| {sid} | {m.get('summary', '')[:150].replace('|', '/')} | {m.get('needs', '')[:130].replace('|', '/')} | {first_cell(sid, m.get('property'))} | "
                f"{', '.join(caught) if caught else ('undecided (exit 2): ' + ', '.join(und) if und else '**missed**')} | {how} |")
rows.append("")
rows.append(f"{globals().get('n_own', 0)} of {n} seeded changes are caught by the quick check of the property they were written for, "
            f"{n_det} of {n} by some registered quick check (C07-3 is reported by C03's check, C16-r3.2 and C16-r3.3 by C14's, C01-r5.2 by C05's).")
p = os.path.join(ROOT, "DESIGN.md")
s = open(p).read()
s = re.sub(r"<!-- SEEDED-TABLE-BEGIN -->.*<!-- SEEDED-TABLE-END -->", "<!-- SEEDED-TABLE-BEGIN -->\n" + "\n".join(rows) + "\n<!-- SEEDED-TABLE-END -->", s, flags=re.S)
open(p, "w").write(s)
print(n_det, "/", n)

#!/usr/bin/env python3
"""Regenerate the per-property 'what is proved / what is bounded' table of DESIGN.md from the evidence files of the last run on /repo."""
import json, os, re
ROOT = os.path.dirname(os.path.dirname(os.path.abspath(__file__)))
man = json.load(open(os.path.join(ROOT, "MANIFEST.json")))
rows = ["| property | level | functions under discharged contracts (obligations) | lemma obligations | bounded evaluations (distinct non-trivial) | known findings |",
        "|---|---|---|---|---|---|"]
tot_f = set()
tot_o = 0
for c in man["checks"]:
    pid = c["property_id"]
    ev = json.load(open(os.path.join(ROOT, "evidence", f"{pid}.json")))
    cov = ev["coverage"]
    fs = []
    for f in cov.get("functions_under_contract", []):
        nm = f["function"].split(":")[-1]
        fs.append(f"`{nm}` ({f['discharged']}/{f['obligations']})")
        tot_f.add(f["function"])
    tot_o += cov.get("discharged", 0)
    rows.append(f"| {pid} | {c['level_claimed']['category']} | {', '.join(fs) if fs else '-'} | {cov.get('lemma_obligations', 0)} | "
                f"{cov.get('evaluations', 0)} ({cov.get('distinct_nontrivial', 0)}) | {', '.join(cov.get('known_findings', [])) or '-'} |")
rows.append("")
rows.append(f"{len(tot_f)} distinct functions under discharged contracts; obligations not discharged in a row are per-path covers left open by the solvers "
            f"or dead paths (informational, listed in the evidence files), never proof obligations.")
p = os.path.join(ROOT, "DESIGN.md")
s = open(p).read()
block = "<!-- CLAIMS-TABLE-BEGIN -->\n" + "\n".join(rows) + "\n<!-- CLAIMS-TABLE-END -->"
if "<!-- CLAIMS-TABLE-BEGIN -->" in s:
    s = re.sub(r"<!-- CLAIMS-TABLE-BEGIN -->.*<!-- CLAIMS-TABLE-END -->", lambda m: block, s, flags=re.S)
else:
    s = s.replace("### Functions newly under discharged contracts", "### Claims at a glance (generated from the evidence of the last run on /repo by tools/claims_table.py)\n\n" + block + "\n\n### Functions newly under discharged contracts", 1)
open(p, "w").write(s)
print(len(tot_f), "functions")

#!/bin/bash
# tools/seed_try.sh <seed-id> <property> [tier]  -- run one check against one seeded defect on a scratch copy (no RESULTS update)
T=$(mktemp -d /tmp/seedtry.XXXX); git -C /repo archive HEAD src | tar x -C $T
(cd $T && patch -p1 -s -i /verif/seeded/$1/patch.diff) || { echo "patch failed"; rm -rf $T; exit 9; }
VERIF_REPO=$T VERIF_EVIDENCE_DIR=$T/ev /verif/check $2 --tier ${3:-quick} 2>&1 | grep -E "^\[|VIOLATION|violated|UNDECIDED|CHECKER" | head -${4:-6}
echo "exit=${PIPESTATUS[0]}"
rm -rf $T

#!/usr/bin/env python3
"""dev helper: run the native witnesses of every contract (or of the contracts of one module): tools/wit.py [contracts.xyz_c]"""
import sys, os
sys.path.insert(0, os.path.dirname(os.path.dirname(os.path.abspath(__file__))))
from checker.main import load_contracts
from pyvc import replay as R
R.ensure_repo_on_path()
reg = load_contracts()
seen = set()
for i in reg.contracts.values():
    if id(i) in seen or not getattr(i.cls, "witnesses", None) or (len(sys.argv) > 1 and i.cls.__module__ != sys.argv[1]):
        continue
    seen.add(id(i))
    for kw in i.cls.witnesses():
        res = R.native_check(i, kw)
        print(i.name, res["ok"], res["outcome"], res["detail"][:160].replace("\n", " "))

#!/bin/bash
# tools/run_all.sh <tier> [parallel]  -- run every registered check of MANIFEST.json on /repo, <parallel> at a time; summary on stdout
TIER=${1:-quick}; PAR=${2:-1}; OUT=$(mktemp -d /tmp/runall.XXXX)
cd "$(dirname "$0")/.."
printf '%s\n' C01 C02 C03 C04 C05 C06 C07 C08 C09 C10 C11 C12 C13 C14 C15 C16 C17 C18 C19 C20 | xargs -P "$PAR" -I{} sh -c "./check {} --tier $TIER > $OUT/{}.log 2>&1; echo \"{} exit=\$?\" >> $OUT/summary.txt"
sort $OUT/summary.txt; echo "logs: $OUT"

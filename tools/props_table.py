"""Per-property claims for MANIFEST.json (levels, technique, notes)."""

NOT_APPLICABLE = {}


def fill(P):
    P("C20", "other",
      "contract-based deductive verification (raises-iff tables on the real validators/constructors, SMT-discharged) + bounded run-time contract checks",
      "Exceptional postconditions `raises E iff cond` of the real validator/constructor bodies are generated from the current AST and "
      "discharged for all inputs; entry points outside the verifier's reach are covered only by a bounded boundary-input check (labelled bounded).",
      "Functions outside the Python subset (pandas/numpy based) are bounded only.", "DESIGN.md 4-C20")
    P("C02", "other",
      "contract-based deductive verification of the STV step kernel (threshold, transfer, election/elimination branches) + bounded round-by-round audit",
      "get_threshold / transfer / step-branch contracts are discharged by SMT for all inputs; the whole-count audit of every round against an "
      "independent statement of the rules is a bounded small-scope exhaustive run of the real code.",
      "", "DESIGN.md 4-C02")
    P("C04", "other",
      "contract-based deductive verification (validate_score_vector, scoring loops, elect_cands_from_set_ranking) + bounded exact-arithmetic oracle",
      "Loop-invariant contracts on the scoring utilities discharged by SMT; exact positional-score oracle evaluated on small-scope exhaustive profiles (bounded).",
      "", "DESIGN.md 4-C04")

    P("C05", "other",
      "contract-based deductive verification (GeneralRating constructor/validator raises-iff tables, subclass delegation, score totals loop, elect_cands_from_set_ranking) + bounded run-time contract checks",
      "Validator loop proved with a forall-ballots invariant (every ballot, exact boundaries); constructor tables proved against the assumed abstract contract of Election.__init__; "
      "score totals and top-m election via the proved utils contracts; whole elections on small score profiles are a bounded check.",
      "Election.__init__ and PreferenceProfile(...) are assumed contracts (listed in trusted_base).", "DESIGN.md 4-C05")

    P("C01", "other",
      "contract-based deductive verification of the seat-filling kernel (elect_cands_from_set_ranking: exactly m, ValueError iff unbroken straddling tie; constructor tables) + bounded run-time audit of every rule",
      "The shared top-m kernel and the constructors' exception tables are proved for all inputs; termination / exactly-m / partition-per-round of "
      "whole counts of all 18 rules is a bounded small-scope exhaustive audit of the real code (labelled bounded).",
      "Election._run_election is an assumed abstract contract inside constructor proofs; whole-run properties are bounded only.", "DESIGN.md 4-C01")
    P("C03", "other",
      "contract-based deductive verification of STV threshold arithmetic + bounded per-content audit of both transfer functions over every draw",
      "Droop bound proved; the per-content weight equations of fractional_transfer / random_transfer (every draw enumerated through a scripted random.sample) and "
      "round-to-round conservation are audited on small-scope exhaustive inputs (bounded).",
      "", "DESIGN.md 4-C03")
    P("C06", "exploration",
      "bounded run-time contract check (pairwise margins by definition, tiers by brute-force minimal dominating sets)",
      "No function of C06 is under a discharged contract yet; bounded exhaustive/sampled audit only.", "networkx reachability trusted.", "DESIGN.md 4-C06")
    P("C11", "exploration",
      "bounded run-time contract check of Ballot/PreferenceProfile (all orders of <=3 ballots from 12 contents)",
      "Bounded only at present.", "", "DESIGN.md 4-C11")
    P("C12", "exploration",
      "bounded run-time contract check of the ballot-editing utilities (pushforward of the weight view)",
      "Bounded only at present.", "", "DESIGN.md 4-C12")

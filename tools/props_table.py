"""Per-property claims for MANIFEST.json (levels, technique, notes)."""

NOT_APPLICABLE = {}


def fill(P):
    P("C20", "other",
      "contract-based deductive verification (raises-iff tables on the real validators/constructors, SMT-discharged) + bounded run-time contract checks",
      "Exceptional postconditions `raises E iff cond` of the real validator/constructor bodies are generated from the current AST and "
      "discharged for all inputs; entry points outside the verifier's reach are covered only by a bounded boundary-input check (labelled bounded).",
      "Functions outside the Python subset (pandas/numpy based) are bounded only.", "DESIGN.md 4-C20")
    P("C02", "other",
      "contract-based deductive verification of the STV step kernel (threshold, transfer, election/elimination branches) + bounded round-by-round audit",
      "get_threshold / transfer / step-branch contracts are discharged by SMT for all inputs; the whole-count audit of every round against an "
      "independent statement of the rules is a bounded small-scope exhaustive run of the real code.",
      "", "DESIGN.md 4-C02")
    P("C04", "other",
      "contract-based deductive verification (validate_score_vector, scoring loops, elect_cands_from_set_ranking) + bounded exact-arithmetic oracle",
      "Loop-invariant contracts on the scoring utilities discharged by SMT; exact positional-score oracle evaluated on small-scope exhaustive profiles (bounded).",
      "", "DESIGN.md 4-C04")

    P("C05", "other",
      "contract-based deductive verification (GeneralRating constructor/validator raises-iff tables, subclass delegation, score totals loop, elect_cands_from_set_ranking) + bounded run-time contract checks",
      "Validator loop proved with a forall-ballots invariant (every ballot, exact boundaries); constructor tables proved against the assumed abstract contract of Election.__init__; "
      "score totals and top-m election via the proved utils contracts; whole elections on small score profiles are a bounded check.",
      "Election.__init__ and PreferenceProfile(...) are assumed contracts (listed in trusted_base).", "DESIGN.md 4-C05")

    P("C01", "other",
      "contract-based deductive verification of the seat-filling kernel (elect_cands_from_set_ranking: exactly m, ValueError iff unbroken straddling tie; constructor tables) + bounded run-time audit of every rule",
      "The shared top-m kernel and the constructors' exception tables are proved for all inputs; termination / exactly-m / partition-per-round of "
      "whole counts of all 18 rules is a bounded small-scope exhaustive audit of the real code (labelled bounded).",
      "Election._run_election is an assumed abstract contract inside constructor proofs; whole-run properties are bounded only.", "DESIGN.md 4-C01")
    P("C03", "other",
      "contract-based deductive verification of STV threshold arithmetic + bounded per-content audit of both transfer functions over every draw",
      "Droop bound proved; the per-content weight equations of fractional_transfer / random_transfer (every draw enumerated through a scripted random.sample) and "
      "round-to-round conservation are audited on small-scope exhaustive inputs (bounded).",
      "", "DESIGN.md 4-C03")
    P("C06", "exploration",
      "bounded run-time contract check (pairwise margins by definition, tiers by brute-force minimal dominating sets)",
      "No function of C06 is under a discharged contract yet; bounded exhaustive/sampled audit only.", "networkx reachability trusted.", "DESIGN.md 4-C06")
    P("C11", "exploration",
      "bounded run-time contract check of Ballot/PreferenceProfile (all orders of <=3 ballots from 12 contents)",
      "Bounded only at present.", "", "DESIGN.md 4-C11")
    P("C12", "exploration",
      "bounded run-time contract check of the ballot-editing utilities (pushforward of the weight view)",
      "Bounded only at present.", "", "DESIGN.md 4-C12")

    B = "bounded run-time contract check of the real code (B-SSE), labelled bounded, never counted as proved"
    P("C07", "exploration", "bounded exhaustive evaluation of the solid-coalition axiom on real STV counts (lemma over contracts not finished)",
      "The axiom is evaluated from the input profile only, for every coalition, on small-scope exhaustive profiles.", "Lemma L07 over the C02/C03 contracts is not finished: no proof part.", "DESIGN.md 4-C07")
    P("C08", "exploration", "bounded relational execution (renaming / reordering / splitting / candidate order / PYTHONHASHSEED subprocesses)",
      "Relational check over representation variants and hash seeds on small-scope exhaustive profiles.", "", "DESIGN.md 4-C08")
    P("C09", "exploration", "bounded query-history check on finished elections of every rule", "Replay vs records, index rules and purity over 12-query histories.", "", "DESIGN.md 4-C09")
    P("C10", "other", "contract-based deductive verification of the tie-straddle kernel (elect_cands_from_set_ranking records a tiebreak iff a set straddles the last seat) + bounded multi-seed audit of recorded tiebreaks",
      "The kernel's contract is proved; whole elections are audited under 4 seeds (bounded).", "tiebreak_set's own body is out of the verifier's reach (sorted/dict-of-lists): bounded only.", "DESIGN.md 4-C10")
    P("C13", "other", "contract-based deductive verification of the alias constructors (delegation with the documented arguments, class defines nothing else) + bounded differential check against separately built components",
      "IRV/SNTV/SequentialRCV constructor delegation and class-frame obligations are discharged; TopTwo/Alaska composition is a bounded differential check.", "", "DESIGN.md 4-C13")
    P("C14", "exploration", "bounded structural audit of every generator on a parameter grid", B, "apportionment package assumed to be Huntington-Hill (A-APP).", "DESIGN.md 4-C14")
    P("C15", "exploration", "bounded entry-by-entry comparison of the probability tables with the defining formulas in exact rationals", B, "floats compared up to 1e-9 relative.", "DESIGN.md 4-C15")
    P("C16", "exploration", "bounded call-site audit of the RNG draws, exact Metropolis acceptance probes, scripted cohesion sampler, spatial rankings recomputed",
      B + "; mixing of finite MCMC runs and Dirichlet-driven constructors are not decidable (not covered)", "numpy/random primitives' laws assumed (A-LIB).", "DESIGN.md 4-C16")
    P("C17", "exploration", "bounded exact-law execution (choice-tree exploration of the real step with scripted RNG primitives)", B, "primitives' laws assumed (A-LIB).", "DESIGN.md 4-C17")
    P("C18", "exploration", "bounded check of the loaders on generated files (no contract within reach: the property is about pandas/csv behaviour)", B, "", "DESIGN.md 4-C18")
    P("C19", "exploration", "bounded comparison of lp_dist with the p-norm definition and the metric axioms on sampled triples; ballot graph vs definition for n<=5", B, "Lean lemma L19 not yet wired in.", "DESIGN.md 4-C19")

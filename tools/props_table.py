"""Per-property claims for MANIFEST.json (levels, technique, notes)."""

NOT_APPLICABLE = {}


def fill(P):
    P("C20", "other",
      "contract-based deductive verification (raises-iff tables on the real validators/constructors, SMT-discharged) + bounded run-time contract checks",
      "Exceptional postconditions `raises E iff cond` of the real validator/constructor bodies are generated from the current AST and "
      "discharged for all inputs; entry points outside the verifier's reach are covered only by a bounded boundary-input check (labelled bounded).",
      "Functions outside the Python subset (pandas/numpy based) are bounded only.", "DESIGN.md 4-C20")
    P("C02", "other",
      "contract-based deductive verification of the STV step kernel (threshold, transfer, election/elimination branches) + bounded round-by-round audit",
      "get_threshold / transfer / step-branch contracts are discharged by SMT for all inputs; the whole-count audit of every round against an "
      "independent statement of the rules is a bounded small-scope exhaustive run of the real code.",
      "", "DESIGN.md 4-C02")
    P("C04", "other",
      "contract-based deductive verification (validate_score_vector, scoring loops, elect_cands_from_set_ranking) + bounded exact-arithmetic oracle",
      "Loop-invariant contracts on the scoring utilities discharged by SMT; exact positional-score oracle evaluated on small-scope exhaustive profiles (bounded).",
      "", "DESIGN.md 4-C04")

    P("C05", "other",
      "contract-based deductive verification (GeneralRating constructor/validator raises-iff tables, subclass delegation, score totals loop, elect_cands_from_set_ranking) + bounded run-time contract checks",
      "Validator loop proved with a forall-ballots invariant (every ballot, exact boundaries); constructor tables proved against the assumed abstract contract of Election.__init__; "
      "score totals and top-m election via the proved utils contracts; whole elections on small score profiles are a bounded check.",
      "Election.__init__ and PreferenceProfile(...) are assumed contracts (listed in trusted_base).", "DESIGN.md 4-C05")

"""Per-property claims for MANIFEST.json (levels, technique, notes)."""

NOT_APPLICABLE = {}


def fill(P):
    P("C20", "other",
      "contract-based deductive verification (raises-iff tables on the real validators/constructors, SMT-discharged) + bounded run-time contract checks",
      "Exceptional postconditions `raises E iff cond` of the real validator/constructor bodies are generated from the current AST and "
      "discharged for all inputs; entry points outside the verifier's reach are covered only by a bounded boundary-input check (labelled bounded).",
      "Functions outside the Python subset (pandas/numpy based) are bounded only.", "DESIGN.md 4-C20")
    P("C02", "other",
      "contract-based deductive verification of the STV step kernel (threshold, transfer, election/elimination branches) + bounded round-by-round audit",
      "get_threshold / transfer / step-branch contracts are discharged by SMT for all inputs; the whole-count audit of every round against an "
      "independent statement of the rules is a bounded small-scope exhaustive run of the real code.",
      "", "DESIGN.md 4-C02")
    P("C04", "other",
      "contract-based deductive verification (validate_score_vector, score_profile_from_rankings with its three nested loops, add_missing_cands, condense_ballots, mentions, elect_cands_from_set_ranking, Plurality/Borda._run_step) + bounded exact-arithmetic oracle",
      "score_profile_from_rankings is proved for all profiles and exact score vectors: each candidate's score = sum over ballots of weight x the average of the zero-padded vector over its (tied) position, on the ballots completed by add_missing_cands "
      "(proved) and condensed (proved: every additive per-ranking functional is preserved); first_place_votes / borda_scores are proved as the positional scores for (1,0,...,0) / (n,n-1,...,1); Plurality/Borda._run_step are proved against the callee contracts; "
      "to_float mode and score_dict_to_ranking (sorted) are covered by the bounded exact-arithmetic oracle only.",
      "first_place_votes / score_dict_to_ranking stay assumed contracts inside the step proofs (opaque fpv_of / ranking_of); PreferenceProfile(...) assumed (A-PYD).", "DESIGN.md 4-C04, 8.2")

    P("C05", "other",
      "contract-based deductive verification (GeneralRating constructor/validator raises-iff tables, subclass delegation, score_profile_from_ballot_scores totals loop, GeneralRating._run_step, elect_cands_from_set_ranking) + bounded run-time contract checks",
      "Validator loop proved with a forall-ballots invariant (every ballot, exact boundaries); score_profile_from_ballot_scores proved: every candidate's total = sum of weight x score, TypeError iff a ballot has no score card; "
      "the single round (top m of the previous ranking, tie recorded with a strict order, ValueError iff unbreakable) proved against the proved kernel; whole elections on small score profiles are a bounded check.",
      "PreferenceProfile(...) is an assumed contract; GeneralRating's whole run (Election._run_election: terminates, two states, exactly m elected) is proved separately (8.3), inside the constructor proofs it is still the assumed abstract contract.", "DESIGN.md 4-C05, 8.2, 8.3")

    P("C01", "other",
      "contract-based deductive verification of the seat-filling kernel (elect_cands_from_set_ranking), the rounds (_run_step of Plurality/Borda/GeneralRating/STV/RandomDictator/DominatingSets/CondoBorda) and the WHOLE RUN (Election._run_election with the receiver's _is_finished/_run_step: loop invariant + variant) of Plurality/SNTV, Borda, GeneralRating and DominatingSets + bounded run-time audit of every rule",
      "For Plurality/SNTV, Borda, GeneralRating and DominatingSets the run is proved for all profiles: the while loop terminates (variant), exactly two states, the last one electing exactly m candidates (the top tier for DominatingSets), ValueError exactly on an out-of-range m or an unbreakable tie at the last seat; "
      "the shared top-m kernel, the rounds of STV/RandomDictator/CondoBorda and the constructors' exception tables are proved for all inputs; termination / exactly-m / partition-per-round of "
      "the multi-round rules (STV family, TopTwo, Alaska, RandomDictator family, PluralityVeto) is a bounded small-scope exhaustive audit of the real code (labelled bounded).",
      "Inside the constructor proofs Election._run_election is still the assumed abstract contract; score_dict_to_ranking, the score functions (A-PUREFN) and the pairwise-comparison-graph object are assumed callee contracts of the run proofs.", "DESIGN.md 4-C01, 8.3")
    P("C03", "other",
      "contract-based deductive verification of fractional_transfer (per-ranking weight equation for all inputs), remove_cand, condense_ballots and the STV threshold arithmetic + bounded per-content audit of both transfer functions over every draw",
      "fractional_transfer: for every ranking k the transferred weight on k equals the definition (w*(tally-T)/tally on winner-led ballots, w elsewhere); Droop bound proved; random_transfer (every draw enumerated through a scripted random.sample) and "
      "round-to-round conservation are audited on small-scope exhaustive inputs (bounded).",
      "", "DESIGN.md 4-C03")
    P("C06", "other",
      "contract-based deductive verification of head2head_count, DominatingSets._run_step / whole run and CondoBorda._run_step against assumed contracts of the graph object + Lean 4/Mathlib lemma L06 (reach-size tiers are the dominating tiers) + bounded run-time contract check (margins by definition, tiers by brute-force minimal dominating sets)",
      "head2head_count is proved for all profiles (total weight of the ballots whose first position listing either candidate lists cand1); DominatingSets is proved to elect exactly the first tier that dominating_tiers() returns and to keep the other tiers in order (round and whole run, loop termination), "
      "CondoBorda to take whole tiers in order and to resolve a straddling tier by a recorded strict order of exactly that tier; Lean lemma L06 proves that tiers by reach-set size in a total beats-or-ties digraph are dominating, unsplittable, top = Smith set. "
      "compute_pairwise_dict (tuple-keyed dict, max over zip), ballot_fill (itertools.permutations) and dominating_tiers itself (networkx, dict of sets) are outside the verifier's subset: assumed contracts in the proofs, bounded exhaustive/sampled audit only.",
      "networkx reachability trusted; PairwiseComparisonGraph(...) and dominating_tiers() are assumed contracts (opaque filled / tiers_of).", "DESIGN.md 4-C06, 8.2, 8.3")
    P("C11", "other",
      "contract-based deductive verification of Ballot.__eq__ and PreferenceProfile.condense_ballots (dict keyed by Ballot modelled as ordered key/value sequences looked up through the proved __eq__) + bounded run-time contract check",
      "condense_ballots is proved for all profiles: per (ranking, scores) content the written ballots carry exactly the input weight, written ballots are pairwise distinct in content, candidates kept; Ballot.__eq__ is characterised exactly; "
      "PreferenceProfile.__eq__ is proved sound (profiles that compare equal give every content the same weight), __add__ additive per content, to_ballot_dict / to_ranking_dict give every content / ranking its total weight. "
      "Validators / frozen-ness / derived fields are pydantic-mediated, completeness of == (equal weights => equal) is bounded: check over all orders of <=3 ballots from 12 contents.",
      "PreferenceProfile(...) constructor is an assumed contract (A-PYD); idempotence and order-independence of condensing are bounded (they follow mathematically from the proved clauses, no machine-checked lemma).", "DESIGN.md 4-C11, 8.2")
    P("C12", "other",
      "contract-based deductive verification of remove_cand (list and str argument, on profiles and on ballot tuples), add_missing_cands, cleaning.remove_empty_ballots and condense_ballots + bounded run-time contract check of all editing utilities",
      "remove_cand / add_missing_cands are proved as weight-preserving pushforwards: for every ranking k the result carries exactly the weight of the input ballots whose edited ranking is k; "
      "the single-ballot form of remove_cand, the other cleaning functions (map / groupby / reduce) and expand_tied_ballot (itertools.permutations) are bounded only.", "", "DESIGN.md 4-C12, 8.2")

    B = "bounded run-time contract check of the real code (B-SSE), labelled bounded, never counted as proved"
    P("C07", "exploration", "bounded exhaustive evaluation of the solid-coalition axiom on real STV counts (lemma over contracts not finished)",
      "The axiom is evaluated from the input profile only, for every coalition, on small-scope exhaustive profiles.", "Lemma L07 over the C02/C03 contracts is not finished: no proof part.", "DESIGN.md 4-C07")
    P("C08", "exploration", "bounded relational execution (renaming / reordering / splitting / candidate order / PYTHONHASHSEED subprocesses)",
      "Relational check over representation variants and hash seeds on small-scope exhaustive profiles.", "", "DESIGN.md 4-C08")
    P("C09", "other", "contract-based deductive verification of the round getters (get_elected/get_eliminated/get_remaining/get_ranking/get_profile/get_step) and per-rule frame obligations + bounded query-history check on finished elections of every rule",
      "Getter results equal the concatenation specs over the recorded rounds, IndexError iff out of range, no store to self; every rule's _run_step stores nothing unless store_states (effect scan; PluralityVeto refuted = known finding) and, for the rules with a full _run_step contract, modifies no field but election_states (frame obligations on every exit path); 12-query histories bounded.",
      "Election._run_step as a function of (profile, state) is assumed for the replay getter; get_status_df (pandas) bounded only.", "DESIGN.md 4-C09")
    P("C10", "other", "contract-based deductive verification of the tie-straddle kernel (elect_cands_from_set_ranking records a tiebreak iff a set straddles the last seat), tiebreak_set (strict order of exactly the tied set, random fallback whenever the tally leaves any tie) and the single-shot / STV rounds + bounded multi-seed audit of recorded tiebreaks",
      "Kernel, tiebreak_set and the rounds of Plurality/Borda/rating/STV/RandomDictator are proved against their callees' contracts; whole elections are audited under 4 seeds (bounded).", "score_dict_to_ranking / tiebroken_ranking (sorted, dict of lists, slice stores) are assumed callee contracts; bounded only.", "DESIGN.md 4-C10, 8.2")
    P("C13", "other", "contract-based deductive verification of the alias constructors (delegation with the documented arguments, class defines nothing else) + bounded differential check against separately built components",
      "IRV/SNTV/SequentialRCV constructor delegation and class-frame obligations are discharged; TopTwo/Alaska composition is a bounded differential check.", "", "DESIGN.md 4-C13")
    P("C14", "other", "contract-based deductive verification of BallotGenerator.ballot_pool_to_profile (the generators' common last step: dict keyed by ranking tuples) + bounded structural audit of every generator on a parameter grid",
      "ballot_pool_to_profile is proved for all pools: total weight = number of sampled ballots, given candidate list, untied rankings in tuple order; the samplers themselves (numpy / apportionment) are audited structurally on a parameter grid (bounded).",
      "apportionment package assumed to be Huntington-Hill (A-APP).", "DESIGN.md 4-C14, 8.2")
    P("C15", "other", "contract-based deductive verification of PreferenceInterval (__init__, _normalize, _remove_zero_support_cands; floats read as reals with one rounding per operation) and name_BradleyTerry._make_pow (the unnormalised Bradley-Terry weight as a product of powers) + bounded entry-by-entry comparison of the probability tables with the defining formulas in exact rationals",
      "The interval construction is proved for all support dicts: candidates = given names, zero_cands = support 0, stored interval = positive supports divided by their sum, ZeroDivisionError iff none is positive; "
      "combine_preference_intervals and the Bradley-Terry tables (itertools / numpy) are bounded only.", "floats compared up to 1e-9 relative in the bounded part; A-FLOAT in the proof part.", "DESIGN.md 4-C15, 8.2")
    P("C16", "exploration", "bounded call-site audit of the RNG draws, exact Metropolis acceptance probes, scripted cohesion sampler, spatial rankings recomputed",
      B + "; mixing of finite MCMC runs and Dirichlet-driven constructors are not decidable (not covered)", "numpy/random primitives' laws assumed (A-LIB).", "DESIGN.md 4-C16")
    P("C17", "other", "contract-based deductive verification of RandomDictator._run_step and tiebreak_set (call-site contract of random.choices / random.sample) + bounded exact-law execution (choice-tree exploration of the real step with scripted RNG primitives)",
      "Proved for all profiles: the dictator ballot is drawn by one random.choices call over the profile's ballots in order with exactly their weights (k=1), the winner is one candidate of the drawn ballot's first position (tie broken by a recorded random strict order of exactly that position), "
      "the returned profile is the input without the winner; tiebreak_set returns a strict order of exactly the tied set. The resulting probabilities (weight/total, 1/k!) follow from the primitives' documented laws (A-LIB); BoostedRandomDictator (numpy) and the closed forms are bounded only.",
      "primitives' laws assumed (A-LIB); tiebroken_ranking / score_dict_to_ranking assumed callee contracts.", "DESIGN.md 4-C17, 8.2")
    P("C18", "exploration", "bounded check of the loaders on generated files (no contract within reach: the property is about pandas/csv behaviour)", B, "", "DESIGN.md 4-C18")
    P("C19", "other",
      "contract-based deductive verification of lp_dist (integer p: loop invariant over the p-th-power sum; 'inf': maximum as attained upper bound) and BallotGraph.fix_short_ballot + Lean 4/Mathlib lemma L19 (the p-norm of a difference is symmetric, zero iff equal, triangle inequality) + bounded comparison with the definition / ballot graph vs definition for n<=5",
      "lp_dist is proved to return (sum |a_i-b_i|^p)^(1/p) resp. max |a_i-b_i| over the two columns of profiles_to_ndarrys([pp1, pp2]) for all profiles (floats read as reals, ** uninterpreted), ValueError exactly for an unsupported string / empty array; L19 proves the metric axioms of both formulas (integer p >= 1 and the maximum); "
      "fix_short_ballot is proved for every set enumeration order. profiles_to_ndarrys (numpy, dict union, sorted over tuples of frozensets), build_graph and from_profile (networkx) are outside the subset: assumed contract / bounded only.",
      "profiles_to_ndarrys is an assumed contract (opaque nd_cols; rectangular, one column per profile); A-FLOAT.", "DESIGN.md 4-C19, 8.3")

#!/usr/bin/env python3
"""Import seeded defects written by sub-agents (/tmp/seed/Cxx/seed_out/k) into /verif/seeded/<id>/ after
confirming: patch applies to a clean copy of /repo, demo exits 0 on the clean copy and non-zero on the patched copy."""
import json, os, shutil, subprocess, sys, tempfile

ROOT = os.path.dirname(os.path.dirname(os.path.abspath(__file__)))


def run_demo(tree, demo):
    env = dict(os.environ, PYTHONPATH=f"{tree}/src:{ROOT}/stubs", PYTHONHASHSEED="0", SEED_TREE=tree)
    p = subprocess.run(["/venv/bin/python", demo], env=env, capture_output=True, text=True, timeout=900, cwd=tree)
    return p.returncode, (p.stdout + p.stderr)[-600:]


def main(pids):
    for pid in pids:
        base = os.environ.get("SEED_BASE", "/tmp/seed") + f"/{pid}/seed_out"
        if not os.path.isdir(base):
            print(pid, "no seed_out")
            continue
        for k in sorted(os.listdir(base)):
            d = os.path.join(base, k)
            if not os.path.isfile(os.path.join(d, "patch.diff")):
                continue
            sid = f"{pid}-" + os.environ.get("SEED_TAG", "") + str(k)
            out = os.path.join(ROOT, "seeded", sid)
            clean = tempfile.mkdtemp(prefix="seedclean.")
            patched = tempfile.mkdtemp(prefix="seedpatch.")
            try:
                for t in (clean, patched):
                    subprocess.run(["git", "-C", "/repo", "archive", "HEAD", "src"], stdout=open(f"{t}/a.tar", "wb"), check=True)
                    subprocess.run(["tar", "xf", "a.tar"], cwd=t, check=True)
                    os.remove(f"{t}/a.tar")
                a = subprocess.run(["git", "apply", "--unsafe-paths", "--directory", patched, os.path.join(d, "patch.diff")],
                                   capture_output=True, text=True, cwd=patched)
                if a.returncode != 0:
                    a = subprocess.run(["patch", "-p1", "-i", os.path.join(d, "patch.diff")], capture_output=True, text=True, cwd=patched)
                if a.returncode != 0:
                    print(sid, "PATCH DOES NOT APPLY to current /repo HEAD:", a.stderr[:200])
                    continue
                rc0, o0 = run_demo(clean, os.path.join(d, "demo.py"))
                rc1, o1 = run_demo(patched, os.path.join(d, "demo.py"))
                ok = rc0 == 0 and rc1 != 0
                print(sid, "confirmed" if ok else f"NOT CONFIRMED clean_rc={rc0} patched_rc={rc1}", "|", o1.strip().splitlines()[-1][:150] if o1.strip() else "")
                if ok:
                    os.makedirs(out, exist_ok=True)
                    for f in ("patch.diff", "demo.py"):
                        shutil.copy(os.path.join(d, f), os.path.join(out, f))
                    meta = json.load(open(os.path.join(d, "meta.json")))
                    meta["id"] = sid
                    meta["confirmed_by_main"] = {"clean_rc": rc0, "patched_rc": rc1, "patched_output_tail": o1[-300:],
                                                 "cmd": "PYTHONPATH=<tree>/src:/verif/stubs /venv/bin/python demo.py on git-archive copies of /repo HEAD"}
                    json.dump(meta, open(os.path.join(out, "meta.json"), "w"), indent=1)
            finally:
                shutil.rmtree(clean, ignore_errors=True)
                shutil.rmtree(patched, ignore_errors=True)


if __name__ == "__main__":
    main(sys.argv[1:])

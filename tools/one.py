"""dev helper: load ALL specs/contracts (as the checker does) and verify the contract classes named on the command line
   usage: tools/one.py <contract class name> [...] [-v]"""
import sys, os
sys.path.insert(0, "/verif")
from checker.main import load_contracts
from pyvc.verify import verify_function, lemma_obligations
from pyvc.solve import discharge
reg = load_contracts()
names = [a for a in sys.argv[1:] if not a.startswith("-")]
done = set()
for info in reg.contracts.values():
    if id(info) in done or info.cls.__name__ not in names:
        continue
    done.add(id(info))
    r = verify_function(info)
    if r.out_of_reach:
        print(f"[OUT-OF-REACH] {info.name}: {r.out_of_reach}")
        continue
    discharge(r.obligations)
    bad = [o for o in r.obligations if o.status != "discharged" and not (o.kind == "cover" and "requires" not in o.name)]
    print(f"[{'OK' if not bad else 'FAIL'}] {info.name} ({info.cls.__name__}): {len(r.obligations)} obligations, {r.paths} paths, gen {r.gen_time:.2f}s")
    for o in r.obligations:
        if o.status != "discharged" or "-v" in sys.argv:
            print(f"    {o.status:11s} {o.name} [{o.where}] {o.backend} {o.time:.2f}s {o.info or ''}")

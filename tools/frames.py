import sys
sys.path.insert(0, "/verif")
from checker.main import load_contracts
from pyvc.verify import verify_function
from pyvc.solve import discharge
reg = load_contracts()
done = set(); obs = []
for info in reg.contracts.values():
    if id(info) in done or info.opts.get("assumed"): continue
    done.add(id(info))
    r = verify_function(info)
    if r.out_of_reach:
        print("OOR", info.name, info.cls.__name__, r.out_of_reach[:150]); continue
    fo = [o for o in r.obligations if "frame[self." in o.name]
    if fo: print(info.name, info.cls.__name__, len(fo)); obs += fo
discharge(obs)
for o in obs:
    if o.status != "discharged": print("  ", o.status, o.name, o.where)
print("frame obligations:", len(obs), "discharged:", sum(o.status == "discharged" for o in obs))

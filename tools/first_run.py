#!/usr/bin/env python3
"""Freeze the FIRST evaluation of each seeded defect (before any strengthening prompted by it) into seeded/FIRST_RUN.json.
Entries are only ever added, never updated: RESULTS.json holds the latest evaluation, this file the held-out one."""
import json, os, subprocess
ROOT = os.path.dirname(os.path.dirname(os.path.abspath(__file__)))
P = os.path.join(ROOT, "seeded", "FIRST_RUN.json")
first = json.load(open(P)) if os.path.exists(P) else {}


def brief(v):
    return {p: (c if isinstance(c, str) else {"exit": c["exit"], "violations": c["violations"]}) for p, c in v["checks"].items()}


revs = subprocess.check_output(["git", "log", "--format=%h", "--reverse", "--", "seeded/RESULTS.json"], cwd=ROOT).decode().split()
for r in revs:
    try:
        d = json.loads(subprocess.check_output(["git", "show", f"{r}:seeded/RESULTS.json"], cwd=ROOT, stderr=subprocess.DEVNULL))
    except Exception:
        continue
    for k, v in d.items():
        if k not in first:
            first[k] = {"from": f"git {r}", "checks": brief(v)}
cur = json.load(open(os.path.join(ROOT, "seeded", "RESULTS.json")))
for k, v in cur.items():
    if k not in first:
        first[k] = {"from": "working tree", "checks": brief(v)}
json.dump(first, open(P, "w"), indent=1, sort_keys=True)
r2 = {k: v for k, v in first.items() if "-r2." in k}
own = lambda k, v: v["checks"].get(k.split("-")[0])
c = sum(1 for k, v in r2.items() if isinstance(own(k, v), dict) and own(k, v)["exit"] == 1)
u = sum(1 for k, v in r2.items() if isinstance(own(k, v), dict) and own(k, v)["exit"] in (2, 3))
print(f"round 2 (held out): {len(r2)} seeds, first run: {c} reported as violation, {u} undecided/flagged, {len(r2) - c - u} missed")

#!/usr/bin/env python3
"""dev helper: prove the lemmas of the LAST module listed: tools/lem.py specs.base,specs.condense,specs.rankdict [extra,lemma,names]"""
import sys, importlib, os
sys.path.insert(0, os.path.dirname(os.path.dirname(os.path.abspath(__file__))))
from pyvc.api import REGISTRY
from pyvc.verify import lemma_obligations
from pyvc.solve import discharge
for m in sys.argv[1].split(","):
    importlib.import_module(m)
mod = sys.argv[1].split(",")[-1]
for sp in REGISTRY.lemmas:
    if sp.fn.__module__ != mod and (len(sys.argv) < 3 or sp.name not in sys.argv[2].split(",")):
        continue
    obs = lemma_obligations(sp)
    discharge(obs)
    for o in obs:
        print(f"  lemma {o.name}: {o.status} {o.backend} {o.time:.2f}s")

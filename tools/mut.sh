#!/bin/bash
# tools/mut.sh <file-relative-to-src/votekit> <sed-expr> <contracts module> <qualname>   -- quick mutation probe on a scratch copy
set -e
D=$(mktemp -d /tmp/mut.XXXX)
cp -r /repo/src $D/src
sed -i "$2" $D/src/votekit/$1
if diff -q /repo/src/votekit/$1 $D/src/votekit/$1 >/dev/null; then echo "MUTATION DID NOT APPLY"; rm -rf $D; exit 1; fi
VERIF_REPO=$D /verif/.venv/bin/python ${RUNNER:-/verif/pyvc/run.py} $3 $4 2>&1 | grep -v "^  lemma" | head -${5:-6}
rm -rf $D

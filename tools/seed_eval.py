#!/usr/bin/env python3
"""Run the registered quick checks against each seeded defect (on a scratch copy, VERIF_REPO) and record
which check catches which change: seeded/RESULTS.json"""
import json, os, shutil, subprocess, sys, tempfile, time

ROOT = os.path.dirname(os.path.dirname(os.path.abspath(__file__)))


def main(ids, tier="quick", props=None):
    res_path = os.environ.get("SEED_RESULTS") or os.path.join(ROOT, "seeded", "RESULTS.json")
    results = json.load(open(res_path)) if os.path.exists(res_path) else {}
    man = json.load(open(os.path.join(ROOT, "MANIFEST.json")))
    claimed = [c["property_id"] for c in man["checks"]]
    for sid in ids:
        d = os.path.join(ROOT, "seeded", sid)
        meta = json.load(open(os.path.join(d, "meta.json")))
        pid = meta["property"]
        t = tempfile.mkdtemp(prefix="seedeval.")
        try:
            subprocess.run(["git", "-C", "/repo", "archive", "HEAD", "src"], stdout=open(f"{t}/a.tar", "wb"), check=True)
            subprocess.run(["tar", "xf", "a.tar"], cwd=t, check=True)
            a = subprocess.run(["patch", "-p1", "-s", "-i", os.path.join(d, "patch.diff")], capture_output=True, text=True, cwd=t)
            if a.returncode != 0:
                print(sid, "patch failed", a.stdout[:200])
                continue
            which = props or [pid]
            row = results.setdefault(sid, {"property": pid, "checks": {}})
            for p in which:
                if p not in claimed:
                    row["checks"][p] = "not-claimed"
                    continue
                t0 = time.time()
                env = dict(os.environ, VERIF_REPO=t, VERIF_EVIDENCE_DIR=os.path.join(t, "ev"),
                           PYVC_QUERY_CACHE=os.environ.get("PYVC_QUERY_CACHE", "/tmp/pyvc_query_cache"))  # evaluation tooling only
                r = subprocess.run([os.path.join(ROOT, "check"), p, "--tier", tier], capture_output=True, text=True, env=env, cwd=ROOT)
                viol = [l for l in r.stdout.splitlines() if l.startswith("VIOLATION")]
                row["checks"][p] = {"exit": r.returncode, "violations": len(viol), "first": (viol[0] if viol else ""),
                                    "detail": next((l for l in r.stdout.splitlines() if l.strip().startswith("violated:")), "")[:300],
                                    "wall_s": round(time.time() - t0, 1), "tier": tier}
                print(sid, p, "exit", r.returncode, "violations", len(viol), f"{time.time()-t0:.0f}s")
                if r.returncode not in (0, 1):
                    print(r.stdout[-800:])
            json.dump(results, open(res_path, "w"), indent=1)
        finally:
            shutil.rmtree(t, ignore_errors=True)


if __name__ == "__main__":
    args = sys.argv[1:]
    tier = "quick"
    props = None
    if "--tier" in args:
        i = args.index("--tier"); tier = args[i + 1]; del args[i:i + 2]
    if "--props" in args:
        i = args.index("--props"); props = args[i + 1].split(","); del args[i:i + 2]
    main(args, tier, props)

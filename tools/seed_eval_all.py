#!/usr/bin/env python3
"""Evaluate every seeded defect (or the given ids) against the current checks, SHARDS evaluations side by side, then merge into
seeded/RESULTS.json.  Each evaluation applies the patch to its own scratch copy (VERIF_REPO); /repo is never touched."""
import json, os, subprocess, sys, tempfile
ROOT = os.path.dirname(os.path.dirname(os.path.abspath(__file__)))
ids = sys.argv[1:] or sorted(d for d in os.listdir(os.path.join(ROOT, "seeded")) if os.path.isdir(os.path.join(ROOT, "seeded", d)))
SH = int(os.environ.get("SHARDS", "3"))
tmp = tempfile.mkdtemp(prefix="seedall.")
procs = []
for k in range(SH):
    part = ids[k::SH]
    if not part:
        continue
    env = dict(os.environ, SEED_RESULTS=os.path.join(tmp, f"r{k}.json"))
    procs.append(subprocess.Popen([sys.executable, os.path.join(ROOT, "tools", "seed_eval.py")] + part, env=env,
                                  stdout=open(os.path.join(tmp, f"log{k}.txt"), "w"), stderr=subprocess.STDOUT))
for p in procs:
    p.wait()
res_path = os.path.join(ROOT, "seeded", "RESULTS.json")
res = json.load(open(res_path)) if os.path.exists(res_path) else {}
for k in range(SH):
    f = os.path.join(tmp, f"r{k}.json")
    if os.path.exists(f):
        for sid, row in json.load(open(f)).items():
            res.setdefault(sid, {"property": row["property"], "checks": {}})["checks"].update(row["checks"])
json.dump(res, open(res_path, "w"), indent=1)
own = lambda sid, row: row["checks"].get(row["property"])
c = sum(1 for s, r in res.items() if isinstance(own(s, r), dict) and own(s, r)["exit"] == 1)
u = sum(1 for s, r in res.items() if isinstance(own(s, r), dict) and own(s, r)["exit"] in (2, 3))
print(f"{len(res)} seeds: {c} reported as violation, {u} undecided/flagged, {len(res) - c - u} missed; logs in {tmp}")

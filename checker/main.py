"""./check <Cxx> --tier quick|thorough [--replay file]

Exit codes: 0 held / 1 violation (VIOLATION line printed) / 2 undecided / 3 checker defect.
"""
from __future__ import annotations
import argparse
import glob
import hashlib
import importlib
import json
import os
import sys
import time
import traceback

ROOT = os.path.dirname(os.path.dirname(os.path.abspath(__file__)))
sys.path.insert(0, ROOT)
REPO = os.environ.get("VERIF_REPO", "/repo")


def load_contracts():
    from pyvc.api import REGISTRY
    import specs.base  # noqa
    for f in sorted(glob.glob(os.path.join(ROOT, "specs", "*.py"))):
        m = os.path.basename(f)[:-3]
        if m != "__init__":
            importlib.import_module(f"specs.{m}")
    for f in sorted(glob.glob(os.path.join(ROOT, "contracts", "*.py"))):
        m = os.path.basename(f)[:-3]
        if m != "__init__":
            importlib.import_module(f"contracts.{m}")
    return REGISTRY


def load_known_findings():
    p = os.path.join(ROOT, "known_findings.json")
    if not os.path.exists(p):
        return []
    with open(p) as f:
        return json.load(f)["findings"]


def write_replay(pid, name, payload):
    rdir = os.path.join(os.environ["VERIF_EVIDENCE_DIR"], "replays") if os.environ.get("VERIF_EVIDENCE_DIR") else os.path.join(ROOT, "replays")
    os.makedirs(rdir, exist_ok=True)
    h = hashlib.sha256(json.dumps(payload, sort_keys=True, default=str).encode()).hexdigest()[:10]
    path = os.path.join(rdir, f"{pid}-{h}.json")
    payload = dict(payload, property=pid, obligation=name, rerun=f"./check {pid} --replay {path}")
    with open(path, "w") as f:
        json.dump(payload, f, indent=1, default=str)
    return path


class Report:
    def __init__(self, pid, tier, seed):
        self.pid, self.tier, self.seed = pid, tier, seed
        self.violations = []      # (replay_path, text, no_input)
        self.known_hits = []
        self.undecided = []
        self.defects = []
        self.functions = []
        self.obligations = 0
        self.discharged = 0
        self.backends = {}
        self.samples = []
        self.trusted = set()
        self.assumptions = set()
        self.bounded = {}
        self.out_of_reach = []
        self.dead_paths = []
        self.findings = []
        self.cover_by_witness = []
        self.cover_relaxed = []
        self.cover_open = []
        self.witness_runs = 0
        self.lemma_obs = 0
        self.solver_time = 0.0


def proof_part(pid, rep: Report, registry, findings):
    rep.findings = findings
    from pyvc.verify import verify_function, lemma_obligations
    from pyvc.solve import discharge, model_of
    from pyvc import replay as R
    infos = []
    for i in registry.contracts.values():
        if pid in i.props and not i.opts.get("assumed") and i not in infos:
            infos.append(i)
    all_obs = []
    results = []
    for info in infos:
        kf = [f for f in findings if f.get("status") == "known" and f.get("function") == info.name and f.get("class")]
        info.excluded_classes = [f["class"] for f in kf]
        try:
            r = verify_function(info)
        except Exception as e:  # engine crash: never a verdict
            rep.defects.append(f"engine crash on {info.name}: {e!r}\n{traceback.format_exc(limit=6)}")
            continue
        results.append(r)
        if r.out_of_reach:
            rep.out_of_reach.append({"function": info.name, "reason": r.out_of_reach})
            if not info.opts.get("bounded_only"):
                rep.undecided.append(f"{info.name}: out of reach of the verifier: {r.out_of_reach}")
            continue
        all_obs.extend(r.obligations)
    # lemmas used by these contracts (all lemmas are cheap: prove all that the spec files define)
    lem_obs = []
    if infos:
        for sp in lemmas_needed(infos, registry):
            try:
                lem_obs.extend(lemma_obligations(sp))
            except Exception as e:
                rep.defects.append(f"lemma generation {sp.name}: {e!r}")
    discharge(all_obs + lem_obs)
    rep.lemma_obs = len(lem_obs)
    for o in all_obs + lem_obs:
        rep.obligations += 1
        rep.solver_time += o.time
        if o.status == "discharged":
            rep.discharged += 1
            rep.backends.setdefault(o.backend, [0, 0.0])
            rep.backends[o.backend][0] += 1
            rep.backends[o.backend][1] += o.time
    for o in lem_obs:
        if o.status != "discharged":
            rep.undecided.append(f"{o.name}: lemma {o.status}")
    # native witnesses: the contract's concrete inputs are run through the real function of the tree under check and the SAME clause
    # text is evaluated by CPython (cross-check of the encoding on every run; a witness that violates its contract is a concrete failing
    # input -- reported even when the corresponding obligation is only `unknown` for the solvers, or the function left the subset)
    from pyvc import replay as R_
    for info in infos:
        w = getattr(info.cls, "witnesses", None)
        if w is None:
            continue
        try:
            for kw in w():
                res = R_.native_check(info, kw)
                rep.witness_runs += 1
                if not res["ok"]:
                    payload = {"function": info.name, "kind": "native-witness", "inputs": {k: R_.to_literal(v) for k, v in kw.items() if k != "self"},
                               "native": res, "what": "a witness input of the contract, run on the real function, violates the contract"}
                    path = write_replay(pid, info.name + "/witness", payload)
                    rep.violations.append((path, f"{info.name}: contract violated on witness input: {res['detail'][:200]}", False))
                    break
        except Exception as e:
            rep.defects.append(f"witness of {info.name} failed to run: {e!r}\n{traceback.format_exc(limit=4)}")
    for r in results:
        if r.out_of_reach:
            continue
        info = r.info
        n_ok = sum(1 for o in r.obligations if o.status == "discharged")
        covers = [o for o in r.obligations if o.kind == "cover" and "cover-requires" not in o.name]
        if covers and all(o.status == "refuted" for o in covers):
            rep.undecided.append(f"{info.name}: no feasible path at all (vacuity guard)")
        rep.functions.append({"function": info.name, "obligations": len(r.obligations), "discharged": n_ok,
                              "paths": r.paths, "source_hash": r.source_hash, "gen_s": round(r.gen_time, 2),
                              "excluded_known_classes": getattr(info, "excluded_classes", [])})
        if len(rep.samples) < 6 and r.obligations:
            o = r.obligations[min(2, len(r.obligations) - 1)]
            rep.samples.append({"obligation": o.name, "kind": o.kind, "where": o.where, "goal": str(o.goal)[:300],
                                "status": o.status, "backend": o.backend})
        wit_ok = None
        for o in r.obligations:
            if o.status == "discharged":
                if o.kind == "cover" and "relaxed" in (o.backend or ""):
                    rep.cover_relaxed.append(o.name)
                continue
            if o.status == "unknown" and o.kind == "cover":
                # satisfiability of one path condition left open by the solvers.  Non-vacuity of the contract is established
                # by another feasible return path of the same function (cover discharged), or else by a concrete witness input
                # run natively through the real function and the same contract text
                if "cover-requires" not in o.name:
                    # a per-path cover the solvers left open is recorded, never a verdict: the vacuity guards that count are the
                    # precondition's cover, the native witnesses, and "not every path refuted"
                    rep.cover_open.append(o.name)
                    continue
                if wit_ok is None:
                    wit_ok = run_witnesses(info, rep)
                if wit_ok:
                    rep.cover_by_witness.append(o.name)
                    continue
            if o.status == "inconsistent":
                rep.defects.append(f"{o.name}: solvers disagree {o.details}")
            elif o.status == "unknown":
                rep.undecided.append(f"{o.name} [{o.where}]: all solvers unknown/timeout")
            elif o.status == "refuted":
                if o.expect_sat:
                    # a cover that is unsat: contradictory precondition is a checker-level problem;
                    # a dead individual path (e.g. a callee's redundant re-validation) is only recorded
                    if "cover-requires" in o.name:
                        rep.undecided.append(f"{o.name} [{o.where}]: precondition unsatisfiable (vacuity guard)")
                    else:
                        rep.dead_paths.append(o.name)
                    continue
                handle_refuted(pid, rep, r, o)


def run_witnesses(info, rep):
    from pyvc import replay as R
    w = getattr(info.cls, "witnesses", None)
    if w is None:
        return False
    try:
        cases = w()
        ok = True
        for kw in cases:
            res = R.native_check(info, kw)
            rep.witness_runs += 1
            if not res["ok"] or res["outcome"].startswith("precondition"):
                ok = False
        return ok and bool(cases)
    except Exception as e:
        rep.defects.append(f"witness of {info.name} failed to run: {e!r}")
        return False


def lemmas_needed(infos, registry):
    """lemmas named in the hint clauses of these contracts, closed under the lemmas' own hints (registration order kept)"""
    import ast as _ast
    names = {l.name for l in registry.lemmas}
    need = set()

    def scan(node):
        for n in _ast.walk(node):
            if isinstance(n, _ast.Call) and isinstance(n.func, _ast.Name) and n.func.id in names:
                need.add(n.func.id)
    for info in infos:
        for cname, cnode in info.nodes().items():
            if cname.startswith("hint_"):
                scan(cnode)
    changed = True
    while changed:
        changed = False
        for l in registry.lemmas:
            if l.name in need:
                before = len(need)
                for d in l.node().decorator_list:
                    scan(d)
                changed = changed or len(need) != before
    return [l for l in registry.lemmas if l.name in need]


def handle_refuted(pid, rep, r, o):
    from pyvc.solve import model_of
    from pyvc import replay as R
    info = r.info
    for f in rep.findings:
        if f.get("status") == "known" and f.get("property") == pid and f.get("obligation_match") and \
                all(m in o.name for m in f["obligation_match"]):
            if f["id"] not in [h["id"] for h in rep.known_hits]:
                rep.known_hits.append(f)
            return
    payload = {"function": info.name, "kind": o.kind, "where": o.where, "what": o.info,
               "solver": [list(map(str, d)) for d in (o.details or [])], "goal": str(o.goal)[:2000]}
    native = None
    try:
        m = model_of(o)
        if m is not None:
            vals = R.concretise_inputs(info, r.entry_env, m)
            payload["inputs"] = {k: R.to_literal(v) for k, v in vals.items()}
            if "self" in vals and not isinstance(vals["self"], (int, str)):
                vals["self"] = R.make_self(info, vals["self"])
            native = R.native_check(info, vals)
            payload["native"] = native
    except Exception as e:
        payload["replay_error"] = f"{e!r}\n{traceback.format_exc(limit=5)}"
    confirmed = bool(native and not native["ok"])
    if not confirmed:
        # neighbourhood search through the bounded tier of that function, if it has one
        try:
            from bounded import neighbourhood
            found = neighbourhood.search(info, payload.get("inputs"))
            if found:
                payload["native"] = found
                confirmed = True
        except ImportError:
            pass
        except Exception as e:
            payload["neighbourhood_error"] = repr(e)
    path = write_replay(pid, o.name, payload)
    rep.violations.append((path, f"{o.name} [{o.where}] refuted"
                           + (f": {native['detail'][:200]}" if confirmed and native else ""), not confirmed))


LEAN_LEMMAS = {"C19": "L19.lean", "C06": "L06.lean"}


def lean_part(pid, rep: Report):
    """Lemmas over the contracts that need induction over finite sets / real analysis: Lean 4 + Mathlib files under /verif/lemmas,
    re-elaborated by `lean` on every run (every `theorem` is one obligation, back end lean4).  They talk about the spec functions
    the contracts are stated in, not about /repo (a failure here is `undecided`, never a VIOLATION)."""
    import re
    import shutil
    import subprocess
    f = LEAN_LEMMAS.get(pid)
    if f is None:
        return
    path = os.path.join(ROOT, "lemmas", f)
    with open(path) as fh:
        text = fh.read()
    code = re.sub(r"/-.*?-/", "", text, flags=re.S)
    code = "\n".join(l.split("--")[0] for l in code.splitlines())
    thms = re.findall(r"^\s*theorem\s+(\S+)", code, flags=re.M)
    banned = [w for w in ("sorry", "admit", "axiom ", "native_decide", "unsafe ") if w in code]
    lean = shutil.which("lean")
    t1 = time.time()
    if lean is None:
        rep.undecided.append(f"lemmas/{f}: lean is not on PATH")
        return
    try:
        r = subprocess.run([lean, path], capture_output=True, text=True, timeout=1500, cwd=os.path.join(ROOT, "lemmas"))
        out = (r.stdout + r.stderr).strip()
        ok = r.returncode == 0 and "error" not in out and "sorry" not in out and not banned and thms
    except subprocess.TimeoutExpired:
        out, ok = "timeout", False
    dt = time.time() - t1
    rep.obligations += len(thms)
    rep.lemma_obs += len(thms)
    rep.solver_time += dt
    if ok:
        rep.discharged += len(thms)
        rep.backends.setdefault("lean4-mathlib", [0, 0.0])
        rep.backends["lean4-mathlib"][0] += len(thms)
        rep.backends["lean4-mathlib"][1] += dt
        rep.lean = {"file": f"lemmas/{f}", "theorems": thms, "seconds": round(dt, 1)}
    else:
        rep.undecided.append(f"lemmas/{f}: lean did not accept the file ({'banned: ' + ','.join(banned) if banned else out[:300]})")


def bounded_part(pid, rep: Report, tier, seed, findings):
    try:
        mod = importlib.import_module(f"bounded.{pid}")
    except ModuleNotFoundError as e:
        if f"bounded.{pid}" in str(e) or "bounded" == getattr(e, "name", ""):
            return
        raise
    from pyvc import replay as R
    R.ensure_repo_on_path()
    res = mod.run(tier=tier, seed=seed)
    rep.bounded = {k: v for k, v in res.items() if k not in ("violations", "kept")}
    kf = [f for f in findings if f.get("property") == pid and f.get("status") == "known"]
    for v in res.get("violations", []):
        hit = None
        for f in kf:
            key = v.get("key", "")
            if f.get("match_all") and all(m in key for m in f["match_all"]) and \
                    (not f.get("match_any") or any(m in key for m in f["match_any"])):
                hit = f
                break
        if hit:
            if hit["id"] not in [h["id"] for h in rep.known_hits]:
                rep.known_hits.append(hit)
            continue
        path = write_replay(pid, v.get("key", "bounded"), v)
        rep.violations.append((path, v.get("what", "")[:300], False))


def emit(rep: Report, level, t0, manifest_note=""):
    from jsonschema import validate
    cov = {
        "obligations": rep.obligations,
        "discharged": rep.discharged,
        "checker_cmd": f"./check {rep.pid} --tier {rep.tier}",
        "trusted_base": sorted(rep.trusted),
        "functions_under_contract": rep.functions,
        "out_of_reach": rep.out_of_reach,
        "backends": {k: {"count": v[0], "seconds": round(v[1], 2)} for k, v in rep.backends.items()},
        "solver_seconds": round(rep.solver_time, 2),
        "lemma_obligations": rep.lemma_obs,
        "lean_lemmas": getattr(rep, "lean", None),
        "undecided": rep.undecided,
        "dead_paths": rep.dead_paths,
        "covers_shown_by_native_witness": rep.cover_by_witness,
        "covers_satisfiable_only_without_quantified_hypotheses": rep.cover_relaxed,
        "path_covers_left_open_by_solvers": rep.cover_open,
        "known_findings": [h["id"] for h in rep.known_hits],
        "samples": rep.samples + rep.bounded.get("samples", [])[:6],
        "evaluations": int(rep.bounded.get("evaluations", 0)),
        "distinct_nontrivial": int(rep.bounded.get("distinct_nontrivial", 0)),
        "rule": rep.bounded.get("rule", "no bounded tier for this property"),
        "bounded": {k: v for k, v in rep.bounded.items() if k not in ("samples",)},
        "explanation": (f"{rep.discharged}/{rep.obligations} proof obligations generated from the current source of "
                        f"{len(rep.functions)} function(s) under contract were discharged by the SMT portfolio "
                        f"(unbounded: all inputs, all iterations); bounded stand-in (never counted as proved): "
                        f"{rep.bounded.get('evaluations', 0)} run-time contract evaluations, scope: {rep.bounded.get('bound', 'n/a')}. "
                        + manifest_note),
    }
    if rep.bounded.get("exhaustive") is not None:
        cov["exhaustive"] = bool(rep.bounded.get("exhaustive"))
    ev = {
        "property_id": rep.pid, "tier": rep.tier, "seed": rep.seed, "level": level, "coverage": cov,
        "assumptions": sorted(rep.assumptions), "wall_s": round(time.time() - t0, 2),
        "violations": len(rep.violations),
    }
    edir = os.environ.get("VERIF_EVIDENCE_DIR") or os.path.join(ROOT, "evidence")  # scratch evaluations (seeded defects) write elsewhere
    os.makedirs(edir, exist_ok=True)
    path = os.path.join(edir, f"{rep.pid}.json")
    with open("/root/.vp/EVIDENCE.schema.json") as f:
        schema = json.load(f)
    validate(ev, schema)
    with open(path, "w") as f:
        json.dump(ev, f, indent=1, default=str)
    return path


BASE_ASSUMPTIONS = [
    "A-ENGINE: PyVC (AST->VC translation, /verif/pyvc) and the SMT solvers z3 5.1 / cvc5 1.0.3 / z3 4.8 are trusted",
    "S-INT/S-FRAC: python int is unbounded (SMT Int), fractions.Fraction is the exact rational field (SMT Real)",
    "S-STR: candidate names/option strings are an uninterpreted sort with equality only; literals distinct and non-empty",
    "S-SET/S-DICT: set and dict iteration order is demonic (any duplicate-free enumeration)",
    "S-EXC: implicit exceptions are modelled at indexing, key lookup, division, None dereference, unbound locals, unpacking",
    "A-PYD: pydantic runs the field/model validators of Ballot/PreferenceProfile as declared and freezes instances",
    "extraction drops: docstrings, type annotations, typing.cast, print()",
]


def level_of(pid):
    with open(os.path.join(ROOT, "MANIFEST.json")) as f:
        man = json.load(f)
    for c in man["checks"]:
        if c["property_id"] == pid:
            return c["level_claimed"]["category"]
    return "other"


def main():
    ap = argparse.ArgumentParser()
    ap.add_argument("pid")
    ap.add_argument("--tier", default=os.environ.get("VERIF_TIER", "quick"))
    ap.add_argument("--replay")
    a = ap.parse_args()
    if a.tier not in ("quick", "thorough"):
        a.tier = "quick"
    seed = int(os.environ.get("VERIF_SEED", "0") or 0)
    t0 = time.time()
    if a.replay:
        from checker.replaycmd import replay_file
        sys.exit(replay_file(a.pid, a.replay))
    rep = Report(a.pid, a.tier, seed)
    rep.assumptions.update(BASE_ASSUMPTIONS)
    try:
        registry = load_contracts()
        findings = load_known_findings()
        from pyvc import replay as R
        R.ensure_repo_on_path()
        proof_part(a.pid, rep, registry, findings)
        lean_part(a.pid, rep)
        bounded_part(a.pid, rep, a.tier, seed, findings)
        for i in registry.contracts.values():
            if a.pid in i.props:
                for t in getattr(i.cls, "trusted", ()):
                    rep.trusted.add(t)
        for sp in registry.specs.values():
            if sp.opaque:
                rep.trusted.add(f"opaque spec function {sp.name} (uninterpreted for the solver)")
        rep.assumptions.update(rep.bounded.get("assumptions", []))
    except SystemExit:
        raise
    except Exception as e:
        print(f"CHECKER-ERROR {e!r}\n{traceback.format_exc()}")
        sys.exit(3)
    level = level_of(a.pid)
    try:
        path = emit(rep, level, t0)
    except Exception as e:
        print(f"CHECKER-ERROR evidence: {e!r}\n{traceback.format_exc()}")
        sys.exit(3)
    for h in rep.known_hits:
        print(f"KNOWN-FINDING: property={a.pid} {h['what']}")
    print(f"[{a.pid}] tier={a.tier} obligations={rep.obligations} discharged={rep.discharged} "
          f"functions={len(rep.functions)} bounded_evals={rep.bounded.get('evaluations', 0)} "
          f"wall={time.time() - t0:.1f}s evidence={path}")
    if rep.defects:
        for d in rep.defects:
            print("CHECKER-DEFECT", d)
        sys.exit(3)
    if rep.violations:
        for path, text, noinput in rep.violations:
            print(f"  violated: {text}")
            print(f"VIOLATION property={a.pid} replay={path}" + (" no-failing-input-found" if noinput else ""))
        sys.exit(1)
    if rep.undecided:
        for u in rep.undecided:
            print("UNDECIDED", u)
        sys.exit(2)
    if rep.obligations == 0 and not rep.bounded.get("evaluations"):
        print("CHECKER-DEFECT zero obligations and zero evaluations (vacuity guard)")
        sys.exit(3)
    sys.exit(0)


if __name__ == "__main__":
    main()

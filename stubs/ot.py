"""Import stub for POT (`ot`), which is not installed in the sandbox.
Only votekit.metrics.distances.earth_mover_dist uses it; that function is outside
every property. Any call fails loudly."""


def emd(*a, **k):  # pragma: no cover
    raise RuntimeError("ot (POT) is not installed; stub from /verif/stubs")


def emd2(*a, **k):  # pragma: no cover
    raise RuntimeError("ot (POT) is not installed; stub from /verif/stubs")

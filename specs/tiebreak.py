"""spec functions and lemmas for utils.tiebreak_set (C10, C01, C17)"""
from pyvc.api import spec, lemma, implies, Int, Real, Bool, Str, CSet, Seq, Ballot, Profile, Opt, Dict, Fraction
from specs.base import singletons, union_upto, nonempty_positions, lin, distinct, count, elems


@spec
def singl(s: Seq(Str), n: Int) -> Seq(CSet):
    """the first n entries of s as a sequence of one-candidate sets"""
    return () if n <= 0 else singl(s, n - 1) + (frozenset([s[n - 1]]),)


@spec(opaque=True)
def borda_of(p: Profile) -> Dict(Real):
    """Borda scores of a profile (borda_scores)"""
    raise NotImplementedError


@lemma(induct="n")
def singl_len(s: Seq(Str), n: Int) -> Bool:
    return implies(n >= 0, len(singl(s, n)) == n)


@lemma(induct="n")
def singletons_left(a: Seq(CSet), b: Seq(CSet), n: Int) -> Bool:
    return implies(0 <= n and n <= len(a), singletons(a + b, n) == singletons(a, n))


@lemma(induct="n")
def union_left(a: Seq(CSet), b: Seq(CSet), n: Int) -> Bool:
    return implies(0 <= n and n <= len(a), union_upto(a + b, n) == union_upto(a, n))


@lemma(induct="n", hint=lambda s, n: singl_len(s, n - 1) and singletons_left(singl(s, n - 1), (frozenset([s[n - 1]]),), n - 1)
       and union_left(singl(s, n - 1), (frozenset([s[n - 1]]),), n - 1))
def singl_lin(s: Seq(Str), n: Int) -> Bool:
    """the one-candidate sets of s form a strict order of the elements of s"""
    return implies(0 <= n and n <= len(s), singletons(singl(s, n), n) and union_upto(singl(s, n), n) == elems(s, n))


@spec
def has_tie(r: Seq(CSet), n: Int) -> Bool:
    """one of the first n positions holds more than one candidate"""
    return False if n <= 0 else (has_tie(r, n - 1) or len(r[n - 1]) > 1)


@lemma(induct="n")
def le1_singletons(r: Seq(CSet), n: Int) -> Bool:
    """non-empty positions none of which holds more than one candidate are single candidates, and conversely"""
    return implies(0 <= n and n <= len(r), implies(nonempty_positions(r, n) and not has_tie(r, n), singletons(r, n))
                   and implies(singletons(r, n), not has_tie(r, n)))


@lemma(induct="n")
def count_singletons_n(r: Seq(CSet), n: Int) -> Bool:
    return implies(0 <= n and n <= len(r) and singletons(r, n), count(r, n) == n)


@lemma(induct="n")
def union_member(r: Seq(CSet), n: Int, i: Int) -> Bool:
    """every position is contained in the union of the positions"""
    return implies(0 <= i and i < n and n <= len(r), r[i] <= union_upto(r, n))

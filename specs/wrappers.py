"""lemmas for the scoring wrappers (C04)"""
from pyvc.api import spec, lemma, implies, Int, Real, Bool, Str, CSet, Seq, Ballot, Profile, Opt, Dict, Fraction
from specs.base import vec_ok, repl, desc
from specs.scoring import repl_len


@lemma(induct="n")
def vec_ok_left(a: Seq(Real), b: Seq(Real), n: Int) -> Bool:
    return implies(0 <= n and n <= len(a), vec_ok(a + b, n) == vec_ok(a, n))


@lemma(induct="n", hint=lambda n: repl_len(Fraction(0), n - 1) and vec_ok_left((Fraction(1),) + repl(0, n - 1), (Fraction(0),), n))
def zeros_after_one(n: Int) -> Bool:
    """(1, 0, ..., 0) is a valid score vector, at every length"""
    return implies(n >= 0, vec_ok((Fraction(1),) + repl(0, n), n + 1) and len(repl(0, n)) == n)


@lemma(hint=lambda n: zeros_after_one(n))
def one_zeros_ok(n: Int) -> Bool:
    return implies(n >= 0, vec_ok((Fraction(1),) + repl(0, n), len((Fraction(1),) + repl(0, n))))


@lemma(induct="k")
def desc_len(n: Int, k: Int) -> Bool:
    return implies(k >= 0, len(desc(n, k)) == k)


@lemma(induct="k", hint=lambda n, k: desc_len(n, k - 1) and desc_len(n, k - 2) and vec_ok_left(desc(n, k - 1), (Fraction(n - k + 1),), k - 1))
def desc_ok(n: Int, k: Int) -> Bool:
    """(n, n-1, ..., n-k+1) is a valid score vector as long as its entries stay non-negative"""
    return implies(0 <= k and k <= n + 1, vec_ok(desc(n, k), k) and implies(k >= 1, desc(n, k)[k - 1] == n - k + 1))

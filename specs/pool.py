"""spec functions and lemmas for BallotGenerator.ballot_pool_to_profile (C14)"""
from pyvc.api import spec, lemma, implies, Int, Real, Bool, Str, CSet, Seq, Ballot, Profile, Opt, Dict, Fraction
from specs.base import ssum, wsum
from specs.condense import supd, supd_nth
from specs.tiebreak import singl
from specs.dictator import ssum_left


@spec
def sfind(K: Seq(Seq(Str)), n: Int, k: Seq(Str)) -> Int:
    """index of the first of the first n stored key tuples equal to k, -1 if there is none"""
    return -1 if n <= 0 else (sfind(K, n - 1, k) if sfind(K, n - 1, k) >= 0 else (n - 1 if K[n - 1] == k else -1))


@spec
def pool_ballot(r: Seq(Str), c: Real) -> Ballot:
    """the ballot written for ranking tuple r counted c times"""
    return Ballot(ranking=singl(r, len(r)), weight=c)


@spec
def pool_prefix(K: Seq(Seq(Str)), V: Seq(Real), n: Int) -> Seq(Ballot):
    return () if n <= 0 else pool_prefix(K, V, n - 1) + (pool_ballot(K[n - 1], V[n - 1]),)


@lemma(induct="n")
def sfind_range(K: Seq(Seq(Str)), n: Int, k: Seq(Str)) -> Bool:
    return implies(0 <= n and n <= len(K), -1 <= sfind(K, n, k) and sfind(K, n, k) < n)


@lemma(induct="n")
def sfind_app(K: Seq(Seq(Str)), x: Seq(Str), n: Int, k: Seq(Str)) -> Bool:
    return implies(0 <= n and n <= len(K), sfind(K + (x,), n, k) == sfind(K, n, k))


@lemma(induct="n", hint=lambda V, f, x, n: supd_nth(V, f, x, n - 1))
def ssum_supd(V: Seq(Real), f: Int, x: Real, n: Int) -> Bool:
    return implies(0 <= f and f < len(V) and 0 <= n and n <= len(V), ssum(supd(V, f, x), n) == ssum(V, n) + ((x - V[f]) if f < n else 0))


@lemma(induct="n")
def pool_prefix_len(K: Seq(Seq(Str)), V: Seq(Real), n: Int) -> Bool:
    return implies(n >= 0, len(pool_prefix(K, V, n)) == n)


@lemma(induct="n")
def wsum_left(a: Seq(Ballot), b: Seq(Ballot), n: Int) -> Bool:
    return implies(0 <= n and n <= len(a), wsum(a + b, n) == wsum(a, n))


@lemma(induct="n", hint=lambda K, V, n: pool_prefix_len(K, V, n - 1) and wsum_left(pool_prefix(K, V, n - 1), (pool_ballot(K[n - 1], V[n - 1]),), n - 1))
def wsum_pool(K: Seq(Seq(Str)), V: Seq(Real), n: Int) -> Bool:
    """the written ballots weigh what the counters hold"""
    return implies(0 <= n and n <= len(K) and n <= len(V), wsum(pool_prefix(K, V, n), n) == ssum(V, n))

"""spec functions for the Bradley-Terry tables (C15); floats read as reals, ** is the uninterpreted real power"""
from pyvc.api import spec, lemma, implies, Int, Real, Float, Bool, Str, CSet, Seq, Ballot, Profile, Opt, Dict, Fraction


@spec
def mkpow(v: Seq(Float), n: Int, m: Int) -> Float:
    """product over the first n entries of v[i] ** (m - i - 1), entries from position m - 1 on contributing nothing"""
    return 1 if n <= 0 else mkpow(v, n - 1, m) * (v[n - 1] ** (m - n) if n - 1 < m - 1 else 1)

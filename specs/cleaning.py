"""spec functions for cleaning.py (C12)"""
from pyvc.api import spec, lemma, implies, Int, Real, Bool, Str, CSet, Seq, Ballot, Profile, Opt, Dict, Fraction
from specs.transfers import wrank, wrank_left


@spec
def keep_ranked(bs: Seq(Ballot), n: Int) -> Seq(Ballot):
    """the ballots among the first n that carry a non-empty ranking, in order"""
    return () if n <= 0 else keep_ranked(bs, n - 1) + ((bs[n - 1],) if bool(bs[n - 1].ranking) else ())


@lemma(induct="n", hint=lambda bs, n, k: wrank_left(keep_ranked(bs, n - 1), keep_ranked(bs, n)[len(keep_ranked(bs, n - 1)):], len(keep_ranked(bs, n - 1)), k))
def wrank_keep_ranked(bs: Seq(Ballot), n: Int, k: Seq(CSet)) -> Bool:
    """dropping the ballots without ranking does not change the weight on any non-empty ranking"""
    return implies(0 <= n and n <= len(bs) and len(k) > 0, wrank(keep_ranked(bs, n), len(keep_ranked(bs, n)), k) == wrank(bs, n, k))

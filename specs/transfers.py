"""spec functions for the transfer rules (C03 / C02 / C07)"""
from pyvc.api import spec, lemma, implies, Int, Real, Bool, Str, CSet, Seq, Ballot, Profile, Opt
from specs.base import nonempty_only, all_ranked, all_ranked_prefix


@spec
def strip(r: Seq(CSet), n: Int, w: Str) -> Seq(CSet):
    """the first n positions with candidate w taken out of each (emptied positions kept)"""
    return () if n <= 0 else strip(r, n - 1, w) + (r[n - 1] - frozenset({w}),)


@spec
def scrub1(r: Seq(CSet), w: Str) -> Seq(CSet):
    """ranking r without candidate w: positions keep their order, emptied positions disappear"""
    return nonempty_only(strip(r, len(r), w), len(strip(r, len(r), w)))


@spec
def ft_weight(b: Ballot, w: Str, tv: Real) -> Real:
    """weight after a fractional transfer at value tv: reduced iff the ballot is led by the winner alone"""
    return b.weight * tv if b.ranking[0] == frozenset({w}) else b.weight


@spec
def twr(bs: Seq(Ballot), n: Int, w: Str, tv: Real, k: Seq(CSet)) -> Real:
    """total transferred weight that the first n ballots put on the continuing ranking k"""
    return 0 if n <= 0 else twr(bs, n - 1, w, tv, k) + (
        ft_weight(bs[n - 1], w, tv) if (scrub1(bs[n - 1].ranking, w) == k and ft_weight(bs[n - 1], w, tv) > 0) else 0)


@spec
def wrank(bs: Seq(Ballot), n: Int, k: Seq(CSet)) -> Real:
    """total weight of the ballots among the first n whose ranking is k"""
    return 0 if n <= 0 else wrank(bs, n - 1, k) + (bs[n - 1].weight if (bs[n - 1].ranking is not None and bs[n - 1].ranking == k) else 0)


@spec
def ft_ballot(b: Ballot, w: Str, tv: Real) -> Ballot:
    """the ballot fractional_transfer writes for input ballot b"""
    return Ballot(ranking=scrub1(b.ranking, w), weight=ft_weight(b, w, tv), voter_set=b.voter_set, id=b.id)


@spec
def ft_prefix(bs: Seq(Ballot), n: Int, w: Str, tv: Real) -> Seq(Ballot):
    return () if n <= 0 else ft_prefix(bs, n - 1, w, tv) + (ft_ballot(bs[n - 1], w, tv),)


@spec
def keep_live(bs: Seq(Ballot), n: Int) -> Seq(Ballot):
    """the ballots among the first n that still have a ranking and positive weight, in order"""
    return () if n <= 0 else keep_live(bs, n - 1) + (
        (bs[n - 1],) if (bs[n - 1].ranking is not None and len(bs[n - 1].ranking) > 0 and bs[n - 1].weight > 0) else ())


@spec
def wlive(bs: Seq(Ballot), n: Int, k: Seq(CSet)) -> Real:
    """weight on ranking k among the live ballots of the first n"""
    return 0 if n <= 0 else wlive(bs, n - 1, k) + (
        bs[n - 1].weight if (bs[n - 1].ranking is not None and len(bs[n - 1].ranking) > 0 and bs[n - 1].weight > 0
                             and bs[n - 1].ranking == k) else 0)


@lemma(induct="n")
def ft_prefix_len(bs: Seq(Ballot), n: Int, w: Str, tv: Real) -> Bool:
    return implies(n >= 0, len(ft_prefix(bs, n, w, tv)) == n)


@lemma(induct="n")
def wrank_left(a: Seq(Ballot), b: Seq(Ballot), n: Int, k: Seq(CSet)) -> Bool:
    return implies(0 <= n and n <= len(a), wrank(a + b, n, k) == wrank(a, n, k))


@lemma(induct="n")
def wlive_left(a: Seq(Ballot), b: Seq(Ballot), n: Int, k: Seq(CSet)) -> Bool:
    return implies(0 <= n and n <= len(a), wlive(a + b, n, k) == wlive(a, n, k))


@lemma(induct="n", hint=lambda bs, n, k: wrank_left(keep_live(bs, n - 1), keep_live(bs, n)[len(keep_live(bs, n - 1)):], len(keep_live(bs, n - 1)), k))
def wrank_keep_live(bs: Seq(Ballot), n: Int, k: Seq(CSet)) -> Bool:
    """weight per ranking survives the live-ballot filter (for non-empty rankings)"""
    return implies(0 <= n and n <= len(bs) and len(k) > 0, wrank(keep_live(bs, n), len(keep_live(bs, n)), k) == wlive(bs, n, k))


@lemma(induct="n", hint=lambda bs, n, w, tv, k: ft_prefix_len(bs, n - 1, w, tv) and ft_prefix_len(bs, n, w, tv)
       and wlive_left(ft_prefix(bs, n - 1, w, tv), ft_prefix(bs, n, w, tv)[n - 1:], n - 1, k))
def wlive_ft_prefix(bs: Seq(Ballot), n: Int, w: Str, tv: Real, k: Seq(CSet)) -> Bool:
    """the live weight per ranking of the transferred ballots is the transferred-weight sum of the definition"""
    return implies(0 <= n and n <= len(bs) and len(k) > 0 and all_ranked(bs, n),
                   wlive(ft_prefix(bs, n, w, tv), n, k) == twr(bs, n, w, tv, k))

"""spec functions and lemmas for PreferenceProfile.__eq__ (C11): two condensed ballot lists that contain each other's ballots give every
content the same weight"""
from pyvc.api import spec, lemma, implies, Int, Real, Bool, Str, CSet, Seq, Ballot, Profile, Opt, Dict, Fraction
from specs.condense import (beq, bfind, cmatch, wcont, bfind_range, cb_prefix, cb_ballot, cb_prefix_len, cb_prefix_nth, cb_distinct,
                            kdist, key_ok, all_wf, wcont_left)


@spec
def nomatch(bs: Seq(Ballot), m: Int, k: Ballot) -> Bool:
    """none of the first m ballots has the content of k"""
    return True if m <= 0 else (nomatch(bs, m - 1, k) and not cmatch(bs[m - 1], k, False))


@spec
def cdist(bs: Seq(Ballot), n: Int) -> Bool:
    """the first n ballots have pairwise different contents"""
    return True if n <= 0 else (cdist(bs, n - 1) and nomatch(bs, n - 1, bs[n - 1]))


@spec
def noid(bs: Seq(Ballot), n: Int) -> Bool:
    """the first n ballots carry neither id nor voter set"""
    return True if n <= 0 else (noid(bs, n - 1) and bs[n - 1].id is None and bs[n - 1].voter_set is None)


@spec
def cfind(bs: Seq(Ballot), n: Int, kb: Ballot) -> Int:
    """index of the first of the first n ballots with the content of kb, -1 if there is none"""
    return -1 if n <= 0 else (cfind(bs, n - 1, kb) if cfind(bs, n - 1, kb) >= 0 else (n - 1 if cmatch(bs[n - 1], kb, False) else -1))


@spec
def allin(a: Seq(Ballot), n: Int, b: Seq(Ballot)) -> Bool:
    """each of the first n ballots of a equals (Ballot.__eq__, element of b on the left) some ballot of b"""
    return True if n <= 0 else (allin(a, n - 1, b) and bfind(b, len(b), a[n - 1]) >= 0)


@lemma
def cm_equiv(a: Ballot, b: Ballot, c: Ballot) -> Bool:
    """having the same content is an equivalence"""
    return (cmatch(a, a, False) and implies(cmatch(a, b, False), cmatch(b, a, False))
            and implies(cmatch(a, b, False) and cmatch(b, c, False), cmatch(a, c, False)))


@lemma
def beq_content(x: Ballot, y: Ballot) -> Bool:
    """equal ballots (left operand without id / voter set) have the same content and the same weight"""
    return implies(beq(x, y), cmatch(x, y, False) and x.weight == y.weight)


@lemma(induct="n")
def cfind_range(bs: Seq(Ballot), n: Int, kb: Ballot) -> Bool:
    return implies(0 <= n and n <= len(bs), -1 <= cfind(bs, n, kb) and cfind(bs, n, kb) < n
                   and implies(cfind(bs, n, kb) >= 0, cmatch(bs[cfind(bs, n, kb)], kb, False)))


@lemma(induct="n")
def cfind_none(bs: Seq(Ballot), n: Int, kb: Ballot, j: Int) -> Bool:
    return implies(0 <= n and n <= len(bs) and cfind(bs, n, kb) < 0 and 0 <= j and j < n, not cmatch(bs[j], kb, False))


@lemma(induct="n")
def wcont_none(bs: Seq(Ballot), n: Int, kb: Ballot) -> Bool:
    return implies(0 <= n and n <= len(bs) and cfind(bs, n, kb) < 0, wcont(bs, n, kb, False) == 0)


@lemma(induct="m")
def nomatch_nth(bs: Seq(Ballot), m: Int, k: Ballot, j: Int) -> Bool:
    return implies(nomatch(bs, m, k) and 0 <= j and j < m, not cmatch(bs[j], k, False))


@lemma(induct="m", hint=lambda bs, m, k, kb: cm_equiv(bs[m - 1], kb, k))
def nomatch_wcont(bs: Seq(Ballot), m: Int, k: Ballot, kb: Ballot) -> Bool:
    """no ballot with the content of k, and k has the content of kb: no weight on kb"""
    return implies(0 <= m and m <= len(bs) and nomatch(bs, m, k) and cmatch(k, kb, False), wcont(bs, m, kb, False) == 0)


@lemma(induct="n", hint=lambda bs, n, j, kb: nomatch_wcont(bs, n - 1, bs[n - 1], kb) and nomatch_nth(bs, n - 1, bs[n - 1], j)
       and cm_equiv(bs[j], kb, bs[n - 1]) and cm_equiv(bs[n - 1], kb, bs[j]) and cm_equiv(bs[j], bs[n - 1], kb))
def wcont_unique(bs: Seq(Ballot), n: Int, j: Int, kb: Ballot) -> Bool:
    """among pairwise different contents the weight of a content is the weight of the one ballot carrying it"""
    return implies(0 <= n and n <= len(bs) and cdist(bs, n) and 0 <= j and j < n and cmatch(bs[j], kb, False),
                   wcont(bs, n, kb, False) == bs[j].weight)


@lemma(induct="n")
def allin_nth(a: Seq(Ballot), n: Int, b: Seq(Ballot), j: Int) -> Bool:
    return implies(allin(a, n, b) and 0 <= j and j < n, bfind(b, len(b), a[j]) >= 0)


@lemma(hint=lambda p1, p2, kb: cfind_range(p1, len(p1), kb) and cfind_range(p2, len(p2), kb)
       and wcont_none(p1, len(p1), kb) and wcont_none(p2, len(p2), kb)
       # kb's content occurs in p1 at c1: its ballot occurs in p2 (at f), with the same content and weight
       and allin_nth(p1, len(p1), p2, cfind(p1, len(p1), kb))
       and bfind_range(p2, len(p2), p1[cfind(p1, len(p1), kb)])
       and beq_content(p2[bfind(p2, len(p2), p1[cfind(p1, len(p1), kb)])], p1[cfind(p1, len(p1), kb)])
       and cm_equiv(p2[bfind(p2, len(p2), p1[cfind(p1, len(p1), kb)])], p1[cfind(p1, len(p1), kb)], kb)
       and wcont_unique(p1, len(p1), cfind(p1, len(p1), kb), kb)
       and wcont_unique(p2, len(p2), bfind(p2, len(p2), p1[cfind(p1, len(p1), kb)]), kb)
       # kb's content does not occur in p1 but occurs in p2 at c2: impossible, that ballot occurs in p1 (at g)
       and allin_nth(p2, len(p2), p1, cfind(p2, len(p2), kb))
       and bfind_range(p1, len(p1), p2[cfind(p2, len(p2), kb)])
       and beq_content(p1[bfind(p1, len(p1), p2[cfind(p2, len(p2), kb)])], p2[cfind(p2, len(p2), kb)])
       and cm_equiv(p1[bfind(p1, len(p1), p2[cfind(p2, len(p2), kb)])], p2[cfind(p2, len(p2), kb)], kb)
       and cfind_none(p1, len(p1), kb, bfind(p1, len(p1), p2[cfind(p2, len(p2), kb)])))
def eq_sound(p1: Seq(Ballot), p2: Seq(Ballot), kb: Ballot) -> Bool:
    """two lists of pairwise different contents that contain each other's ballots give every content the same weight"""
    return implies(cdist(p1, len(p1)) and cdist(p2, len(p2)) and allin(p1, len(p1), p2) and allin(p2, len(p2), p1),
                   wcont(p1, len(p1), kb, False) == wcont(p2, len(p2), kb, False))


# ---------------------------------------------------------------- the ballots condense_ballots writes have pairwise different contents
@lemma(induct="m")
def nomatch_left(a: Seq(Ballot), b: Seq(Ballot), m: Int, k: Ballot) -> Bool:
    return implies(0 <= m and m <= len(a), nomatch(a + b, m, k) == nomatch(a, m, k))


@lemma(induct="n", hint=lambda a, b, n: nomatch_left(a, b, n - 1, a[n - 1]))
def cdist_left(a: Seq(Ballot), b: Seq(Ballot), n: Int) -> Bool:
    return implies(0 <= n and n <= len(a), cdist(a + b, n) == cdist(a, n))


@lemma(induct="m", hint=lambda K, V, n, m: cb_distinct(K, V, n, m - 1, n - 1))
def cb_nomatch(K: Seq(Ballot), V: Seq(Real), n: Int, m: Int) -> Bool:
    return implies(0 <= n and n <= len(K) and n <= len(V) and kdist(K, n) and key_ok(K, n) and all_wf(K, n) and 0 <= m and m <= n - 1,
                   nomatch(cb_prefix(K, V, n), m, cb_prefix(K, V, n)[n - 1]))


@lemma(induct="n", hint=lambda K, V, n: cb_prefix_len(K, V, n - 1) and cb_nomatch(K, V, n, n - 1)
       and cdist_left(cb_prefix(K, V, n - 1), (cb_ballot(K[n - 1], V[n - 1]),), n - 1))
def cb_cdist(K: Seq(Ballot), V: Seq(Real), n: Int) -> Bool:
    return implies(0 <= n and n <= len(K) and n <= len(V) and kdist(K, n) and key_ok(K, n) and all_wf(K, n), cdist(cb_prefix(K, V, n), n))

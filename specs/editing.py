"""spec functions for the ballot-editing utilities (C12, C03)"""
from pyvc.api import spec, lemma, implies, Int, Real, Bool, Str, CSet, Seq, Ballot, Profile, Opt, Dict, Fraction
from specs.transfers import wrank, wlive, keep_live, wrank_left, wlive_left
from specs.base import distinct


@spec
def scrubR(r: Seq(CSet), n: Int, R: CSet) -> Seq(CSet):
    """the first n positions of r without the candidates in the set R; emptied positions disappear, order is kept"""
    return () if n <= 0 else scrubR(r, n - 1, R) + (((r[n - 1] - R),) if len(r[n - 1] - R) > 0 else ())


@spec
def rc_ballot(b: Ballot, R: CSet) -> Ballot:
    """the ballot remove_cand writes for input ballot b: ranking scrubbed, scores of removed candidates dropped, weight kept;
    nothing left => the rankless, scoreless zero-weight ballot"""
    return (Ballot(ranking=scrubR(b.ranking, len(b.ranking), R), weight=b.weight,
                   scores={c: v for c, v in b.scores.items() if c not in R})
            if ((b.ranking is not None and len(scrubR(b.ranking, len(b.ranking), R)) > 0)
                and (b.scores is not None and len({c: v for c, v in b.scores.items() if c not in R}) > 0))
            else (Ballot(ranking=scrubR(b.ranking, len(b.ranking), R), weight=b.weight)
                  if (b.ranking is not None and len(scrubR(b.ranking, len(b.ranking), R)) > 0)
                  else (Ballot(weight=b.weight, scores={c: v for c, v in b.scores.items() if c not in R})
                        if (b.scores is not None and len({c: v for c, v in b.scores.items() if c not in R}) > 0)
                        else Ballot(weight=Fraction(0)))))


@spec
def rc_prefix(bs: Seq(Ballot), n: Int, R: CSet) -> Seq(Ballot):
    return () if n <= 0 else rc_prefix(bs, n - 1, R) + (rc_ballot(bs[n - 1], R),)


@spec
def keep_positive(bs: Seq(Ballot), n: Int) -> Seq(Ballot):
    """the ballots among the first n with positive weight, in order"""
    return () if n <= 0 else keep_positive(bs, n - 1) + ((bs[n - 1],) if bs[n - 1].weight > 0 else ())


@spec
def keep_cands(cs: Seq(Str), n: Int, R: CSet) -> Seq(Str):
    """the candidates among the first n that are not removed, in order"""
    return () if n <= 0 else keep_cands(cs, n - 1, R) + ((cs[n - 1],) if cs[n - 1] not in R else ())


@spec
def all_nonneg(bs: Seq(Ballot), n: Int) -> Bool:
    return True if n <= 0 else (all_nonneg(bs, n - 1) and bs[n - 1].weight >= 0)


@lemma(induct="n")
def rc_prefix_len(bs: Seq(Ballot), n: Int, R: CSet) -> Bool:
    return implies(n >= 0, len(rc_prefix(bs, n, R)) == n)


@lemma(induct="n", hint=lambda bs, n, k: wrank_left(keep_positive(bs, n - 1), keep_positive(bs, n)[len(keep_positive(bs, n - 1)):], len(keep_positive(bs, n - 1)), k))
def wrank_keep_positive(bs: Seq(Ballot), n: Int, k: Seq(CSet)) -> Bool:
    """dropping the ballots without positive weight does not change the weight on any ranking (weights are non-negative)"""
    return implies(0 <= n and n <= len(bs) and all_nonneg(bs, n), wrank(keep_positive(bs, n), len(keep_positive(bs, n)), k) == wrank(bs, n, k))


@lemma(induct="n")
def all_nonneg_left(a: Seq(Ballot), b: Seq(Ballot), n: Int) -> Bool:
    return implies(0 <= n and n <= len(a), all_nonneg(a + b, n) == all_nonneg(a, n))


@lemma(induct="n", unfold=3, hint=lambda bs, n, R: rc_prefix_len(bs, n - 1, R) and rc_prefix_len(bs, n, R)
       and all_nonneg_left(rc_prefix(bs, n - 1, R), rc_prefix(bs, n, R)[n - 1:], n - 1))
def rc_prefix_nonneg(bs: Seq(Ballot), n: Int, R: CSet) -> Bool:
    return implies(0 <= n and n <= len(bs) and all_nonneg(bs, n), all_nonneg(rc_prefix(bs, n, R), n))


@lemma(induct="n")
def keep_cands_members(cs: Seq(Str), n: Int, R: CSet, c: Str) -> Bool:
    """a kept candidate is one of the first n candidates"""
    return implies(0 <= n and n <= len(cs) and c in keep_cands(cs, n, R), c in cs[:n])


@lemma(induct="n")
def distinct_left(a: Seq(Str), b: Seq(Str), n: Int) -> Bool:
    return implies(0 <= n and n <= len(a), distinct(a + b, n) == distinct(a, n))


@lemma(induct="n", hint=lambda cs, n, R: keep_cands_members(cs, n - 1, R, cs[n - 1])
       and distinct_left(keep_cands(cs, n - 1, R), (cs[n - 1],), len(keep_cands(cs, n - 1, R))))
def keep_cands_distinct(cs: Seq(Str), n: Int, R: CSet) -> Bool:
    """filtering a duplicate-free candidate list leaves it duplicate-free"""
    return implies(0 <= n and n <= len(cs) and distinct(cs, n), distinct(keep_cands(cs, n, R), len(keep_cands(cs, n, R))))

"""spec functions for the scoring utilities (C04, C05)"""
from pyvc.api import spec, lemma, implies, Int, Real, Bool, Str, CSet, Seq, Ballot, Profile, Opt, Dict, Fraction


@spec
def sc(b: Ballot, x: Str) -> Real:
    """what ballot b contributes to candidate x's total: weight x score (0 without a score for x)"""
    return (b.scores[x] * b.weight) if (b.scores is not None and x in b.scores) else 0


@spec
def stot(bs: Seq(Ballot), n: Int, x: Str) -> Real:
    return 0 if n <= 0 else stot(bs, n - 1, x) + sc(bs[n - 1], x)


@spec
def all_scored(bs: Seq(Ballot), n: Int) -> Bool:
    """each of the first n ballots carries a non-empty score card"""
    return True if n <= 0 else (all_scored(bs, n - 1) and bool(bs[n - 1].scores))


@spec
def scored_listed(bs: Seq(Ballot), n: Int, C: CSet) -> Bool:
    """every candidate scored by one of the first n ballots is in C"""
    return True if n <= 0 else (scored_listed(bs, n - 1, C) and (bs[n - 1].scores is None or frozenset(bs[n - 1].scores.keys()) <= C))


@lemma(induct="n")
def scored_listed_nth(bs: Seq(Ballot), n: Int, C: CSet, j: Int) -> Bool:
    return implies(scored_listed(bs, n, C) and 0 <= j and j < n, bs[j].scores is None or frozenset(bs[j].scores.keys()) <= C)


@lemma(induct="n")
def all_scored_prefix(bs: Seq(Ballot), j: Int, n: Int) -> Bool:
    return implies(0 <= j and j <= n and all_scored(bs, n), all_scored(bs, j))


@spec
def occ(r: Seq(CSet), n: Int, x: Str) -> Int:
    """number of positions among the first n of ranking r that list candidate x"""
    return 0 if n <= 0 else occ(r, n - 1, x) + (1 if x in r[n - 1] else 0)


@spec
def ment(b: Ballot, x: Str) -> Real:
    """what ballot b contributes to x's mentions: its weight for every position listing x"""
    return occ(b.ranking, len(b.ranking), x) * b.weight if b.ranking is not None else 0


@spec
def mtot(bs: Seq(Ballot), n: Int, x: Str) -> Real:
    return 0 if n <= 0 else mtot(bs, n - 1, x) + ment(bs[n - 1], x)


@spec
def all_ranked_ne(bs: Seq(Ballot), n: Int) -> Bool:
    """each of the first n ballots has a non-empty ranking"""
    return True if n <= 0 else (all_ranked_ne(bs, n - 1) and bool(bs[n - 1].ranking))


@spec
def pos_listed(r: Seq(CSet), n: Int, C: CSet) -> Bool:
    return True if n <= 0 else (pos_listed(r, n - 1, C) and r[n - 1] <= C)


@spec
def ranked_listed(bs: Seq(Ballot), n: Int, C: CSet) -> Bool:
    """every candidate ranked by one of the first n ballots is in C"""
    return True if n <= 0 else (ranked_listed(bs, n - 1, C) and (bs[n - 1].ranking is None or pos_listed(bs[n - 1].ranking, len(bs[n - 1].ranking), C)))


@lemma(induct="n")
def pos_listed_nth(r: Seq(CSet), n: Int, C: CSet, j: Int) -> Bool:
    return implies(pos_listed(r, n, C) and 0 <= j and j < n, r[j] <= C)


@lemma(induct="n")
def ranked_listed_nth(bs: Seq(Ballot), n: Int, C: CSet, j: Int) -> Bool:
    return implies(ranked_listed(bs, n, C) and 0 <= j and j < n, bs[j].ranking is None or pos_listed(bs[j].ranking, len(bs[j].ranking), C))


@lemma(induct="n")
def all_ranked_ne_prefix(bs: Seq(Ballot), j: Int, n: Int) -> Bool:
    return implies(0 <= j and j <= n and all_ranked_ne(bs, n), all_ranked_ne(bs, j))


# ---------------------------------------------------------------- add_missing_cands
from specs.base import union_upto  # noqa: E402
from specs.transfers import wrank  # noqa: E402


@spec
def amc_rank(r: Seq(CSet), C: CSet) -> Seq(CSet):
    """ranking r with the candidates of C it does not list appended as one last tied position (if there are any)"""
    return r + ((C - union_upto(r, len(r))),) if len(C - union_upto(r, len(r))) > 0 else r


@spec
def amc_ballot(b: Ballot, C: CSet) -> Ballot:
    return Ballot(id=b.id, weight=b.weight, voter_set=b.voter_set, ranking=amc_rank(b.ranking, C))


@spec
def amc_prefix(bs: Seq(Ballot), n: Int, C: CSet) -> Seq(Ballot):
    return () if n <= 0 else amc_prefix(bs, n - 1, C) + (amc_ballot(bs[n - 1], C),)


@lemma(induct="n")
def amc_prefix_len(bs: Seq(Ballot), n: Int, C: CSet) -> Bool:
    return implies(n >= 0, len(amc_prefix(bs, n, C)) == n)

"""spec functions for the scoring utilities (C04, C05)"""
from pyvc.api import spec, lemma, implies, Int, Real, Bool, Str, CSet, Seq, Ballot, Profile, Opt, Dict, Fraction


@spec
def sc(b: Ballot, x: Str) -> Real:
    """what ballot b contributes to candidate x's total: weight x score (0 without a score for x)"""
    return (b.scores[x] * b.weight) if (b.scores is not None and x in b.scores) else 0


@spec
def stot(bs: Seq(Ballot), n: Int, x: Str) -> Real:
    return 0 if n <= 0 else stot(bs, n - 1, x) + sc(bs[n - 1], x)


@spec
def all_scored(bs: Seq(Ballot), n: Int) -> Bool:
    """each of the first n ballots carries a non-empty score card"""
    return True if n <= 0 else (all_scored(bs, n - 1) and bool(bs[n - 1].scores))


@spec
def scored_listed(bs: Seq(Ballot), n: Int, C: CSet) -> Bool:
    """every candidate scored by one of the first n ballots is in C"""
    return True if n <= 0 else (scored_listed(bs, n - 1, C) and (bs[n - 1].scores is None or frozenset(bs[n - 1].scores.keys()) <= C))


@lemma(induct="n")
def scored_listed_nth(bs: Seq(Ballot), n: Int, C: CSet, j: Int) -> Bool:
    return implies(scored_listed(bs, n, C) and 0 <= j and j < n, bs[j].scores is None or frozenset(bs[j].scores.keys()) <= C)


@lemma(induct="n")
def all_scored_prefix(bs: Seq(Ballot), j: Int, n: Int) -> Bool:
    return implies(0 <= j and j <= n and all_scored(bs, n), all_scored(bs, j))


@spec
def occ(r: Seq(CSet), n: Int, x: Str) -> Int:
    """number of positions among the first n of ranking r that list candidate x"""
    return 0 if n <= 0 else occ(r, n - 1, x) + (1 if x in r[n - 1] else 0)


@spec
def ment(b: Ballot, x: Str) -> Real:
    """what ballot b contributes to x's mentions: its weight for every position listing x"""
    return occ(b.ranking, len(b.ranking), x) * b.weight if b.ranking is not None else 0


@spec
def mtot(bs: Seq(Ballot), n: Int, x: Str) -> Real:
    return 0 if n <= 0 else mtot(bs, n - 1, x) + ment(bs[n - 1], x)


@spec
def all_ranked_ne(bs: Seq(Ballot), n: Int) -> Bool:
    """each of the first n ballots has a non-empty ranking"""
    return True if n <= 0 else (all_ranked_ne(bs, n - 1) and bool(bs[n - 1].ranking))


@spec
def pos_listed(r: Seq(CSet), n: Int, C: CSet) -> Bool:
    return True if n <= 0 else (pos_listed(r, n - 1, C) and r[n - 1] <= C)


@spec
def ranked_listed(bs: Seq(Ballot), n: Int, C: CSet) -> Bool:
    """every candidate ranked by one of the first n ballots is in C"""
    return True if n <= 0 else (ranked_listed(bs, n - 1, C) and (bs[n - 1].ranking is None or pos_listed(bs[n - 1].ranking, len(bs[n - 1].ranking), C)))


@lemma(induct="n")
def pos_listed_nth(r: Seq(CSet), n: Int, C: CSet, j: Int) -> Bool:
    return implies(pos_listed(r, n, C) and 0 <= j and j < n, r[j] <= C)


@lemma(induct="n")
def ranked_listed_nth(bs: Seq(Ballot), n: Int, C: CSet, j: Int) -> Bool:
    return implies(ranked_listed(bs, n, C) and 0 <= j and j < n, bs[j].ranking is None or pos_listed(bs[j].ranking, len(bs[j].ranking), C))


@lemma(induct="n")
def all_ranked_ne_prefix(bs: Seq(Ballot), j: Int, n: Int) -> Bool:
    return implies(0 <= j and j <= n and all_ranked_ne(bs, n), all_ranked_ne(bs, j))


# ---------------------------------------------------------------- add_missing_cands
from specs.base import union_upto  # noqa: E402
from specs.transfers import wrank  # noqa: E402


@spec
def amc_rank(r: Seq(CSet), C: CSet) -> Seq(CSet):
    """ranking r with the candidates of C it does not list appended as one last tied position (if there are any)"""
    return r + ((C - union_upto(r, len(r))),) if len(C - union_upto(r, len(r))) > 0 else r


@spec
def amc_ballot(b: Ballot, C: CSet) -> Ballot:
    return Ballot(id=b.id, weight=b.weight, voter_set=b.voter_set, ranking=amc_rank(b.ranking, C))


@spec
def amc_prefix(bs: Seq(Ballot), n: Int, C: CSet) -> Seq(Ballot):
    return () if n <= 0 else amc_prefix(bs, n - 1, C) + (amc_ballot(bs[n - 1], C),)


@lemma(induct="n")
def amc_prefix_len(bs: Seq(Ballot), n: Int, C: CSet) -> Bool:
    return implies(n >= 0, len(amc_prefix(bs, n, C)) == n)


# ---------------------------------------------------------------- positional scores (score_profile_from_rankings)
from specs.base import count  # noqa: E402


@spec(opaque=True)
def alloc(sv: Seq(Real), a: Int, size: Int) -> Real:
    """the points each of `size` candidates tied at places a .. a+size-1 receives: the average of the vector's entries there"""
    return sum(sv[a:a + size]) / size


@spec(opaque=True)
def pts(r: Seq(CSet), n: Int, sv: Seq(Real), x: Str) -> Real:
    """the points candidate x receives from the first n positions of ranking r under score vector sv"""
    return 0 if n <= 0 else pts(r, n - 1, sv, x) + (alloc(sv, count(r, n - 1), len(r[n - 1])) if x in r[n - 1] else 0)


@spec
def wpts(bs: Seq(Ballot), n: Int, sv: Seq(Real), x: Str) -> Real:
    """sum over the first n ballots of weight x points of x"""
    return 0 if n <= 0 else wpts(bs, n - 1, sv, x) + (bs[n - 1].weight * pts(bs[n - 1].ranking, len(bs[n - 1].ranking), sv, x)
                                                      if bs[n - 1].ranking is not None else 0)


from specs.base import repl  # noqa: E402


@spec
def padded(sv: Seq(Real), n: Int) -> Seq(Real):
    """the score vector filled up with zeros to n entries (left as it is when it is already that long)"""
    return tuple(sv) + repl(0, n - len(sv)) if len(sv) < n else tuple(sv)


@lemma(induct="n")
def repl_len(x: Real, n: Int) -> Bool:
    return implies(n >= 0, len(repl(x, n)) == n)


# ---------------------------------------------------------------- well-formed rankings over a candidate set
@spec
def npos_listed(r: Seq(CSet), n: Int, C: CSet) -> Bool:
    """each of the first n positions is non-empty and lists candidates of C only"""
    return True if n <= 0 else (npos_listed(r, n - 1, C) and len(r[n - 1]) > 0 and r[n - 1] <= C)


@spec(opaque=True)
def rk_ok(r: Opt(Seq(CSet)), C: CSet) -> Bool:
    """r is a non-empty ranking whose positions are non-empty and list candidates of C only"""
    return r is not None and len(r) > 0 and npos_listed(r, len(r), C)


@spec
def all_rk_ok(bs: Seq(Ballot), n: Int, C: CSet) -> Bool:
    return True if n <= 0 else (all_rk_ok(bs, n - 1, C) and rk_ok(bs[n - 1].ranking, C))


@lemma(induct="n")
def all_rk_ok_nth(bs: Seq(Ballot), n: Int, C: CSet, j: Int) -> Bool:
    return implies(all_rk_ok(bs, n, C) and 0 <= j and j < n, rk_ok(bs[j].ranking, C))


@lemma(induct="n")
def all_rk_ok_app(bs: Seq(Ballot), b: Ballot, n: Int, C: CSet) -> Bool:
    return implies(0 <= n and n <= len(bs), all_rk_ok(bs + (b,), n, C) == all_rk_ok(bs, n, C))


@lemma(induct="n")
def npos_listed_nth(r: Seq(CSet), n: Int, C: CSet, j: Int) -> Bool:
    return implies(npos_listed(r, n, C) and 0 <= j and j < n, len(r[j]) > 0 and r[j] <= C)


@lemma(induct="n")
def npos_listed_app(r: Seq(CSet), s: CSet, n: Int, C: CSet) -> Bool:
    return implies(0 <= n and n <= len(r), npos_listed(r + (s,), n, C) == npos_listed(r, n, C))


@lemma(reveal=("rk_ok",), hint=lambda b, C: npos_listed_app(b.ranking, C - union_upto(b.ranking, len(b.ranking)), len(b.ranking), C), unfold=3)
def amc_ballot_ok(b: Ballot, C: CSet) -> Bool:
    """completing a well-formed ballot keeps it well-formed"""
    return implies(rk_ok(b.ranking, C), rk_ok(amc_ballot(b, C).ranking, C))


@lemma(induct="n", hint=lambda bs, n, C: amc_prefix_len(bs, n - 1, C) and amc_ballot_ok(bs[n - 1], C)
       and all_rk_ok_app(amc_prefix(bs, n - 1, C), amc_ballot(bs[n - 1], C), n - 1, C))
def amc_prefix_ok(bs: Seq(Ballot), n: Int, C: CSet) -> Bool:
    return implies(0 <= n and n <= len(bs) and all_rk_ok(bs, n, C), all_rk_ok(amc_prefix(bs, n, C), n, C))


@lemma(reveal=("alloc",))
def alloc_unfold(sv: Seq(Real), a: Int, size: Int, slc: Seq(Real)) -> Bool:
    return implies(slc == sv[a:a + size], alloc(sv, a, size) == sum(slc) / size)


@spec
def wpos(r: Seq(CSet), n: Int, sv: Seq(Real), x: Str, w: Real) -> Real:
    """what a ballot of weight w adds to x's score over its first n positions (weight multiplied position by position, as the code does)"""
    return 0 if n <= 0 else wpos(r, n - 1, sv, x, w) + (alloc(sv, count(r, n - 1), len(r[n - 1])) * w if x in r[n - 1] else 0)


@lemma(induct="n", reveal=("pts",))
def wpos_linear(r: Seq(CSet), n: Int, sv: Seq(Real), x: Str, w: Real) -> Bool:
    return wpos(r, n, sv, x, w) == w * pts(r, n, sv, x)

"""spec functions for metrics/distances.py lp_dist (C19); floats are read as reals (A-FLOAT), x ** y is the uninterpreted real power"""
from pyvc.api import spec, lemma, implies, Int, Real, Float, Bool, Str, CSet, Seq, Ballot, Profile, Opt, Dict, Fraction


@spec(opaque=True)
def nd_cols(profiles: Seq(Profile)) -> Seq(Seq(Float)):
    """the columns of profiles_to_ndarrys(profiles): column k is profile k's normalised ranking-weight distribution over the rows
    (one per ranking cast in any of the profiles).  Uninterpreted for the solver; CPython runs the real function."""
    from votekit.metrics.distances import profiles_to_ndarrys
    arr = profiles_to_ndarrys(list(profiles))
    return tuple(tuple(float(x) for x in arr[:, k]) for k in range(arr.shape[1]))


@spec
def rect(cols: Seq(Seq(Float)), n: Int) -> Bool:
    """the first n columns have the length of column 0 (a 2-d array is rectangular)"""
    return True if n <= 0 else (rect(cols, n - 1) and len(cols[n - 1]) == len(cols[0]))


@spec
def lpsum(a: Seq(Float), b: Seq(Float), n: Int, p: Int) -> Float:
    """sum of |a_i - b_i| ** p over the first n rows"""
    return 0 if n <= 0 else lpsum(a, b, n - 1, p) + abs(a[n - 1] - b[n - 1]) ** p


@spec
def maxabs(a: Seq(Float), b: Seq(Float), n: Int) -> Float:
    """largest |a_i - b_i| over the first n rows (n >= 1)"""
    return abs(a[0] - b[0]) if n <= 1 else (maxabs(a, b, n - 1) if maxabs(a, b, n - 1) >= abs(a[n - 1] - b[n - 1]) else abs(a[n - 1] - b[n - 1]))


@spec
def attained(a: Seq(Float), b: Seq(Float), n: Int, x: Float) -> Bool:
    """x is one of |a_i - b_i|, i < n"""
    return False if n <= 0 else (attained(a, b, n - 1, x) or abs(a[n - 1] - b[n - 1]) == x)


@lemma(induct="n")
def attained_at(a: Seq(Float), b: Seq(Float), j: Int, n: Int, x: Float) -> Bool:
    return implies(0 <= j and j < n and abs(a[j] - b[j]) == x, attained(a, b, n, x))

"""spec functions for the pairwise comparison graph (C06)"""
from pyvc.api import spec, lemma, implies, Int, Real, Bool, Str, CSet, Seq, Ballot, Profile, Opt, Dict, Fraction


@spec
def seen(r: Seq(CSet), n: Int, a: Str, b: Str) -> Bool:
    """one of the first n positions of r lists a or b"""
    return False if n <= 0 else (seen(r, n - 1, a, b) or a in r[n - 1] or b in r[n - 1])


@spec
def pw(r: Seq(CSet), n: Int, a: Str, b: Str) -> Int:
    """1 if, among the first n positions of r, the first one listing a or b lists a (a is preferred to b, or tied at that
    position and named first), else 0"""
    return 0 if n <= 0 else (pw(r, n - 1, a, b) if seen(r, n - 1, a, b) else (1 if a in r[n - 1] else 0))


@spec
def h2h(bs: Seq(Ballot), n: Int, a: Str, b: Str) -> Real:
    """total weight of the ballots among the first n that prefer a to b"""
    return 0 if n <= 0 else h2h(bs, n - 1, a, b) + (bs[n - 1].weight * pw(bs[n - 1].ranking, len(bs[n - 1].ranking), a, b) if bs[n - 1].ranking is not None else 0)


@lemma(induct="n")
def pw_unseen(r: Seq(CSet), n: Int, a: Str, b: Str) -> Bool:
    return implies(not seen(r, n, a, b), pw(r, n, a, b) == 0)


@lemma(induct="n")
def pw_stable(r: Seq(CSet), j: Int, n: Int, a: Str, b: Str) -> Bool:
    """once a position listing a or b has been met, later positions do not matter"""
    return implies(0 <= j and j <= n and seen(r, j, a, b), pw(r, n, a, b) == pw(r, j, a, b) and seen(r, n, a, b))


@spec
def all_have_ranking(bs: Seq(Ballot), n: Int) -> Bool:
    return True if n <= 0 else (all_have_ranking(bs, n - 1) and bs[n - 1].ranking is not None)


@lemma(induct="n")
def all_have_ranking_prefix(bs: Seq(Ballot), j: Int, n: Int) -> Bool:
    return implies(0 <= j and j <= n and all_have_ranking(bs, n), all_have_ranking(bs, j))

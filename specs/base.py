"""Shared spec functions (DESIGN section 3).  Total recursive Python functions: CPython runs
them as written; the symbolic back end turns each into an uninterpreted symbol whose
definition is unfolded at the applications that occur."""
from pyvc.api import spec, lemma, implies, Int, Real, Bool, Str, CSet, Seq, Ballot, Profile


@spec
def ssum(v: Seq(Real), n: Int) -> Real:
    """sum of the first n entries"""
    return 0 if n <= 0 else ssum(v, n - 1) + v[n - 1]


@spec
def isum(v: Seq(Int), n: Int) -> Int:
    return 0 if n <= 0 else isum(v, n - 1) + v[n - 1]


@spec
def count(r: Seq(CSet), n: Int) -> Int:
    """number of candidates in the first n positions of a ranking"""
    return 0 if n <= 0 else count(r, n - 1) + len(r[n - 1])


@spec
def vec_ok(v: Seq(Real), n: Int) -> Bool:
    """first n entries are non-negative and non-increasing"""
    return True if n <= 0 else (vec_ok(v, n - 1) and v[n - 1] >= 0 and (n == 1 or v[n - 1] <= v[n - 2]))


@spec
def nonempty_positions(r: Seq(CSet), n: Int) -> Bool:
    return True if n <= 0 else (nonempty_positions(r, n - 1) and len(r[n - 1]) > 0)


@lemma(induct="n")
def vec_ok_prefix(v: Seq(Real), j: Int, n: Int) -> Bool:
    """prefix closure of vec_ok"""
    return implies(0 <= j and j <= n and vec_ok(v, n), vec_ok(v, j))


# ---------------------------------------------------------------- rankings (tuples of candidate sets)
@spec
def singletons(r: Seq(CSet), n: Int) -> Bool:
    """the first n positions are single candidates"""
    return True if n <= 0 else (singletons(r, n - 1) and len(r[n - 1]) == 1)


@spec
def first_reach(r: Seq(CSet), m: Int, j: Int) -> Int:
    """smallest index i >= j whose position makes the cumulative candidate count reach m
    (len(r) if none)"""
    return j if (j >= len(r) or count(r, j + 1) >= m) else first_reach(r, m, j + 1)


@lemma(induct="n")
def count_nonneg(r: Seq(CSet), n: Int) -> Bool:
    return count(r, n) >= 0


@lemma(induct="n")
def count_mono(r: Seq(CSet), j: Int, n: Int) -> Bool:
    return implies(0 <= j and j <= n, count(r, j) <= count(r, n))


@lemma(induct="n")
def count_take(r: Seq(CSet), i: Int, n: Int) -> Bool:
    """counting in a prefix r[:i]"""
    return implies(0 <= n and n <= i and i <= len(r), count(r[:i], n) == count(r, n))


@lemma(induct="n")
def count_left(a: Seq(CSet), b: Seq(CSet), n: Int) -> Bool:
    """counting inside the left part of a concatenation"""
    return implies(0 <= n and n <= len(a), count(a + b, n) == count(a, n))


@lemma(induct="n", hint=lambda a, b: count_left(a, b, len(a)))
def count_append(a: Seq(CSet), b: Seq(CSet), n: Int) -> Bool:
    """counting across a concatenation"""
    return implies(0 <= n and n <= len(b), count(a + b, len(a) + n) == count(a, len(a)) + count(b, n))


@lemma(induct="n")
def singletons_prefix(t: Seq(CSet), j: Int, n: Int) -> Bool:
    return implies(0 <= j and j <= n and singletons(t, n), singletons(t, j))


@lemma(induct="n", hint=lambda t, n: singletons_prefix(t, n, len(t)))
def count_singletons(t: Seq(CSet), n: Int) -> Bool:
    return implies(0 <= n and n <= len(t) and singletons(t, len(t)), count(t, n) == n)


@spec
def union_upto(r: Seq(CSet), n: Int) -> CSet:
    """union of the first n positions"""
    return frozenset() if n <= 0 else (union_upto(r, n - 1) | r[n - 1])


@spec
def lin(t: Seq(CSet), s: CSet) -> Bool:
    """t is a strict order (sequence of singletons) of exactly the candidates of s"""
    return len(t) == len(s) and singletons(t, len(t)) and union_upto(t, len(t)) == s


@lemma
def take_snoc(r: Seq(CSet), i: Int) -> Bool:
    """a prefix extended by the next element is the next prefix"""
    return implies(0 <= i and i < len(r), r[:i] + (r[i],) == r[:i + 1])

"""Shared spec functions (DESIGN section 3).  Total recursive Python functions: CPython runs
them as written; the symbolic back end turns each into an uninterpreted symbol whose
definition is unfolded at the applications that occur."""
from pyvc.api import spec, lemma, implies, Int, Real, Bool, Str, CSet, Seq, Ballot, Profile, Opt, dsum, StateRef, reversed_seq


@spec
def ssum(v: Seq(Real), n: Int) -> Real:
    """sum of the first n entries"""
    return 0 if n <= 0 else ssum(v, n - 1) + v[n - 1]


@spec
def elems(s: Seq(Str), n: Int) -> CSet:
    """the set of the first n entries of s"""
    return frozenset() if n <= 0 else (elems(s, n - 1) | frozenset([s[n - 1]]))


@spec
def repl(x: Real, n: Int) -> Seq(Real):
    """[x] * n"""
    return () if n <= 0 else repl(x, n - 1) + (x,)


@spec
def desc(n: Int, k: Int) -> Seq(Real):
    """the first k entries of (n, n-1, ..., 1)"""
    return () if k <= 0 else desc(n, k - 1) + (n - k + 1,)


@spec
def isum(v: Seq(Int), n: Int) -> Int:
    return 0 if n <= 0 else isum(v, n - 1) + v[n - 1]


@spec
def count(r: Seq(CSet), n: Int) -> Int:
    """number of candidates in the first n positions of a ranking"""
    return 0 if n <= 0 else count(r, n - 1) + len(r[n - 1])


@spec
def vec_ok(v: Seq(Real), n: Int) -> Bool:
    """first n entries are non-negative and non-increasing"""
    return True if n <= 0 else (vec_ok(v, n - 1) and v[n - 1] >= 0 and (n == 1 or v[n - 1] <= v[n - 2]))


@spec
def nonempty_positions(r: Seq(CSet), n: Int) -> Bool:
    return True if n <= 0 else (nonempty_positions(r, n - 1) and len(r[n - 1]) > 0)


@lemma(induct="n")
def vec_ok_prefix(v: Seq(Real), j: Int, n: Int) -> Bool:
    """prefix closure of vec_ok"""
    return implies(0 <= j and j <= n and vec_ok(v, n), vec_ok(v, j))


# ---------------------------------------------------------------- rankings (tuples of candidate sets)
@spec
def singletons(r: Seq(CSet), n: Int) -> Bool:
    """the first n positions are single candidates"""
    return True if n <= 0 else (singletons(r, n - 1) and len(r[n - 1]) == 1)


@spec
def first_reach(r: Seq(CSet), m: Int, j: Int) -> Int:
    """smallest index i >= j whose position makes the cumulative candidate count reach m
    (len(r) if none)"""
    return j if (j >= len(r) or count(r, j + 1) >= m) else first_reach(r, m, j + 1)


@lemma(induct="n")
def count_nonneg(r: Seq(CSet), n: Int) -> Bool:
    return count(r, n) >= 0


@lemma(induct="n")
def count_mono(r: Seq(CSet), j: Int, n: Int) -> Bool:
    return implies(0 <= j and j <= n, count(r, j) <= count(r, n))


@lemma(induct="n")
def count_take(r: Seq(CSet), i: Int, n: Int) -> Bool:
    """counting in a prefix r[:i]"""
    return implies(0 <= n and n <= i and i <= len(r), count(r[:i], n) == count(r, n))


@lemma(induct="n")
def count_left(a: Seq(CSet), b: Seq(CSet), n: Int) -> Bool:
    """counting inside the left part of a concatenation"""
    return implies(0 <= n and n <= len(a), count(a + b, n) == count(a, n))


@lemma(induct="n", hint=lambda a, b: count_left(a, b, len(a)))
def count_append(a: Seq(CSet), b: Seq(CSet), n: Int) -> Bool:
    """counting across a concatenation"""
    return implies(0 <= n and n <= len(b), count(a + b, len(a) + n) == count(a, len(a)) + count(b, n))


@lemma(induct="n")
def singletons_prefix(t: Seq(CSet), j: Int, n: Int) -> Bool:
    return implies(0 <= j and j <= n and singletons(t, n), singletons(t, j))


@lemma(induct="n", hint=lambda t, n: singletons_prefix(t, n, len(t)))
def count_singletons(t: Seq(CSet), n: Int) -> Bool:
    return implies(0 <= n and n <= len(t) and singletons(t, len(t)), count(t, n) == n)


@spec
def union_upto(r: Seq(CSet), n: Int) -> CSet:
    """union of the first n positions"""
    return frozenset() if n <= 0 else (union_upto(r, n - 1) | r[n - 1])


@spec
def lin(t: Seq(CSet), s: CSet) -> Bool:
    """t is a strict order (sequence of singletons) of exactly the candidates of s"""
    return len(t) == len(s) and singletons(t, len(t)) and union_upto(t, len(t)) == s


@lemma
def take_snoc(r: Seq(CSet), i: Int) -> Bool:
    """a prefix extended by the next element is the next prefix"""
    return implies(0 <= i and i < len(r), r[:i] + (r[i],) == r[:i + 1])


# ---------------------------------------------------------------- ballots / profiles
@spec
def wsum(bs: Seq(Ballot), n: Int) -> Real:
    """total weight of the first n ballots"""
    return 0 if n <= 0 else wsum(bs, n - 1) + bs[n - 1].weight


@spec
def distinct(cs: Seq(Str), n: Int) -> Bool:
    """the first n names are pairwise different"""
    return True if n <= 0 else (distinct(cs, n - 1) and cs[n - 1] not in cs[:n - 1])


@spec(opaque=True)
def boundary_tie(profile: Profile, m: Int, tiebreak: Opt(Str)) -> Bool:
    """the count of this profile meets candidates tied on the deciding tally across the last
    seat and cannot break the tie (uninterpreted for the solver: it only has to be the same
    condition in the constructor's contract and in Election.__init__'s assumed contract)"""
    raise NotImplementedError("opaque spec function: not evaluable natively")


@spec
def all_ranked(bs: Seq(Ballot), n: Int) -> Bool:
    """each of the first n ballots has a non-empty ranking"""
    return True if n <= 0 else (all_ranked(bs, n - 1) and bs[n - 1].ranking is not None and len(bs[n - 1].ranking) > 0)


@lemma(induct="n")
def all_ranked_prefix(bs: Seq(Ballot), j: Int, n: Int) -> Bool:
    return implies(0 <= j and j <= n and all_ranked(bs, n), all_ranked(bs, j))


@spec
def ballot_untied(b: Ballot) -> Bool:
    """the ballot has a non-empty ranking without tied positions"""
    return b.ranking is not None and len(b.ranking) > 0 and all(len(s) <= 1 for s in b.ranking)


@spec
def all_untied(bs: Seq(Ballot), n: Int) -> Bool:
    return True if n <= 0 else (all_untied(bs, n - 1) and ballot_untied(bs[n - 1]))


@lemma(induct="n")
def all_untied_prefix(bs: Seq(Ballot), j: Int, n: Int) -> Bool:
    return implies(0 <= j and j <= n and all_untied(bs, n), all_untied(bs, j))


@lemma(induct="n")
def untied_implies_ranked(bs: Seq(Ballot), n: Int) -> Bool:
    return implies(all_untied(bs, n), all_ranked(bs, n))


# ---------------------------------------------------------------- recorded rounds (C09)
@spec
def cat_elected(states: Seq(StateRef), n: Int) -> Seq(CSet):
    """concatenation of the non-placeholder `elected` records of the first n states"""
    return () if n <= 0 else cat_elected(states, n - 1) + (states[n - 1].elected if states[n - 1].elected != (frozenset(),) else ())


@lemma(induct="n")
def cat_elected_take(states: Seq(StateRef), i: Int, n: Int) -> Bool:
    return implies(0 <= n and n <= i and i <= len(states), cat_elected(states[:i], n) == cat_elected(states, n))


@spec
def cat_eliminated_rev(src: Seq(StateRef), n: Int) -> Seq(CSet):
    """over the first n states of `src` (already listed latest round first): their non-placeholder `eliminated`
    records, each reversed, concatenated"""
    return () if n <= 0 else cat_eliminated_rev(src, n - 1) + (
        reversed_seq(src[n - 1].eliminated) if src[n - 1].eliminated != (frozenset(),) else ())


@spec
def nonempty_only(r: Seq(CSet), n: Int) -> Seq(CSet):
    """the non-empty positions among the first n, in order"""
    return () if n <= 0 else nonempty_only(r, n - 1) + ((r[n - 1],) if len(r[n - 1]) != 0 else ())


@spec(opaque=True)
def step_fn(profile: Profile, state: StateRef) -> Profile:
    """the profile a rule's _run_step(profile, state, store_states=False) returns (uninterpreted: replay is a function of
    its two arguments -- the per-rule frame obligations show it stores nothing; determinism holds when no random choice is made)"""
    raise NotImplementedError("opaque")


@spec
def replay(p: Profile, states: Seq(StateRef), n: Int) -> Profile:
    """the initial profile pushed through the first n recorded rounds"""
    return p if n <= 0 else step_fn(replay(p, states, n - 1), states[n - 1])


@lemma(induct="n")
def distinct_at(cs: Seq(Str), i: Int, j: Int, n: Int) -> Bool:
    """pairwise different names differ at any two different positions"""
    return implies(distinct(cs, n) and 0 <= i and i < j and j < n and n <= len(cs), cs[i] != cs[j])


@lemma
def nth_in(cs: Seq(Str), k: Int) -> Bool:
    return implies(0 <= k and k < len(cs), cs[k] in cs)

"""Shared spec functions (DESIGN section 3).  Total recursive Python functions: CPython runs
them as written; the symbolic back end turns each into an uninterpreted symbol whose
definition is unfolded at the applications that occur."""
from pyvc.api import spec, lemma, implies, Int, Real, Bool, Str, CSet, Seq, Ballot, Profile


@spec
def ssum(v: Seq(Real), n: Int) -> Real:
    """sum of the first n entries"""
    return 0 if n <= 0 else ssum(v, n - 1) + v[n - 1]


@spec
def isum(v: Seq(Int), n: Int) -> Int:
    return 0 if n <= 0 else isum(v, n - 1) + v[n - 1]


@spec
def count(r: Seq(CSet), n: Int) -> Int:
    """number of candidates in the first n positions of a ranking"""
    return 0 if n <= 0 else count(r, n - 1) + len(r[n - 1])


@spec
def vec_ok(v: Seq(Real), n: Int) -> Bool:
    """first n entries are non-negative and non-increasing"""
    return True if n <= 0 else (vec_ok(v, n - 1) and v[n - 1] >= 0 and (n == 1 or v[n - 1] <= v[n - 2]))


@spec
def nonempty_positions(r: Seq(CSet), n: Int) -> Bool:
    return True if n <= 0 else (nonempty_positions(r, n - 1) and len(r[n - 1]) > 0)


@lemma(induct="n")
def vec_ok_prefix(v: Seq(Real), j: Int, n: Int) -> Bool:
    """prefix closure of vec_ok"""
    return implies(0 <= j and j <= n and vec_ok(v, n), vec_ok(v, j))

"""spec functions for RandomDictator / BoostedRandomDictator (C17)"""
from pyvc.api import spec, lemma, implies, Int, Real, Bool, Str, CSet, Seq, Ballot, Profile, Opt, Dict, Fraction
from specs.base import ssum, wsum


@spec
def weights_of(bs: Seq(Ballot), n: Int) -> Seq(Real):
    """the weights of the first n ballots, in order"""
    return () if n <= 0 else weights_of(bs, n - 1) + (bs[n - 1].weight,)


@lemma(induct="n")
def weights_of_len(bs: Seq(Ballot), n: Int) -> Bool:
    return implies(n >= 0, len(weights_of(bs, n)) == n)


@lemma(induct="n")
def ssum_left(a: Seq(Real), b: Seq(Real), n: Int) -> Bool:
    return implies(0 <= n and n <= len(a), ssum(a + b, n) == ssum(a, n))


@lemma(induct="n", hint=lambda bs, n: weights_of_len(bs, n - 1) and ssum_left(weights_of(bs, n - 1), (bs[n - 1].weight,), n - 1))
def weights_of_sum(bs: Seq(Ballot), n: Int) -> Bool:
    """the weights add up to the profile's total weight"""
    return implies(0 <= n and n <= len(bs), ssum(weights_of(bs, n), n) == wsum(bs, n))


@spec
def first_nonempty(bs: Seq(Ballot), n: Int) -> Bool:
    """every ranked ballot among the first n has a non-empty first position"""
    return True if n <= 0 else (first_nonempty(bs, n - 1) and (not bool(bs[n - 1].ranking) or len(bs[n - 1].ranking[0]) > 0))


@lemma(induct="n")
def first_nonempty_nth(bs: Seq(Ballot), n: Int, j: Int) -> Bool:
    return implies(first_nonempty(bs, n) and 0 <= j and j < n, not bool(bs[j].ranking) or len(bs[j].ranking[0]) > 0)

"""spec functions for utils.ballots_by_first_cand (C02, C03)"""
from pyvc.api import spec, lemma, implies, Int, Real, Bool, Str, CSet, Seq, Ballot, Profile, Opt, Dict, Fraction


@spec
def by_first(bs: Seq(Ballot), n: Int, x: Str) -> Seq(Ballot):
    """the ballots among the first n whose first position is exactly candidate x, in order"""
    return () if n <= 0 else by_first(bs, n - 1, x) + ((bs[n - 1],) if (bool(bs[n - 1].ranking) and bs[n - 1].ranking[0] == frozenset([x])) else ())


@spec
def first_bad(bs: Seq(Ballot), n: Int) -> Int:
    """index of the first of the first n ballots that has no ranking or a tied first position; -1 if there is none"""
    return -1 if n <= 0 else (first_bad(bs, n - 1) if first_bad(bs, n - 1) >= 0
                              else (n - 1 if (not bool(bs[n - 1].ranking) or len(bs[n - 1].ranking[0]) > 1) else -1))


@spec
def firsts_ok(bs: Seq(Ballot), n: Int, C: CSet) -> Bool:
    """every ranked ballot among the first n has a non-empty first position of candidates of C"""
    return True if n <= 0 else (firsts_ok(bs, n - 1, C) and (not bool(bs[n - 1].ranking) or (len(bs[n - 1].ranking[0]) > 0 and bs[n - 1].ranking[0] <= C)))


@lemma(induct="n")
def firsts_ok_nth(bs: Seq(Ballot), n: Int, C: CSet, j: Int) -> Bool:
    return implies(firsts_ok(bs, n, C) and 0 <= j and j < n, not bool(bs[j].ranking) or (len(bs[j].ranking[0]) > 0 and bs[j].ranking[0] <= C))


@lemma(induct="n")
def first_bad_stable(bs: Seq(Ballot), j: Int, n: Int) -> Bool:
    """once a bad ballot has been met, it stays the first one"""
    return implies(0 <= j and j <= n and first_bad(bs, j) >= 0, first_bad(bs, n) == first_bad(bs, j))


@lemma(induct="n")
def first_bad_range(bs: Seq(Ballot), n: Int) -> Bool:
    return implies(0 <= n, -1 <= first_bad(bs, n) and first_bad(bs, n) < n)

"""lemmas for PreferenceProfile.__add__ / __eq__ (C11)"""
from pyvc.api import spec, lemma, implies, Int, Real, Bool, Str, CSet, Seq, Ballot, Profile, Opt, Dict, Fraction
from specs.condense import wcont, wcont_left, cmatch, beq, bfind


@lemma(induct="n", hint=lambda a, b, n, kb, rk: wcont_left(a, b, len(a), kb, rk))
def wcont_concat(a: Seq(Ballot), b: Seq(Ballot), n: Int, kb: Ballot, rk: Bool) -> Bool:
    """the weight of a content in a concatenation is the sum of its weights in the parts"""
    return implies(0 <= n and n <= len(b), wcont(a + b, len(a) + n, kb, rk) == wcont(a, len(a), kb, rk) + wcont(b, n, kb, rk))

"""spec functions for DominatingSets / the pairwise comparison graph object (C06)"""
from pyvc.api import spec, lemma, implies, Int, Real, Bool, Str, CSet, Seq, Ballot, Profile, Opt, Dict, Fraction


@spec(opaque=True)
def filled(p: Profile) -> Profile:
    """the profile PairwiseComparisonGraph(p) stores: ballot_fill(p, len(p.candidates)) -- short ballots completed by every order of
    the candidates they do not list, at equal shares (itertools.permutations: outside the subset).  CPython runs the real code."""
    from votekit.graphs import PairwiseComparisonGraph
    return PairwiseComparisonGraph(p).profile


@spec(opaque=True)
def tiers_of(q: Profile) -> Seq(CSet):
    """the dominating tiers computed from a (filled) profile: candidates grouped by the number of candidates they reach in the
    beats-or-ties digraph, most first (networkx reachability and a dict of sets: outside the subset).  CPython runs the real code."""
    from votekit.graphs import PairwiseComparisonGraph
    return tuple(frozenset(t) for t in PairwiseComparisonGraph(q).dominating_tiers())


@spec
def all_truthy_rankings(bs: Seq(Ballot), n: Int) -> Bool:
    """every one of the first n ballots has a non-empty ranking"""
    return True if n <= 0 else (all_truthy_rankings(bs, n - 1) and bool(bs[n - 1].ranking))

"""spec functions and lemmas for PreferenceProfile.condense_ballots (C11): a dict keyed by Ballot is an insertion-ordered key
sequence with an aligned value sequence; lookup goes through Ballot.__eq__ with the STORED key as left operand (S-DICT)."""
from pyvc.api import spec, lemma, implies, Int, Real, Bool, Str, CSet, Seq, Ballot, Profile, Opt, Dict, Fraction
from specs.transfers import wrank


@spec
def beq(a: Ballot, b: Ballot) -> Bool:
    """a.__eq__(b) for two ballots: the postcondition of the (proved) contract of Ballot.__eq__"""
    return ((a.id is None or a.id == b.id) and a.ranking == b.ranking and a.weight == b.weight
            and (a.voter_set is None or a.voter_set == b.voter_set) and a.scores == b.scores)


@spec
def bfind(K: Seq(Ballot), n: Int, k: Ballot) -> Int:
    """index of the first of the first n stored keys that equals the probe k, -1 if there is none"""
    return -1 if n <= 0 else (bfind(K, n - 1, k) if bfind(K, n - 1, k) >= 0 else (n - 1 if beq(K[n - 1], k) else -1))


@spec(opaque=True)
def supd(V: Seq(Real), f: Int, x: Real) -> Seq(Real):
    """V with entry f replaced by x"""
    return V[:f] + (x,) + V[f + 1:]


@spec
def cmatch(b: Ballot, kb: Ballot, rk: Bool) -> Bool:
    """b has the content of kb: rk -- the same (present) ranking; not rk -- the same ranking and the same scores, where a
    ballot without scores and one with an empty score card have the same content"""
    return ((b.ranking is not None and b.ranking == kb.ranking) if rk
            else (b.ranking == kb.ranking and ((bool(kb.scores) and b.scores == kb.scores) if bool(b.scores) else not bool(kb.scores))))


@spec
def wcont(bs: Seq(Ballot), n: Int, kb: Ballot, rk: Bool) -> Real:
    """total weight of the ballots among the first n with the content of kb"""
    return 0 if n <= 0 else wcont(bs, n - 1, kb, rk) + (bs[n - 1].weight if cmatch(bs[n - 1], kb, rk) else 0)


@spec
def acc(K: Seq(Ballot), V: Seq(Real), n: Int, kb: Ballot, rk: Bool) -> Real:
    """total of the values stored under the first n keys with the content of kb"""
    return 0 if n <= 0 else acc(K, V, n - 1, kb, rk) + (V[n - 1] if cmatch(K[n - 1], kb, rk) else 0)


@spec
def wf(b: Ballot) -> Bool:
    """the score card of a constructed ballot holds no zero entry (the scores validator drops them): building a ballot from it
    again stores the same card"""
    return implies(bool(b.scores), Ballot(ranking=b.ranking, weight=Fraction(0), scores=b.scores).scores == b.scores)


@spec
def all_wf(bs: Seq(Ballot), n: Int) -> Bool:
    return True if n <= 0 else (all_wf(bs, n - 1) and wf(bs[n - 1]))


@spec
def key_ok(K: Seq(Ballot), n: Int) -> Bool:
    """the first n keys are weightless ballots without id and voter set whose score card is absent or non-empty"""
    return True if n <= 0 else (key_ok(K, n - 1) and K[n - 1].weight == 0 and K[n - 1].id is None and K[n - 1].voter_set is None
                                and (K[n - 1].scores is None or bool(K[n - 1].scores)))


@spec
def kdist(K: Seq(Ballot), n: Int) -> Bool:
    """no key among the first n equals an earlier one"""
    return True if n <= 0 else (kdist(K, n - 1) and bfind(K, n - 1, K[n - 1]) < 0)


@spec
def cb_ballot(k: Ballot, v: Real) -> Ballot:
    """the ballot condense_ballots writes for key k with accumulated weight v"""
    return Ballot(ranking=k.ranking, scores=k.scores, weight=v) if bool(k.scores) else Ballot(ranking=k.ranking, weight=v)


@spec
def cb_prefix(K: Seq(Ballot), V: Seq(Real), n: Int) -> Seq(Ballot):
    return () if n <= 0 else cb_prefix(K, V, n - 1) + (cb_ballot(K[n - 1], V[n - 1]),)


# ---------------------------------------------------------------- lemmas
@lemma(induct="n")
def bfind_range(K: Seq(Ballot), n: Int, k: Ballot) -> Bool:
    return implies(0 <= n and n <= len(K), -1 <= bfind(K, n, k) and bfind(K, n, k) < n
                   and implies(bfind(K, n, k) >= 0, beq(K[bfind(K, n, k)], k)))


@lemma(induct="n")
def bfind_none(K: Seq(Ballot), n: Int, k: Ballot, a: Int) -> Bool:
    return implies(0 <= n and n <= len(K) and bfind(K, n, k) < 0 and 0 <= a and a < n, not beq(K[a], k))


@lemma(induct="n")
def bfind_app(K: Seq(Ballot), x: Ballot, n: Int, k: Ballot) -> Bool:
    return implies(0 <= n and n <= len(K), bfind(K + (x,), n, k) == bfind(K, n, k))


@lemma(reveal=("supd",))
def supd_nth(V: Seq(Real), f: Int, x: Real, j: Int) -> Bool:
    return implies(0 <= f and f < len(V), len(supd(V, f, x)) == len(V) and supd(V, f, x)[f] == x
                   and implies(0 <= j and j < len(V) and j != f, supd(V, f, x)[j] == V[j]))


@lemma(induct="n")
def acc_app(K: Seq(Ballot), V: Seq(Real), x: Ballot, v: Real, n: Int, kb: Ballot, rk: Bool) -> Bool:
    return implies(0 <= n and n <= len(K) and n <= len(V), acc(K + (x,), V + (v,), n, kb, rk) == acc(K, V, n, kb, rk))


@lemma(induct="n", hint=lambda K, V, f, x, n, kb, rk: supd_nth(V, f, x, n - 1))
def acc_upd(K: Seq(Ballot), V: Seq(Real), f: Int, x: Real, n: Int, kb: Ballot, rk: Bool) -> Bool:
    return implies(0 <= f and f < len(V) and 0 <= n and n <= len(V) and n <= len(K),
                   acc(K, supd(V, f, x), n, kb, rk) == acc(K, V, n, kb, rk) + ((x - V[f]) if (f < n and cmatch(K[f], kb, rk)) else 0))


@lemma(induct="n")
def key_ok_app(K: Seq(Ballot), x: Ballot, n: Int) -> Bool:
    return implies(0 <= n and n <= len(K), key_ok(K + (x,), n) == key_ok(K, n))


@lemma(induct="n")
def all_wf_app(K: Seq(Ballot), x: Ballot, n: Int) -> Bool:
    return implies(0 <= n and n <= len(K), all_wf(K + (x,), n) == all_wf(K, n))


@lemma(induct="n", hint=lambda K, x, n: bfind_app(K, x, n - 1, K[n - 1]))
def kdist_app(K: Seq(Ballot), x: Ballot, n: Int) -> Bool:
    return implies(0 <= n and n <= len(K), kdist(K + (x,), n) == kdist(K, n))


@lemma(induct="n")
def cb_prefix_len(K: Seq(Ballot), V: Seq(Real), n: Int) -> Bool:
    return implies(n >= 0, len(cb_prefix(K, V, n)) == n)


@lemma(induct="n", hint=lambda K, V, n, j: cb_prefix_len(K, V, n - 1))
def cb_prefix_nth(K: Seq(Ballot), V: Seq(Real), n: Int, j: Int) -> Bool:
    return implies(0 <= j and j < n, cb_prefix(K, V, n)[j] == cb_ballot(K[j], V[j]))


@lemma(induct="n")
def wcont_left(a: Seq(Ballot), b: Seq(Ballot), n: Int, kb: Ballot, rk: Bool) -> Bool:
    return implies(0 <= n and n <= len(a), wcont(a + b, n, kb, rk) == wcont(a, n, kb, rk))


@lemma(induct="n", hint=lambda K, V, n, kb, rk: cb_prefix_len(K, V, n - 1)
       and wcont_left(cb_prefix(K, V, n - 1), (cb_ballot(K[n - 1], V[n - 1]),), n - 1, kb, rk))
def wcont_cb_prefix(K: Seq(Ballot), V: Seq(Real), n: Int, kb: Ballot, rk: Bool) -> Bool:
    """the written ballots carry, per content, what the accumulator holds"""
    return implies(0 <= n and n <= len(K) and n <= len(V) and all_wf(K, n),
                   wcont(cb_prefix(K, V, n), n, kb, rk) == acc(K, V, n, kb, rk))


@lemma(induct="n")
def wcont_wrank(bs: Seq(Ballot), n: Int, k: Seq(CSet)) -> Bool:
    return wcont(bs, n, Ballot(ranking=k), True) == wrank(bs, n, k)


@lemma(induct="n")
def key_ok_nth(K: Seq(Ballot), n: Int, j: Int) -> Bool:
    return implies(key_ok(K, n) and 0 <= j and j < n, K[j].weight == 0 and K[j].id is None and K[j].voter_set is None
                   and (K[j].scores is None or bool(K[j].scores)))


@lemma(induct="n")
def all_wf_nth(K: Seq(Ballot), n: Int, j: Int) -> Bool:
    return implies(all_wf(K, n) and 0 <= j and j < n, wf(K[j]))


@lemma(induct="n", hint=lambda K, n, a, b: bfind_none(K, n - 1, K[n - 1], a))
def kdist_pair(K: Seq(Ballot), n: Int, a: Int, b: Int) -> Bool:
    return implies(0 <= n and n <= len(K) and kdist(K, n) and 0 <= a and a < b and b < n, not beq(K[a], K[b]))


@lemma(hint=lambda K, V, n, a, b: kdist_pair(K, n, a, b) and key_ok_nth(K, n, a) and key_ok_nth(K, n, b) and all_wf_nth(K, n, a)
       and all_wf_nth(K, n, b) and cb_prefix_nth(K, V, n, a) and cb_prefix_nth(K, V, n, b))
def cb_distinct(K: Seq(Ballot), V: Seq(Real), n: Int, a: Int, b: Int) -> Bool:
    """distinct keys are written as ballots of different content"""
    return implies(0 <= n and n <= len(K) and n <= len(V) and kdist(K, n) and key_ok(K, n) and all_wf(K, n) and 0 <= a and a < b and b < n,
                   not cmatch(cb_prefix(K, V, n)[a], cb_prefix(K, V, n)[b], False))


# ---------------------------------------------------------------- any additive per-ranking functional survives condensing
from specs.scoring import pts, wpts  # noqa: E402  (pts is opaque here: the argument holds for every function of the ranking)


@spec
def accp(K: Seq(Ballot), V: Seq(Real), n: Int, sv: Seq(Real), x: Str) -> Real:
    return 0 if n <= 0 else accp(K, V, n - 1, sv, x) + (V[n - 1] * pts(K[n - 1].ranking, len(K[n - 1].ranking), sv, x)
                                                        if K[n - 1].ranking is not None else 0)


@lemma(induct="n")
def accp_app(K: Seq(Ballot), V: Seq(Real), b: Ballot, v: Real, n: Int, sv: Seq(Real), x: Str) -> Bool:
    return implies(0 <= n and n <= len(K) and n <= len(V), accp(K + (b,), V + (v,), n, sv, x) == accp(K, V, n, sv, x))


@lemma(induct="n", hint=lambda K, V, f, y, n, sv, x: supd_nth(V, f, y, n - 1))
def accp_upd(K: Seq(Ballot), V: Seq(Real), f: Int, y: Real, n: Int, sv: Seq(Real), x: Str) -> Bool:
    return implies(0 <= f and f < len(V) and 0 <= n and n <= len(V) and n <= len(K),
                   accp(K, supd(V, f, y), n, sv, x)
                   == accp(K, V, n, sv, x) + ((y - V[f]) * pts(K[f].ranking, len(K[f].ranking), sv, x) if (f < n and K[f].ranking is not None) else 0))


@lemma(induct="n")
def wpts_left(a: Seq(Ballot), b: Seq(Ballot), n: Int, sv: Seq(Real), x: Str) -> Bool:
    return implies(0 <= n and n <= len(a), wpts(a + b, n, sv, x) == wpts(a, n, sv, x))


@lemma(induct="n", hint=lambda K, V, n, sv, x: cb_prefix_len(K, V, n - 1)
       and wpts_left(cb_prefix(K, V, n - 1), (cb_ballot(K[n - 1], V[n - 1]),), n - 1, sv, x))
def wpts_cb_prefix(K: Seq(Ballot), V: Seq(Real), n: Int, sv: Seq(Real), x: Str) -> Bool:
    return implies(0 <= n and n <= len(K) and n <= len(V), wpts(cb_prefix(K, V, n), n, sv, x) == accp(K, V, n, sv, x))


# ---------------------------------------------------------------- a property of every ranking survives condensing (rk_ok is opaque here)
from specs.scoring import rk_ok, all_rk_ok, all_rk_ok_app, all_rk_ok_nth  # noqa: E402


@lemma(induct="n", hint=lambda K, V, n, C: cb_prefix_len(K, V, n - 1) and all_rk_ok_app(cb_prefix(K, V, n - 1), cb_ballot(K[n - 1], V[n - 1]), n - 1, C))
def cb_prefix_ok(K: Seq(Ballot), V: Seq(Real), n: Int, C: CSet) -> Bool:
    return implies(0 <= n and n <= len(K) and n <= len(V) and all_rk_ok(K, n, C), all_rk_ok(cb_prefix(K, V, n), n, C))

"""spec functions for score ballots (C05)"""
from pyvc.api import spec, lemma, implies, Int, Real, Bool, Str, CSet, Seq, Ballot, Profile, Opt, dsum


@spec
def score_ballot_ok(b: Ballot, L: Real, k: Opt(Real)) -> Bool:
    """the ballot carries scores, each within [0, L], and their sum within the budget k (if any)"""
    return (b.scores is not None and len(b.scores) > 0
            and all(s <= L for s in b.scores.values())
            and all(s >= 0 for s in b.scores.values())
            and (k is None or k == 0 or dsum(b.scores) <= k))


@spec
def score_ballots_ok(bs: Seq(Ballot), n: Int, L: Real, k: Opt(Real)) -> Bool:
    return True if n <= 0 else (score_ballots_ok(bs, n - 1, L, k) and score_ballot_ok(bs[n - 1], L, k))


@lemma(induct="n")
def score_ballots_ok_prefix(bs: Seq(Ballot), j: Int, n: Int, L: Real, k: Opt(Real)) -> Bool:
    return implies(0 <= j and j <= n and score_ballots_ok(bs, n, L, k), score_ballots_ok(bs, j, L, k))

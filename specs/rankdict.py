"""spec functions and lemmas for PreferenceProfile.to_ranking_dict (C11): a dict keyed by rankings (tuples of frozensets, structural equality)"""
from pyvc.api import spec, lemma, implies, Int, Real, Bool, Str, CSet, Seq, Ballot, Profile, Opt, Dict, Fraction
from specs.condense import supd, supd_nth


@spec
def rfind(K: Seq(Seq(CSet)), n: Int, k: Seq(CSet)) -> Int:
    """index of the first of the first n stored rankings equal to k, -1 if there is none"""
    return -1 if n <= 0 else (rfind(K, n - 1, k) if rfind(K, n - 1, k) >= 0 else (n - 1 if K[n - 1] == k else -1))


@spec
def rkey(b: Ballot) -> Seq(CSet):
    """the key to_ranking_dict files a ballot under: its ranking, or (frozenset(),) when it has none (or an empty one)"""
    return b.ranking if bool(b.ranking) else (frozenset(),)


@spec
def wkey(bs: Seq(Ballot), n: Int, k: Seq(CSet)) -> Real:
    """total weight of the ballots among the first n filed under key k"""
    return 0 if n <= 0 else wkey(bs, n - 1, k) + (bs[n - 1].weight if rkey(bs[n - 1]) == k else 0)


@spec
def racc(K: Seq(Seq(CSet)), V: Seq(Real), n: Int, k: Seq(CSet)) -> Real:
    """total of the values stored under the first n keys equal to k"""
    return 0 if n <= 0 else racc(K, V, n - 1, k) + (V[n - 1] if K[n - 1] == k else 0)


@lemma(induct="n")
def rfind_range(K: Seq(Seq(CSet)), n: Int, k: Seq(CSet)) -> Bool:
    return implies(0 <= n and n <= len(K), -1 <= rfind(K, n, k) and rfind(K, n, k) < n and implies(rfind(K, n, k) >= 0, K[rfind(K, n, k)] == k))


@lemma(induct="n")
def racc_app(K: Seq(Seq(CSet)), V: Seq(Real), x: Seq(CSet), v: Real, n: Int, k: Seq(CSet)) -> Bool:
    return implies(0 <= n and n <= len(K) and n <= len(V), racc(K + (x,), V + (v,), n, k) == racc(K, V, n, k))


@lemma(induct="n", hint=lambda K, V, f, x, n, k: supd_nth(V, f, x, n - 1))
def racc_upd(K: Seq(Seq(CSet)), V: Seq(Real), f: Int, x: Real, n: Int, k: Seq(CSet)) -> Bool:
    return implies(0 <= f and f < len(V) and 0 <= n and n <= len(V) and n <= len(K),
                   racc(K, supd(V, f, x), n, k) == racc(K, V, n, k) + ((x - V[f]) if (f < n and K[f] == k) else 0))

"""spec vocabulary of the STV step (C02).  Opaque functions name the results of the callees that are not (yet) under a
discharged contract; they only have to be the same terms in the callee's assumed contract and in the caller's
postcondition -- their meaning is what the bounded round-by-round audit (bounded/C02.py) checks."""
from pyvc.api import spec, lemma, implies, Int, Real, Bool, Str, CSet, Seq, Ballot, Profile, Opt, Dict, StateRef, Fn
from specs.base import count


@spec(opaque=True)
def fpv_of(p: Profile) -> Dict(Real):
    """first-place tallies of a profile (first_place_votes); uninterpreted for the solver, CPython runs the real function"""
    from votekit.utils import first_place_votes
    return first_place_votes(p)


@spec(opaque=True)
def ranking_of(d: Dict(Real)) -> Seq(CSet):
    """candidates grouped by equal score, highest first (score_dict_to_ranking); uninterpreted for the solver, CPython runs the
    real function"""
    from votekit.utils import score_dict_to_ranking
    return score_dict_to_ranking(d)


@spec(opaque=True)
def removed_profile(p: Profile, c: Str) -> Profile:
    """profile with candidate c taken off every ballot and off the candidate list (remove_cand)"""
    raise NotImplementedError


@spec(opaque=True)
def sim_elected(p: Profile, prev: StateRef, T: Int) -> Seq(CSet):
    raise NotImplementedError


@spec(opaque=True)
def sim_profile(p: Profile, prev: StateRef, T: Int, transfer: Fn) -> Profile:
    raise NotImplementedError


@spec(opaque=True)
def one_elected(p: Profile, prev: StateRef, tb: Opt(Str)) -> Seq(CSet):
    raise NotImplementedError


@spec(opaque=True)
def one_tb_has(p: Profile, prev: StateRef, tb: Opt(Str)) -> Bool:
    raise NotImplementedError


@spec(opaque=True)
def one_tb_val(p: Profile, prev: StateRef, tb: Opt(Str)) -> Seq(CSet):
    raise NotImplementedError


@spec(opaque=True)
def one_profile(p: Profile, prev: StateRef, T: Int, transfer: Fn, tb: Opt(Str)) -> Profile:
    raise NotImplementedError


@spec(opaque=True)
def first_place_order(s: CSet, p: Profile) -> Seq(CSet):
    """tiebreak_set(s, p, 'first_place'): a strict order of s by first-place tally of p (random among equal tallies)"""
    raise NotImplementedError


@spec(opaque=True)
def fp_sorted(t: Seq(CSet), p: Profile) -> Bool:
    """the strict order t lists its candidates by non-increasing first-place tally of profile p"""
    raise NotImplementedError


@spec(opaque=True)
def score_by(f: Fn, p: Profile) -> Dict(Real):
    """what the score function f (a function-valued field whose identity the contract does not fix, e.g. Borda's
    partial(score_profile_from_rankings, ...)) returns for profile p: assumed to be a pure function of p (A-PUREFN)"""
    return f(p)
